/-
  C05 — Result models are as strict as the schema.

  Statements and final proofs; lemmas in Proofs/ResultLeaf.lean.  Model: Model/ResultTypes.lean,
  pydantic reference semantics Spec/Pyd.lean (lax python mode; pydantic-core's str→number parsers are
  parameters `Lax`), executor leaf completion Spec/Exec.lean.

  * `declared_type_is_image`      (all field types of every kind): Optional iff nullable, List iff list.
  * `conditional_makes_optional`  : @skip/@include adds exactly one Optional and a `None` default.
  * `leaf_base_exact`             : the base is the SIMPLE_TYPE_MAP image, the enum class, or `Any`
                                    (and `Any` only for unconfigured custom scalars).
  * `accepts_iff_lax`             (all leaf types, all JSON values): pydantic accepts exactly the
                                    conformant values plus the cells of the explicit lax table.
  * corollaries: null at a non-null position, a list where a scalar is expected (and vice versa), an
    object where a leaf is expected are rejected; `missing_required_rejected`; `foreign_typename_rejected`.
  * `C05_full_false`              : the full-strength claim fails exactly on lax-table cells
                                    (e.g. `Int!` accepts `true`), witness proved by evaluation.
-/
import AriadneModel.Proofs.ResultLeaf

set_option linter.unusedVariables false
set_option linter.unusedSimpArgs false

namespace Ariadne.C05
open Ariadne Ariadne.Gql Ariadne.ResultTypes Ariadne.ResultLeaf Ariadne.Pyd Ariadne.Util

/-! ### The declared Python type is the image of the GraphQL type -/

/-- For every field type (scalar, enum, object, interface, union under any wrappers):
    `Optional[...]` exactly where the GraphQL type is nullable, `List[...]` exactly where it is a list. -/
theorem declared_type_is_image (genv : ResultTypes.Env) (fuel : Nat) (sel : List Selection) (T : TypeRef)
    (nullable : Bool) (cn : String) (add : Bool) (ctx : Ctx) (a : Ann) (ctx' : Ctx)
    (h : parseType genv fuel sel T nullable cn add ctx = .ok (a, ctx')) :
    skelAnn a = skelType nullable T :=
  parseType_skeleton genv fuel sel T nullable cn add ctx a ctx' h

/-- `@skip` / `@include` on the field: the annotation becomes Optional (once) with default `None`;
    without such a directive nothing changes and there is no default. -/
theorem conditional_makes_optional (a : Ann) (dirs : List Directive) :
    (hasConditionalDirective dirs = true →
        (parseDirectives a dirs).2 = true ∧
        skelAnn (parseDirectives a dirs).1 = (match skelAnn a with | .opt s => .opt s | s => .opt s))
    ∧ (hasConditionalDirective dirs = false → parseDirectives a dirs = (a, false)) := by
  constructor
  · intro h
    unfold parseDirectives
    simp only [h, ↓reduceIte, true_and]
    cases a <;> simp [isNullableAnn, skelAnn]
  · intro h
    unfold parseDirectives
    simp [h]

/-- The base of a leaf annotation: enum class for enums; `str/int/float/bool` exactly for the five
    built-in scalars (regenerated `SIMPLE_TYPE_MAP`); `Any` for — and only for — other scalars that
    are not configured as custom scalars. -/
theorem leaf_base_exact (genv : ResultTypes.Env) (n : String) :
    (genv.schema.kindOf? n = some .enum → leafBase genv n = .name n) ∧
    (genv.schema.kindOf? n ≠ some .enum →
      (n = "String" ∨ n = "ID" → leafBase genv n = .name "str") ∧
      (n = "Int" → leafBase genv n = .name "int") ∧
      (n = "Float" → leafBase genv n = .name "float") ∧
      (n = "Boolean" → leafBase genv n = .name "bool") ∧
      (leafBase genv n = .name "Any" ↔ (n ≠ "String" ∧ n ≠ "ID" ∧ n ≠ "Int" ∧ n ≠ "Boolean" ∧ n ≠ "Float"))) := by
  constructor
  · intro h; simp [leafBase, h]
  · intro h
    have hb : leafBase genv n = (match lookupStr n Tables.simpleTypeMap with
        | some py => .name py
        | none => .name "Any") := by
      unfold leafBase
      split
      · rename_i hk; exact absurd hk h
      · rfl
    refine ⟨?_, ?_, ?_, ?_, ?_⟩
    · rintro (rfl | rfl) <;> (rw [hb]; simp [lookupStr, Tables.simpleTypeMap])
    · rintro rfl; rw [hb]; simp [lookupStr, Tables.simpleTypeMap]
    · rintro rfl; rw [hb]; simp [lookupStr, Tables.simpleTypeMap]
    · rintro rfl; rw [hb]; simp [lookupStr, Tables.simpleTypeMap]
    · rw [hb]
      cases hlk : lookupStr n Tables.simpleTypeMap with
      | none =>
        obtain ⟨h1, h2, h3, h4, h5⟩ := lookup_simple_none n hlk
        simp [h1, h2, h3, h4, h5]
      | some py =>
        rcases lookup_simple n py hlk with ⟨rfl, rfl⟩ | ⟨rfl, rfl⟩ | ⟨rfl, rfl⟩ | ⟨rfl, rfl⟩ | ⟨rfl, rfl⟩ <;> simp

/-! ### What is accepted -/

/-- pydantic accepts a payload at a leaf-typed position iff it is conformant up to the explicit lax
    table (`conformsLax`): all leaf types, all wrapper nestings, all JSON values. -/
theorem accepts_iff_lax (genv : ResultTypes.Env) (penv : Pyd.Env) (ha : EnvAgrees genv penv) (T : TypeRef)
    (hl : LeafName genv T.base) (nullable : Bool) (j : J) (fuel : Nat) (hf : need T ≤ fuel) :
    (∃ v, validate penv fuel (leafAnn genv nullable T) j = .ok v) ↔ conformsLax genv.schema penv.lax nullable T j = true := by
  rw [← validate_leaf_okB genv penv ha T hl nullable j fuel hf]
  cases validate penv fuel (leafAnn genv nullable T) j <;> simp [okB]

/-- strictly conformant values are inside the lax table -/
theorem conforms_imp_lax (S : Schema) (lax : Lax) (T : TypeRef) :
    ∀ (nullable : Bool) (j : J), Exec.conforms S nullable T j = true → conformsLax S lax nullable T j = true := by
  induction T with
  | named n =>
    intro nullable j h
    unfold Exec.conforms at h
    unfold conformsLax
    cases j with
    | null => simp at h ⊢; exact Or.inl h
    | bool b =>
      simp only [] at h ⊢
      unfold Exec.leafOk at h; unfold leafOkLax
      cases hg : S.get? n with
      | none =>
        simp only [hg, Schema.kindOf?, Option.map_none] at h ⊢
        by_cases h1 : n = "Int" <;> by_cases h2 : n = "Float" <;> by_cases h3 : (n = "String" ∨ n = "ID")
          <;> by_cases h4 : n = "Boolean" <;> simp_all
      | some t =>
        simp only [hg, Schema.kindOf?, Option.map_some] at h ⊢
        cases hk : t.kind <;> simp [hk] at h ⊢
        by_cases h1 : n = "Int" <;> by_cases h2 : n = "Float" <;> by_cases h3 : (n = "String" ∨ n = "ID")
          <;> by_cases h4 : n = "Boolean" <;> simp_all
    | num m e =>
      simp only [] at h ⊢
      unfold Exec.leafOk at h; unfold leafOkLax
      cases hg : S.get? n with
      | none =>
        simp only [hg, Schema.kindOf?, Option.map_none] at h ⊢
        by_cases h1 : n = "Int" <;> by_cases h2 : n = "Float" <;> by_cases h3 : (n = "String" ∨ n = "ID")
          <;> by_cases h4 : n = "Boolean" <;> simp_all
        all_goals (cases e <;> simp_all [integral_zero])
      | some t =>
        simp only [hg, Schema.kindOf?, Option.map_some] at h ⊢
        cases hk : t.kind <;> simp [hk] at h ⊢
        by_cases h1 : n = "Int" <;> by_cases h2 : n = "Float" <;> by_cases h3 : (n = "String" ∨ n = "ID")
          <;> by_cases h4 : n = "Boolean" <;> simp_all
        all_goals (cases e <;> simp_all [integral_zero])
    | str s =>
      simp only [] at h ⊢
      unfold Exec.leafOk at h; unfold leafOkLax
      cases hg : S.get? n with
      | none =>
        simp only [hg, Schema.kindOf?, Option.map_none] at h ⊢
        by_cases h1 : n = "Int" <;> by_cases h2 : n = "Float" <;> by_cases h3 : (n = "String" ∨ n = "ID")
          <;> by_cases h4 : n = "Boolean" <;> simp_all
      | some t =>
        simp only [hg, Schema.kindOf?, Option.map_some] at h ⊢
        cases hk : t.kind <;> simp [hk] at h ⊢
        · by_cases h1 : n = "Int" <;> by_cases h2 : n = "Float" <;> by_cases h3 : (n = "String" ∨ n = "ID")
            <;> by_cases h4 : n = "Boolean" <;> simp_all
        · exact h
    | arr xs =>
      simp only [] at h ⊢
      unfold Exec.leafOk at h; unfold leafOkLax
      cases hg : S.get? n with
      | none =>
        simp only [hg, Schema.kindOf?, Option.map_none] at h ⊢
        by_cases h1 : n = "Int" <;> by_cases h2 : n = "Float" <;> by_cases h3 : (n = "String" ∨ n = "ID")
          <;> by_cases h4 : n = "Boolean" <;> simp_all
      | some t =>
        simp only [hg, Schema.kindOf?, Option.map_some] at h ⊢
        cases hk : t.kind <;> simp [hk] at h ⊢
        by_cases h1 : n = "Int" <;> by_cases h2 : n = "Float" <;> by_cases h3 : (n = "String" ∨ n = "ID")
          <;> by_cases h4 : n = "Boolean" <;> simp_all
    | obj kvs =>
      simp only [] at h ⊢
      unfold Exec.leafOk at h; unfold leafOkLax
      cases hg : S.get? n with
      | none =>
        simp only [hg, Schema.kindOf?, Option.map_none] at h ⊢
        by_cases h1 : n = "Int" <;> by_cases h2 : n = "Float" <;> by_cases h3 : (n = "String" ∨ n = "ID")
          <;> by_cases h4 : n = "Boolean" <;> simp_all
      | some t =>
        simp only [hg, Schema.kindOf?, Option.map_some] at h ⊢
        cases hk : t.kind <;> simp [hk] at h ⊢
        by_cases h1 : n = "Int" <;> by_cases h2 : n = "Float" <;> by_cases h3 : (n = "String" ∨ n = "ID")
          <;> by_cases h4 : n = "Boolean" <;> simp_all
  | list t ih =>
    intro nullable j h
    unfold Exec.conforms at h
    unfold conformsLax
    cases j with
    | arr xs =>
      simp only [List.all_eq_true] at h ⊢
      intro x hx
      exact ih true x (h x hx)
    | null => simpa using h
    | bool b => simp at h
    | num m e => simp at h
    | str s => simp at h
    | obj kvs => simp at h
  | nonNull t ih =>
    intro nullable j h
    unfold Exec.conforms at h
    unfold conformsLax
    exact ih false j h

/-! ### Strictness corollaries (single-point corruptions of the property) -/

/-- null where the schema says non-null is rejected — for every leaf type except the unconfigured
    custom scalars (`Any` accepts `None`: cell `(custom scalar, null)` of the lax table, finding C05-F2) -/
theorem null_at_nonnull_rejected (genv : ResultTypes.Env) (penv : Pyd.Env) (ha : EnvAgrees genv penv) (n : String)
    (hl : LeafName genv n) (hnotAny : isAnyLeaf genv.schema n = false) (fuel : Nat) (hf : 2 ≤ fuel) (nullable : Bool) :
    ∀ v, validate penv fuel (leafAnn genv nullable (.nonNull (.named n))) .null ≠ .ok v := by
  intro v hv
  have h := (accepts_iff_lax genv penv ha (.nonNull (.named n)) (by simpa [TypeRef.base] using hl) nullable .null fuel
    (by simpa [need] using hf)).mp ⟨v, hv⟩
  simp [conformsLax, hnotAny] at h

/-- null for a non-null list is rejected -/
theorem null_at_nonnull_list_rejected (genv : ResultTypes.Env) (penv : Pyd.Env) (ha : EnvAgrees genv penv) (t : TypeRef)
    (hl : LeafName genv t.base) (fuel : Nat) (hf : need t + 2 ≤ fuel) (nullable : Bool) :
    ∀ v, validate penv fuel (leafAnn genv nullable (.nonNull (.list t))) .null ≠ .ok v := by
  intro v hv
  have h := (accepts_iff_lax genv penv ha (.nonNull (.list t)) (by simpa [TypeRef.base] using hl) nullable .null fuel
    (by simpa [need] using hf)).mp ⟨v, hv⟩
  simp [conformsLax] at h

/-- a scalar or an object where a list is expected is rejected -/
theorem nonlist_at_list_rejected (genv : ResultTypes.Env) (penv : Pyd.Env) (ha : EnvAgrees genv penv) (t : TypeRef)
    (hl : LeafName genv t.base) (fuel : Nat) (hf : need t + 2 ≤ fuel) (nullable : Bool) (j : J)
    (hj : j.isArr = false) (hn : j.isNull = false) :
    ∀ v, validate penv fuel (leafAnn genv nullable (.list t)) j ≠ .ok v := by
  intro v hv
  have h := (accepts_iff_lax genv penv ha (.list t) (by simpa [TypeRef.base] using hl) nullable j fuel
    (by simpa [need] using hf)).mp ⟨v, hv⟩
  cases j <;> simp [conformsLax, J.isArr, J.isNull] at h hj hn

theorem leafOkLax_composite_false (S : Schema) (lax : Lax) (n : String) (j : J)
    (hnotAny : isAnyLeaf S n = false) (hj : j.isArr = true ∨ j.isObj = true) : leafOkLax S lax n j = false := by
  unfold isAnyLeaf at hnotAny
  unfold leafOkLax
  have hjj : (∃ xs, j = .arr xs) ∨ (∃ kvs, j = .obj kvs) := by
    cases j <;> simp [J.isArr, J.isObj] at hj
    · exact Or.inl ⟨_, rfl⟩
    · exact Or.inr ⟨_, rfl⟩
  cases hk : S.kindOf? n with
  | none =>
    simp only [hk] at hnotAny ⊢
    by_cases h1 : n = "Int" <;> by_cases h2 : n = "Float" <;> by_cases h3 : n = "String" <;> by_cases h4 : n = "ID"
      <;> by_cases h5 : n = "Boolean" <;> rcases hjj with ⟨xs, rfl⟩ | ⟨kvs, rfl⟩ <;> simp_all
  | some k =>
    cases k with
    | enum =>
      simp only []
      cases S.get? n <;> rcases hjj with ⟨xs, rfl⟩ | ⟨kvs, rfl⟩ <;> simp
    | scalar | object | interface | union | input =>
      simp only [hk] at hnotAny ⊢
      by_cases h1 : n = "Int" <;> by_cases h2 : n = "Float" <;> by_cases h3 : n = "String" <;> by_cases h4 : n = "ID"
        <;> by_cases h5 : n = "Boolean" <;> rcases hjj with ⟨xs, rfl⟩ | ⟨kvs, rfl⟩ <;> simp_all

/-- a list or an object where a built-in scalar or an enum is expected is rejected -/
theorem composite_at_leaf_rejected (genv : ResultTypes.Env) (penv : Pyd.Env) (ha : EnvAgrees genv penv) (n : String)
    (hl : LeafName genv n) (hnotAny : isAnyLeaf genv.schema n = false) (fuel : Nat) (hf : 2 ≤ fuel) (nullable : Bool) (j : J)
    (hj : j.isArr = true ∨ j.isObj = true) :
    ∀ v, validate penv fuel (leafAnn genv nullable (.named n)) j ≠ .ok v := by
  intro v hv
  have h := (accepts_iff_lax genv penv ha (.named n) (by simpa [TypeRef.base] using hl) nullable j fuel
    (by simpa [need] using hf)).mp ⟨v, hv⟩
  have hlax := leafOkLax_composite_false genv.schema penv.lax n j hnotAny hj
  cases j <;> simp [conformsLax, hlax, J.isArr, J.isObj] at h hj

/-! ### Class level: missing keys and foreign `__typename` -/

/-- A selected unconditional field missing from the payload is rejected (whatever else is there). -/
theorem missing_required_rejected (penv : Pyd.Env) (clsFuel : Nat) (rec : Ann → J → Except VErr PV)
    (kvs : List (String × J)) (f : FieldDecl) (hreq : f.defaultNone = false)
    (hpy : J.lookup f.py kvs = none) (halias : ∀ a, f.alias = some a → J.lookup a kvs = none) :
    fieldWith penv clsFuel rec kvs f = .error (.missing (f.alias.getD f.py)) := by
  unfold fieldWith
  cases ha : f.alias with
  | none => simp [hpy, hreq]
  | some a => simp [halias a ha, hpy, hreq]

theorem mapE_error_of_mem {α β ε} (f : α → Except ε β) (xs : List α) (x : α) (e : ε) (hx : x ∈ xs) (he : f x = .error e) :
    ∃ e', mapE f xs = .error e' := by
  induction xs with
  | nil => simp at hx
  | cons y ys ih =>
    simp only [mapE]
    cases hy : f y with
    | error e' => exact ⟨e', rfl⟩
    | ok v =>
      rcases List.mem_cons.mp hx with rfl | hmem
      · rw [he] at hy; simp at hy
      · obtain ⟨e', h'⟩ := ih hmem
        exact ⟨e', by simp [h']⟩

/-- hence the whole model is rejected -/
theorem model_with_missing_field_rejected (penv : Pyd.Env) (clsFuel : Nat) (rec : Ann → J → Except VErr PV)
    (cn : String) (kvs : List (String × J)) (f : FieldDecl) (hf : f ∈ allFields penv clsFuel cn) (hreq : f.defaultNone = false)
    (hpy : J.lookup f.py kvs = none) (halias : ∀ a, f.alias = some a → J.lookup a kvs = none) :
    ∀ v, modelWith penv clsFuel rec cn (.obj kvs) ≠ .ok v := by
  intro v hv
  unfold modelWith at hv
  cases hc : penv.class? cn with
  | none => simp [hc] at hv
  | some c =>
    simp only [hc] at hv
    obtain ⟨e', he'⟩ := mapE_error_of_mem (fieldWith penv clsFuel rec kvs) _ f _ hf
      (missing_required_rejected penv clsFuel rec kvs f hreq hpy halias)
    simp [he'] at hv

/-- An object whose `__typename` is not in the literal of any member class of a discriminated
    union is rejected; so is an object without `__typename`. -/
theorem foreign_typename_rejected (penv : Pyd.Env) (clsFuel : Nat) (rec : Ann → J → Except VErr PV)
    (as : List Ann) (kvs : List (String × J)) (tag : String)
    (htag : J.lookup ResultTypes.typenameField kvs = some (.str tag))
    (hforeign : ∀ a ∈ as, ∀ cn, annClassName? a = some cn → ((typenameLiteral penv clsFuel cn).getD []).contains tag = false) :
    taggedWith penv clsFuel rec as (.obj kvs) = .error (.tagInvalid tag) := by
  unfold taggedWith
  simp only [htag]
  rw [List.find?_eq_none.mpr]
  intro a ha
  cases hcn : annClassName? a with
  | none => simp
  | some cn => simpa using hforeign a ha cn hcn

theorem missing_typename_rejected (penv : Pyd.Env) (clsFuel : Nat) (rec : Ann → J → Except VErr PV)
    (as : List Ann) (kvs : List (String × J)) (h : J.lookup ResultTypes.typenameField kvs = none) :
    taggedWith penv clsFuel rec as (.obj kvs) = .error .tagNotFound := by
  unfold taggedWith
  simp [h]

/-! ### Full strength is false exactly on the lax table -/

/-- The property at full strength for leaf positions: pydantic accepts a payload iff it is conformant. -/
def C05_full_leaf : Prop :=
  ∀ (genv : ResultTypes.Env) (penv : Pyd.Env), EnvAgrees genv penv → ∀ (T : TypeRef), LeafName genv T.base →
    ∀ (j : J) (fuel : Nat), need T ≤ fuel →
      ((∃ v, validate penv fuel (leafAnn genv true T) j = .ok v) ↔ Exec.conforms genv.schema true T j = true)

def emptyGenv : ResultTypes.Env := { schema := { types := [] }, frags := [] }
def emptyPenv : Pyd.Env := { classes := [], enums := [] }

theorem emptyAgrees : EnvAgrees emptyGenv emptyPenv where
  enums := by intro n t h; simp [emptyGenv, Schema.get?] at h
  notBuiltin := by intro n h; simp [emptyGenv, Schema.kindOf?, Schema.get?] at h
  builtins := by intro n _; left; simp [emptyGenv, Schema.kindOf?, Schema.get?]
  noExtraEnums := by intro n _; right; simp [emptyPenv, Pyd.Env.enum?]

/-- witness (finding C05-F1): `Int!` accepts the JSON boolean `true` -/
theorem C05_full_false : ¬ C05_full_leaf := by
  intro h
  have hl : LeafName emptyGenv (TypeRef.nonNull (.named "Int")).base := by
    refine ⟨Or.inl ?_, ?_⟩ <;> simp [TypeRef.base, emptyGenv, Schema.kindOf?, Schema.get?, scalarCfg?]
  have := (h emptyGenv emptyPenv emptyAgrees (.nonNull (.named "Int")) hl (.bool true) 2 (by simp [need])).mp
    ((accepts_iff_lax emptyGenv emptyPenv emptyAgrees _ hl true (.bool true) 2 (by simp [need])).mpr
      (by simp [conformsLax, leafOkLax, emptyGenv, Schema.kindOf?, Schema.get?]))
  simp [Exec.conforms, Exec.leafOk, emptyGenv, Schema.get?] at this

/-- The partial theorem: outside the lax table (`conformsLax` = `conforms`), accepted iff conformant. -/
theorem C05_partial (genv : ResultTypes.Env) (penv : Pyd.Env) (ha : EnvAgrees genv penv) (T : TypeRef)
    (hl : LeafName genv T.base) (j : J) (fuel : Nat) (hf : need T ≤ fuel)
    (hsupp : conformsLax genv.schema penv.lax true T j = Exec.conforms genv.schema true T j) :
    (∃ v, validate penv fuel (leafAnn genv true T) j = .ok v) ↔ Exec.conforms genv.schema true T j = true := by
  rw [accepts_iff_lax genv penv ha T hl true j fuel hf, hsupp]

/-- non-vacuity of `C05_partial`: a string at an `Int` position with no lax string parser is outside the table -/
example : conformsLax emptyGenv.schema Lax.none true (.named "Int") (.str "x") = Exec.conforms emptyGenv.schema true (.named "Int") (.str "x") := by
  simp [conformsLax, leafOkLax, Exec.conforms, Exec.leafOk, emptyGenv, Schema.kindOf?, Schema.get?, Lax.none]

end Ariadne.C05
