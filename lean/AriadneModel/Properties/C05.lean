/-
  C05 — Result models are as strict as the schema.

  Statements and final proofs; lemmas in Proofs/ResultLeaf.lean and Proofs/C05Declared.lean.  Model: Model/ResultTypes.lean,
  pydantic reference semantics Spec/Pyd.lean (lax python mode; pydantic-core's str→number parsers are
  parameters `Lax`), executor leaf completion Spec/Exec.lean.

  ANNOTATIONS (every field type)
  * `declared_type_is_image`      (all field types of every kind): Optional iff nullable, List iff list.
  * `conditional_makes_optional`  : @skip/@include adds exactly one Optional and a `None` default;
    `conditional_any_condition`   : for every argument of the directive, literal `true` / `false` included.
  * `leaf_base_exact`             : the base is the SIMPLE_TYPE_MAP image, the enum class, or `Any`
                                    (and `Any` only for unconfigured custom scalars).
  LEAF POSITIONS (all leaf types, all wrapper nestings, all JSON values)
  * `accepts_iff_lax`             : pydantic accepts exactly the conformant values plus the cells of the explicit lax table.
  * corollaries: null at a non-null position, a list where a scalar is expected (and vice versa), an
    object where a leaf is expected are rejected.
  CLASSES (Spec/Pyd level: any class declaration)
  * `missing_required_rejected`, `model_with_missing_field_rejected`, `model_with_failing_field_rejected`,
    `foreign_typename_rejected`, `missing_typename_rejected`.
  EVERY GENERATED CLASS OF EVERY DOCUMENT (any successful `_parse_type_definition` call: fragments — inherited, unpacked,
  dropped —, inline fragments, abstract types, aliases, one schema field under several response keys; any generator state;
  no region predicate)
  * `resolved_nodes_history_free` : `_resolve_selection_set` returns the pure function `flatFields` of the document —
                                    nothing depends on what was resolved / generated before.
  * `generated_class_declares_selected` : the class declares exactly one field per resolved node, in order, each under
                                    its own response key (alias-aware), `None` default iff `@skip`/`@include`.
  * `generated_class_rejects_missing_key` : hence a payload object lacking the key of an unconditional node is rejected.
  * `generated_class_rejects_bad_leaf`    : and a non-conformant value (null at non-null, another JSON kind outside the lax
                                    table, list vs scalar, bad list element) under the key of an unconditional LEAF-typed node
                                    is rejected.  (Hypothesis of both, `SameNameSameDecl`: the declarations of the node's python
                                    name in the class body are all the same declaration — e.g. pairwise distinct names, or
                                    `{ id ...F }` with `id` in an unpacked `F`; outside that, finding region C01-F2.)
  * `generated_class_rejects_foreign_typename` : a class generated with `add_typename` and typename values `tv` (every variant
                                    class of an interface / union position) rejects an object whose `__typename` is not in
                                    `tv`; `typename_literal_values_sound`: `tv` ⊆ {own type} ∪ possible types of the position.
  * `interface_fragment_expanded_at_every_use` : a fragment on an interface with inline fragments yields the variant class
                                    `<ClassName><T>` at every interface-typed field that spreads it.
  FULL STRENGTH
  * `C05_full_false`              : the full-strength claim fails exactly on lax-table cells
                                    (e.g. `Int!` accepts `true`), witness proved by evaluation; `C05_partial` outside them.

  NOT PROVED HERE (correspondence + oracle only): that a value found under the key of a COMPOSITE-typed node (object /
  interface / union field) is rejected when it is corrupted somewhere below — i.e. the chaining of the per-class theorems
  through `.cls` / `Union[...]` references from the operation's root class down (the per-class statements above hold for
  every class on the way, and `foreign_typename_rejected` for every discriminated union); configured custom scalars
  (`BeforeValidator`, outside Spec/Pyd); classes that declare one python name in two different ways.
-/
import AriadneModel.Proofs.ResultLeaf
import AriadneModel.Proofs.C05Declared
import AriadneModel.Proofs.C05Dup
import AriadneModel.Proofs.C05Strict
import AriadneModel.Proofs.C01Plain

set_option linter.unusedVariables false
set_option linter.unusedSimpArgs false

namespace Ariadne.C05
open Ariadne Ariadne.Gql Ariadne.ResultTypes Ariadne.ResultLeaf Ariadne.Pyd Ariadne.Util Ariadne.C05Decl Ariadne.C05Strict

/-! ### The declared Python type is the image of the GraphQL type -/

/-- For every field type (scalar, enum, object, interface, union under any wrappers):
    `Optional[...]` exactly where the GraphQL type is nullable, `List[...]` exactly where it is a list. -/
theorem declared_type_is_image (genv : ResultTypes.Env) (fuel : Nat) (sel : List Selection) (T : TypeRef)
    (nullable : Bool) (cn : String) (add : Bool) (ctx : Ctx) (a : Ann) (ctx' : Ctx)
    (h : parseType genv fuel sel T nullable cn add ctx = .ok (a, ctx')) :
    skelAnn a = skelType nullable T :=
  parseType_skeleton genv fuel sel T nullable cn add ctx a ctx' h

/-- `@skip` / `@include` on the field: the annotation becomes Optional (once) with default `None`;
    without such a directive nothing changes and there is no default. -/
theorem conditional_makes_optional (a : Ann) (dirs : List Directive) :
    (hasConditionalDirective dirs = true →
        (parseDirectives a dirs).2 = true ∧
        skelAnn (parseDirectives a dirs).1 = (match skelAnn a with | .opt s => .opt s | s => .opt s))
    ∧ (hasConditionalDirective dirs = false → parseDirectives a dirs = (a, false)) := by
  constructor
  · intro h
    unfold parseDirectives
    simp only [h, ↓reduceIte, true_and]
    cases a <;> simp [isNullableAnn, skelAnn]
  · intro h
    unfold parseDirectives
    simp [h]

/-- … and this for EVERY argument of the directive: the generator looks at the directive's NAME only, so a literal condition
    (`@skip(if: true)`, `@include(if: false)`) makes the field Optional with default `None` exactly as a variable condition does.
    (`d.args` is arbitrary.) -/
theorem conditional_any_condition (a : Ann) (dirs : List Directive) (d : Directive) (hd : d ∈ dirs)
    (hn : d.name = Tables.skipDirectiveName ∨ d.name = Tables.includeDirectiveName) :
    (parseDirectives a dirs).2 = true ∧ isNullableAnn (parseDirectives a dirs).1 = true := by
  have h : hasConditionalDirective dirs = true := by
    unfold hasConditionalDirective
    exact List.any_eq_true.mpr ⟨d, hd, by rcases hn with h | h <;> simp [h]⟩
  unfold parseDirectives
  simp only [h, if_true]
  by_cases hna : isNullableAnn a = true
  · simp [hna]
  · rw [if_neg hna]; exact ⟨trivial, rfl⟩

/-- non-vacuity: `name @skip(if: true)` on a `String!` field (a literal argument arrives as `("if", none)`, like a variable) -/
example : (parseDirectives (.name "str") [{ name := "skip", args := [("if", none)] }]).2 = true
    ∧ isNullableAnn (parseDirectives (.name "str") [{ name := "skip", args := [("if", none)] }]).1 = true :=
  conditional_any_condition _ _ { name := "skip", args := [("if", none)] } (by simp) (Or.inl (by decide))

/-- The base of a leaf annotation: enum class for enums; `str/int/float/bool` exactly for the five
    built-in scalars (regenerated `SIMPLE_TYPE_MAP`); `Any` for — and only for — other scalars that
    are not configured as custom scalars. -/
theorem leaf_base_exact (genv : ResultTypes.Env) (n : String) :
    (genv.schema.kindOf? n = some .enum → leafBase genv n = .name n) ∧
    (genv.schema.kindOf? n ≠ some .enum →
      (n = "String" ∨ n = "ID" → leafBase genv n = .name "str") ∧
      (n = "Int" → leafBase genv n = .name "int") ∧
      (n = "Float" → leafBase genv n = .name "float") ∧
      (n = "Boolean" → leafBase genv n = .name "bool") ∧
      (leafBase genv n = .name "Any" ↔ (n ≠ "String" ∧ n ≠ "ID" ∧ n ≠ "Int" ∧ n ≠ "Boolean" ∧ n ≠ "Float"))) := by
  constructor
  · intro h; simp [leafBase, h]
  · intro h
    have hb : leafBase genv n = (match lookupStr n Tables.simpleTypeMap with
        | some py => .name py
        | none => .name "Any") := by
      unfold leafBase
      split
      · rename_i hk; exact absurd hk h
      · rfl
    refine ⟨?_, ?_, ?_, ?_, ?_⟩
    · rintro (rfl | rfl) <;> (rw [hb]; simp [lookupStr, Tables.simpleTypeMap])
    · rintro rfl; rw [hb]; simp [lookupStr, Tables.simpleTypeMap]
    · rintro rfl; rw [hb]; simp [lookupStr, Tables.simpleTypeMap]
    · rintro rfl; rw [hb]; simp [lookupStr, Tables.simpleTypeMap]
    · rw [hb]
      cases hlk : lookupStr n Tables.simpleTypeMap with
      | none =>
        obtain ⟨h1, h2, h3, h4, h5⟩ := lookup_simple_none n hlk
        simp [h1, h2, h3, h4, h5]
      | some py =>
        rcases lookup_simple n py hlk with ⟨rfl, rfl⟩ | ⟨rfl, rfl⟩ | ⟨rfl, rfl⟩ | ⟨rfl, rfl⟩ | ⟨rfl, rfl⟩ <;> simp

/-! ### What is accepted -/

/-- pydantic accepts a payload at a leaf-typed position iff it is conformant up to the explicit lax
    table (`conformsLax`): all leaf types, all wrapper nestings, all JSON values. -/
theorem accepts_iff_lax (genv : ResultTypes.Env) (penv : Pyd.Env) (ha : EnvAgrees genv penv) (T : TypeRef)
    (hl : LeafName genv T.base) (nullable : Bool) (j : J) (fuel : Nat) (hf : need T ≤ fuel) :
    (∃ v, validate penv fuel (leafAnn genv nullable T) j = .ok v) ↔ conformsLax genv.schema penv.lax nullable T j = true := by
  rw [← validate_leaf_okB genv penv ha T hl nullable j fuel hf]
  cases validate penv fuel (leafAnn genv nullable T) j <;> simp [okB]

/-- strictly conformant values are inside the lax table -/
theorem conforms_imp_lax (S : Schema) (lax : Lax) (T : TypeRef) :
    ∀ (nullable : Bool) (j : J), Exec.conforms S nullable T j = true → conformsLax S lax nullable T j = true := by
  induction T with
  | named n =>
    intro nullable j h
    unfold Exec.conforms at h
    unfold conformsLax
    cases j with
    | null => simp at h ⊢; exact Or.inl h
    | bool b =>
      simp only [] at h ⊢
      unfold Exec.leafOk at h; unfold leafOkLax
      cases hg : S.get? n with
      | none =>
        simp only [hg, Schema.kindOf?, Option.map_none] at h ⊢
        by_cases h1 : n = "Int" <;> by_cases h2 : n = "Float" <;> by_cases h3 : (n = "String" ∨ n = "ID")
          <;> by_cases h4 : n = "Boolean" <;> simp_all
      | some t =>
        simp only [hg, Schema.kindOf?, Option.map_some] at h ⊢
        cases hk : t.kind <;> simp [hk] at h ⊢
        by_cases h1 : n = "Int" <;> by_cases h2 : n = "Float" <;> by_cases h3 : (n = "String" ∨ n = "ID")
          <;> by_cases h4 : n = "Boolean" <;> simp_all
    | num m e =>
      simp only [] at h ⊢
      unfold Exec.leafOk at h; unfold leafOkLax
      cases hg : S.get? n with
      | none =>
        simp only [hg, Schema.kindOf?, Option.map_none] at h ⊢
        by_cases h1 : n = "Int" <;> by_cases h2 : n = "Float" <;> by_cases h3 : (n = "String" ∨ n = "ID")
          <;> by_cases h4 : n = "Boolean" <;> simp_all
        all_goals (cases e <;> simp_all [integral_zero])
      | some t =>
        simp only [hg, Schema.kindOf?, Option.map_some] at h ⊢
        cases hk : t.kind <;> simp [hk] at h ⊢
        by_cases h1 : n = "Int" <;> by_cases h2 : n = "Float" <;> by_cases h3 : (n = "String" ∨ n = "ID")
          <;> by_cases h4 : n = "Boolean" <;> simp_all
        all_goals (cases e <;> simp_all [integral_zero])
    | str s =>
      simp only [] at h ⊢
      unfold Exec.leafOk at h; unfold leafOkLax
      cases hg : S.get? n with
      | none =>
        simp only [hg, Schema.kindOf?, Option.map_none] at h ⊢
        by_cases h1 : n = "Int" <;> by_cases h2 : n = "Float" <;> by_cases h3 : (n = "String" ∨ n = "ID")
          <;> by_cases h4 : n = "Boolean" <;> simp_all
      | some t =>
        simp only [hg, Schema.kindOf?, Option.map_some] at h ⊢
        cases hk : t.kind <;> simp [hk] at h ⊢
        · by_cases h1 : n = "Int" <;> by_cases h2 : n = "Float" <;> by_cases h3 : (n = "String" ∨ n = "ID")
            <;> by_cases h4 : n = "Boolean" <;> simp_all
        · exact h
    | arr xs =>
      simp only [] at h ⊢
      unfold Exec.leafOk at h; unfold leafOkLax
      cases hg : S.get? n with
      | none =>
        simp only [hg, Schema.kindOf?, Option.map_none] at h ⊢
        by_cases h1 : n = "Int" <;> by_cases h2 : n = "Float" <;> by_cases h3 : (n = "String" ∨ n = "ID")
          <;> by_cases h4 : n = "Boolean" <;> simp_all
      | some t =>
        simp only [hg, Schema.kindOf?, Option.map_some] at h ⊢
        cases hk : t.kind <;> simp [hk] at h ⊢
        by_cases h1 : n = "Int" <;> by_cases h2 : n = "Float" <;> by_cases h3 : (n = "String" ∨ n = "ID")
          <;> by_cases h4 : n = "Boolean" <;> simp_all
    | obj kvs =>
      simp only [] at h ⊢
      unfold Exec.leafOk at h; unfold leafOkLax
      cases hg : S.get? n with
      | none =>
        simp only [hg, Schema.kindOf?, Option.map_none] at h ⊢
        by_cases h1 : n = "Int" <;> by_cases h2 : n = "Float" <;> by_cases h3 : (n = "String" ∨ n = "ID")
          <;> by_cases h4 : n = "Boolean" <;> simp_all
      | some t =>
        simp only [hg, Schema.kindOf?, Option.map_some] at h ⊢
        cases hk : t.kind <;> simp [hk] at h ⊢
        by_cases h1 : n = "Int" <;> by_cases h2 : n = "Float" <;> by_cases h3 : (n = "String" ∨ n = "ID")
          <;> by_cases h4 : n = "Boolean" <;> simp_all
  | list t ih =>
    intro nullable j h
    unfold Exec.conforms at h
    unfold conformsLax
    cases j with
    | arr xs =>
      simp only [List.all_eq_true] at h ⊢
      intro x hx
      exact ih true x (h x hx)
    | null => simpa using h
    | bool b => simp at h
    | num m e => simp at h
    | str s => simp at h
    | obj kvs => simp at h
  | nonNull t ih =>
    intro nullable j h
    unfold Exec.conforms at h
    unfold conformsLax
    exact ih false j h

/-! ### Strictness corollaries (single-point corruptions of the property) -/

/-- null where the schema says non-null is rejected — for every leaf type except the unconfigured
    custom scalars (`Any` accepts `None`: cell `(custom scalar, null)` of the lax table, finding C05-F2) -/
theorem null_at_nonnull_rejected (genv : ResultTypes.Env) (penv : Pyd.Env) (ha : EnvAgrees genv penv) (n : String)
    (hl : LeafName genv n) (hnotAny : isAnyLeaf genv.schema n = false) (fuel : Nat) (hf : 2 ≤ fuel) (nullable : Bool) :
    ∀ v, validate penv fuel (leafAnn genv nullable (.nonNull (.named n))) .null ≠ .ok v := by
  intro v hv
  have h := (accepts_iff_lax genv penv ha (.nonNull (.named n)) (by simpa [TypeRef.base] using hl) nullable .null fuel
    (by simpa [need] using hf)).mp ⟨v, hv⟩
  simp [conformsLax, hnotAny] at h

/-- null for a non-null list is rejected -/
theorem null_at_nonnull_list_rejected (genv : ResultTypes.Env) (penv : Pyd.Env) (ha : EnvAgrees genv penv) (t : TypeRef)
    (hl : LeafName genv t.base) (fuel : Nat) (hf : need t + 2 ≤ fuel) (nullable : Bool) :
    ∀ v, validate penv fuel (leafAnn genv nullable (.nonNull (.list t))) .null ≠ .ok v := by
  intro v hv
  have h := (accepts_iff_lax genv penv ha (.nonNull (.list t)) (by simpa [TypeRef.base] using hl) nullable .null fuel
    (by simpa [need] using hf)).mp ⟨v, hv⟩
  simp [conformsLax] at h

/-- a scalar or an object where a list is expected is rejected -/
theorem nonlist_at_list_rejected (genv : ResultTypes.Env) (penv : Pyd.Env) (ha : EnvAgrees genv penv) (t : TypeRef)
    (hl : LeafName genv t.base) (fuel : Nat) (hf : need t + 2 ≤ fuel) (nullable : Bool) (j : J)
    (hj : j.isArr = false) (hn : j.isNull = false) :
    ∀ v, validate penv fuel (leafAnn genv nullable (.list t)) j ≠ .ok v := by
  intro v hv
  have h := (accepts_iff_lax genv penv ha (.list t) (by simpa [TypeRef.base] using hl) nullable j fuel
    (by simpa [need] using hf)).mp ⟨v, hv⟩
  cases j <;> simp [conformsLax, J.isArr, J.isNull] at h hj hn

theorem leafOkLax_composite_false (S : Schema) (lax : Lax) (n : String) (j : J)
    (hnotAny : isAnyLeaf S n = false) (hj : j.isArr = true ∨ j.isObj = true) : leafOkLax S lax n j = false := by
  unfold isAnyLeaf at hnotAny
  unfold leafOkLax
  have hjj : (∃ xs, j = .arr xs) ∨ (∃ kvs, j = .obj kvs) := by
    cases j <;> simp [J.isArr, J.isObj] at hj
    · exact Or.inl ⟨_, rfl⟩
    · exact Or.inr ⟨_, rfl⟩
  cases hk : S.kindOf? n with
  | none =>
    simp only [hk] at hnotAny ⊢
    by_cases h1 : n = "Int" <;> by_cases h2 : n = "Float" <;> by_cases h3 : n = "String" <;> by_cases h4 : n = "ID"
      <;> by_cases h5 : n = "Boolean" <;> rcases hjj with ⟨xs, rfl⟩ | ⟨kvs, rfl⟩ <;> simp_all
  | some k =>
    cases k with
    | enum =>
      simp only []
      cases S.get? n <;> rcases hjj with ⟨xs, rfl⟩ | ⟨kvs, rfl⟩ <;> simp
    | scalar | object | interface | union | input =>
      simp only [hk] at hnotAny ⊢
      by_cases h1 : n = "Int" <;> by_cases h2 : n = "Float" <;> by_cases h3 : n = "String" <;> by_cases h4 : n = "ID"
        <;> by_cases h5 : n = "Boolean" <;> rcases hjj with ⟨xs, rfl⟩ | ⟨kvs, rfl⟩ <;> simp_all

/-- a list or an object where a built-in scalar or an enum is expected is rejected -/
theorem composite_at_leaf_rejected (genv : ResultTypes.Env) (penv : Pyd.Env) (ha : EnvAgrees genv penv) (n : String)
    (hl : LeafName genv n) (hnotAny : isAnyLeaf genv.schema n = false) (fuel : Nat) (hf : 2 ≤ fuel) (nullable : Bool) (j : J)
    (hj : j.isArr = true ∨ j.isObj = true) :
    ∀ v, validate penv fuel (leafAnn genv nullable (.named n)) j ≠ .ok v := by
  intro v hv
  have h := (accepts_iff_lax genv penv ha (.named n) (by simpa [TypeRef.base] using hl) nullable j fuel
    (by simpa [need] using hf)).mp ⟨v, hv⟩
  have hlax := leafOkLax_composite_false genv.schema penv.lax n j hnotAny hj
  cases j <;> simp [conformsLax, hlax, J.isArr, J.isObj] at h hj

/-! ### Class level: missing keys and foreign `__typename` -/

/-- A selected unconditional field missing from the payload is rejected (whatever else is there). -/
theorem missing_required_rejected (penv : Pyd.Env) (clsFuel : Nat) (rec : Ann → J → Except VErr PV)
    (kvs : List (String × J)) (f : FieldDecl) (hreq : f.defaultNone = false)
    (hpy : J.lookup f.py kvs = none) (halias : ∀ a, f.alias = some a → J.lookup a kvs = none) :
    fieldWith penv clsFuel rec kvs f = .error (.missing (f.alias.getD f.py)) := by
  unfold fieldWith
  cases ha : f.alias with
  | none => simp [hpy, hreq]
  | some a => simp [halias a ha, hpy, hreq]

theorem mapE_error_of_mem {α β ε} (f : α → Except ε β) (xs : List α) (x : α) (e : ε) (hx : x ∈ xs) (he : f x = .error e) :
    ∃ e', mapE f xs = .error e' := by
  induction xs with
  | nil => simp at hx
  | cons y ys ih =>
    simp only [mapE]
    cases hy : f y with
    | error e' => exact ⟨e', rfl⟩
    | ok v =>
      rcases List.mem_cons.mp hx with rfl | hmem
      · rw [he] at hy; simp at hy
      · obtain ⟨e', h'⟩ := ih hmem
        exact ⟨e', by simp [h']⟩

/-- hence the whole model is rejected -/
theorem model_with_missing_field_rejected (penv : Pyd.Env) (clsFuel : Nat) (rec : Ann → J → Except VErr PV)
    (cn : String) (kvs : List (String × J)) (f : FieldDecl) (hf : f ∈ allFields penv clsFuel cn) (hreq : f.defaultNone = false)
    (hpy : J.lookup f.py kvs = none) (halias : ∀ a, f.alias = some a → J.lookup a kvs = none) :
    ∀ v, modelWith penv clsFuel rec cn (.obj kvs) ≠ .ok v := by
  intro v hv
  unfold modelWith at hv
  cases hc : penv.class? cn with
  | none => simp [hc] at hv
  | some c =>
    simp only [hc] at hv
    obtain ⟨e', he'⟩ := mapE_error_of_mem (fieldWith penv clsFuel rec kvs) _ f _ hf
      (missing_required_rejected penv clsFuel rec kvs f hreq hpy halias)
    simp [he'] at hv

/-- An object whose `__typename` is not in the literal of any member class of a discriminated
    union is rejected; so is an object without `__typename`. -/
theorem foreign_typename_rejected (penv : Pyd.Env) (clsFuel : Nat) (rec : Ann → J → Except VErr PV)
    (as : List Ann) (kvs : List (String × J)) (tag : String)
    (htag : J.lookup ResultTypes.typenameField kvs = some (.str tag))
    (hforeign : ∀ a ∈ as, ∀ cn, annClassName? a = some cn → ((typenameLiteral penv clsFuel cn).getD []).contains tag = false) :
    taggedWith penv clsFuel rec as (.obj kvs) = .error (.tagInvalid tag) := by
  unfold taggedWith
  simp only [htag]
  rw [List.find?_eq_none.mpr]
  intro a ha
  cases hcn : annClassName? a with
  | none => simp
  | some cn => simpa using hforeign a ha cn hcn

theorem missing_typename_rejected (penv : Pyd.Env) (clsFuel : Nat) (rec : Ann → J → Except VErr PV)
    (as : List Ann) (kvs : List (String × J)) (h : J.lookup ResultTypes.typenameField kvs = none) :
    taggedWith penv clsFuel rec as (.obj kvs) = .error .tagNotFound := by
  unfold taggedWith
  simp [h]

/-! ### Every generated class, any document: what it declares, and what it therefore rejects

    The theorems of this section are about an ARBITRARY successful call of `_parse_type_definition` — the call that
    produces one result class — for an arbitrary document: named fragments (inherited, unpacked or dropped), inline
    fragments, abstract types, aliases, the same schema field under several response keys, directives; any generator
    state and history; any fuel.  There is no region predicate.  (Lemmas: Proofs/C05Declared.lean.) -/

/-- `_resolve_selection_set` has no memory: the field nodes it returns are the pure function `flatFields` of the
    selection set, the root type and the fragment table — whatever was resolved or generated before (`st`). -/
theorem resolved_nodes_history_free (env : ResultTypes.Env) (fuel : Nat) (sels : List Selection) (root : String)
    (st : St) (r : ResultTypes.Acc) (st' : St) (h : resolve env fuel sels root st = .ok (r, st')) :
    r.1 = flatFields env fuel sels root :=
  resolve_fields_eq env fuel sels root st r st' h

/-- The class a successful `_parse_type_definition` call creates declares exactly one field per resolved node, in
    order — (automatic `__typename`s, then) `flatFields` — each under its own RESPONSE KEY (`Field(alias=…)` or the
    python name), with the python name derived from the response key, and with a `None` default iff the node carries
    `@skip`/`@include`.  In particular two selections of one schema field under different aliases are two fields. -/
theorem generated_class_declares_selected (env : ResultTypes.Env) (fuel : Nat) (cn tn : String) (sid : Nat)
    (sel : List Selection) (a : Bool) (eb tv : List String) (st : St) (cs : List ClassDecl) (st' : St)
    (h : parseTypeDefinition env fuel cn tn sid sel a eb tv st = .ok (cs, st'))
    (hfresh : st.publicNames.contains cn = false) :
    ∃ (c : ClassDecl) (rest : List ClassDecl) (pre : List RField),
      cs = c :: rest ∧ c.name = cn ∧ (∀ f ∈ pre, f = ResultTypes.typenameRField) ∧
      c.fields.map declSig = (pre ++ flatFields env fuel sel tn).map (nodeSig env tv) := by
  obtain ⟨c, rest, pre, h1, h2, h3, hz, _⟩ := class_declares_exactly env fuel cn tn sid sel a eb tv st cs st' h hfresh
  exact ⟨c, rest, pre, h1, h2, h3, class_sigs_exact hz⟩

/-- a field written directly in the selection set (under whatever alias) is among the nodes … -/
theorem direct_selection_is_node (env : ResultTypes.Env) (fuel : Nat) (sels : List Selection) (root : String)
    (alias : Option String) (name : String) (dirs : List Directive) (sid : Nat) (sub : List Selection)
    (h : Selection.field alias name dirs sid sub ∈ sels) :
    (⟨alias, name, dirs, sid, sub⟩ : RField) ∈ flatFields env (fuel + 1) sels root :=
  direct_field_mem_flat env fuel sels root alias name dirs sid sub h

theorem validate_cls (penv : Pyd.Env) (g : Nat) (n : String) (j : J) :
    validate penv (g + 1) (.cls n) j = modelWith penv penv.clsFuel (validate penv g) n j := by
  simp [validate]

/-- a model one of whose fields fails to validate is rejected -/
theorem model_with_failing_field_rejected (penv : Pyd.Env) (clsFuel : Nat) (rec : Ann → J → Except VErr PV)
    (cn : String) (kvs : List (String × J)) (f : FieldDecl) (hf : f ∈ allFields penv clsFuel cn) (e : VErr)
    (he : fieldWith penv clsFuel rec kvs f = .error e) :
    ∀ v, modelWith penv clsFuel rec cn (.obj kvs) ≠ .ok v := by
  intro v hv
  unfold modelWith at hv
  cases hc : penv.class? cn with
  | none => simp [hc] at hv
  | some c =>
    simp only [hc] at hv
    obtain ⟨e', he'⟩ := mapE_error_of_mem (fieldWith penv clsFuel rec kvs) _ f _ hf he
    simp [he'] at hv

/-- all declarations of the python name `py` in the class body are one and the same declaration (true when the python names
    are pairwise distinct, `sameName_of_nodup`; also true for `{ id ...F }` with `id` in an unpacked `F`: the class body then
    has `id: str` twice).  Outside: one name declared in two different ways — finding region C01-F2. -/
def SameNameSameDecl (c : ClassDecl) (py : String) : Prop :=
  ∀ d₁ ∈ c.fields, ∀ d₂ ∈ c.fields, d₁.py = py → d₂.py = py → d₂ = d₁

theorem sameName_of_nodup (c : ClassDecl) (hnd : (c.fields.map (·.py)).Nodup) (py : String) : SameNameSameDecl c py :=
  fun d₁ h₁ d₂ h₂ e₁ e₂ => ident_of_nodup c.fields hnd d₁ h₁ d₂ h₂ (e₂.trans e₁.symm)

/-- **missing key, any class of any document**: the class generated for `sel` rejects every payload object that lacks the response key of an unconditional node of `sel`
    (and does not carry the field under its python name either: pydantic's `populate_by_name`). -/
theorem generated_class_rejects_missing_key (env : ResultTypes.Env) (fuel : Nat) (cn tn : String) (sid : Nat)
    (sel : List Selection) (a : Bool) (eb tv : List String) (st : St) (c : ClassDecl) (rest : List ClassDecl) (st' : St)
    (h : parseTypeDefinition env fuel cn tn sid sel a eb tv st = .ok (c :: rest, st'))
    (hfresh : st.publicNames.contains cn = false)
    (f : RField) (hf : f ∈ flatFields env fuel sel tn) (hreq : nodeRequired tv f = true)
    (penv : Pyd.Env) (hcls : penv.class? cn = some c) (hdup : SameNameSameDecl c (pyFieldName env f.key))
    (kvs : List (String × J)) (hkey : J.lookup f.key kvs = none) (hpy : J.lookup (pyFieldName env f.key) kvs = none) :
    ∀ g v, validate penv g (.cls cn) (.obj kvs) ≠ .ok v := by
  obtain ⟨c', rest', pre, h1, h2, _, hz, _⟩ := class_declares_exactly env fuel cn tn sid sel a eb tv st _ st' h hfresh
  obtain ⟨rfl, _⟩ := List.cons.inj h1
  obtain ⟨d, hd, hk, hp, hdef, _⟩ := node_declared hz f (List.mem_append_right _ hf)
  intro g v
  cases g with
  | zero => simp [validate]
  | succ g =>
    rw [validate_cls]
    have hmem : d ∈ allFields penv penv.clsFuel c.name :=
      own_mem_allFields_ident penv penv.classes.length c (h2 ▸ hcls) d hd (fun m hm hpy' => hdup d hd m hm hp (hpy'.trans hp))
    rw [h2] at hmem
    refine model_with_missing_field_rejected penv penv.clsFuel (validate penv g) cn kvs d hmem (by rw [hdef, hreq]; rfl)
      (by rw [hp]; exact hpy) ?_ v
    intro al hal
    have : al = f.key := by rw [← hk]; simp [declKey, hal]
    rw [this]; exact hkey

/-- the value is found under the alias (= response key) or, without alias, under the python name (= response key) -/
theorem fieldWith_of_key (penv : Pyd.Env) (cf : Nat) (rec : Ann → J → Except VErr PV) (kvs : List (String × J))
    (d : FieldDecl) (key : String) (x : J) (hk : declKey d = key) (hkey : J.lookup key kvs = some x)
    (hdisc : d.discriminator = false) :
    fieldWith penv cf rec kvs d = (match rec d.ann x with
      | .ok pv => .ok (some (d.py, d.alias, pv))
      | .error e => .error e) := by
  unfold fieldWith
  cases hal : d.alias with
  | none =>
    have : d.py = key := by rw [← hk]; simp [declKey, hal]
    simp only [this, hkey, hdisc, Bool.false_eq_true, if_false]
    cases rec d.ann x <;> rfl
  | some al =>
    have : al = key := by rw [← hk]; simp [declKey, hal]
    simp only [this, hkey, hdisc, Bool.false_eq_true, if_false]
    cases rec d.ann x <;> rfl

/-- **non-conformant leaf value, any class of any document**: if the payload carries, under the response key of an
    unconditional leaf-typed node (scalar / enum under any list / non-null wrappers), a value that is not conformant up to
    the lax table — null at a non-null position, another JSON kind, a list for a scalar, a wrong list element … — the
    class rejects the payload (for every sufficient validation fuel). -/
theorem generated_class_rejects_bad_leaf (env : ResultTypes.Env) (fuel : Nat) (cn tn : String) (sid : Nat)
    (sel : List Selection) (a : Bool) (eb tv : List String) (st : St) (c : ClassDecl) (rest : List ClassDecl) (st' : St)
    (h : parseTypeDefinition env fuel cn tn sid sel a eb tv st = .ok (c :: rest, st'))
    (hfresh : st.publicNames.contains cn = false)
    (f : RField) (hf : f ∈ flatFields env fuel sel tn) (hcond : hasConditionalDirective f.dirs = false)
    (hspecial : (f.name == typenameField && !tv.isEmpty) = false)
    (t : TypeRef) (ht : fieldTypeFromSchema env tn f.name = .ok t) (hl : LeafName env t.base)
    (penv : Pyd.Env) (hagree : EnvAgrees env penv) (hcls : penv.class? cn = some c) (hdup : SameNameSameDecl c (pyFieldName env f.key))
    (kvs : List (String × J)) (x : J) (hkey : J.lookup f.key kvs = some x)
    (hbad : conformsLax env.schema penv.lax true t x = false) :
    ∀ g v, need t + 1 ≤ g → validate penv g (.cls cn) (.obj kvs) ≠ .ok v := by
  obtain ⟨c', rest', pre, h1, h2, _, hz, _⟩ := class_declares_exactly env fuel cn tn sid sel a eb tv st _ st' h hfresh
  obtain ⟨rfl, _⟩ := List.cons.inj h1
  obtain ⟨d, hd, hk, hp, hdef, hdecl⟩ := node_declared hz f (List.mem_append_right _ hf)
  obtain ⟨hann, hdisc⟩ := hdecl.2.1 t ht hl hspecial
  have hann' : d.ann = leafAnn env true t := by
    rw [hann]; unfold leafNodeAnn parseDirectives; simp [hcond]
  intro g v hg
  obtain ⟨g, rfl⟩ : ∃ k, g = k + 1 := ⟨g - 1, by omega⟩
  rw [validate_cls]
  have hmem : d ∈ allFields penv penv.clsFuel c.name :=
    own_mem_allFields_ident penv penv.classes.length c (h2 ▸ hcls) d hd (fun m hm hpy' => hdup d hd m hm hp (hpy'.trans hp))
  rw [h2] at hmem
  have hrej : ∀ pv, validate penv g (leafAnn env true t) x ≠ .ok pv := by
    intro pv hpv
    have := (accepts_iff_lax env penv hagree t hl true x g (by omega)).mp ⟨pv, hpv⟩
    rw [hbad] at this; cases this
  have herr : ∃ e, fieldWith penv penv.clsFuel (validate penv g) kvs d = .error e := by
    rw [fieldWith_of_key penv penv.clsFuel (validate penv g) kvs d f.key x hk hkey hdisc, hann']
    cases hv : validate penv g (leafAnn env true t) x with
    | ok pv => exact absurd hv (hrej pv)
    | error e => exact ⟨e, rfl⟩
  obtain ⟨e, he⟩ := herr
  exact model_with_failing_field_rejected penv penv.clsFuel (validate penv g) cn kvs d hmem e he v

theorem validate_literal (penv : Pyd.Env) (g : Nat) (vs : List String) (j : J) :
    validate penv (g + 1) (.literal vs) j = (match j with
      | .str s => if vs.contains s then .ok (.str s) else .error .literal
      | _ => .error .literal) := by
  cases j <;> simp [validate]

/-- **foreign `__typename`, any variant class of any document**: a class generated with `add_typename` and typename
    values `tv` (the classes of an interface / union position) has a `__typename` field — the selected one or the automatic
    one —, annotated `Literal[tv]`; a payload object whose value under that key is not one of `tv` is rejected.  With
    `typename_literal_values_sound` (every value of `tv` is the class's type or a possible type of the position) this is the
    per-class half of "an object whose `__typename` is not a possible type of its position is rejected"; the other half is
    `foreign_typename_rejected` for the discriminated `Union[...]`. -/
theorem generated_class_rejects_foreign_typename (env : ResultTypes.Env) (fuel : Nat) (cn tn : String) (sid : Nat)
    (sel : List Selection) (eb tv : List String) (st : St) (c : ClassDecl) (rest : List ClassDecl) (st' : St)
    (h : parseTypeDefinition env fuel cn tn sid sel true eb tv st = .ok (c :: rest, st'))
    (hfresh : st.publicNames.contains cn = false) (htv : tv.isEmpty = false)
    (penv : Pyd.Env) (hcls : penv.class? cn = some c) (hdup : ∀ py, SameNameSameDecl c py) :
    ∃ f : RField, f.name = typenameField ∧ (f = ResultTypes.typenameRField ∨ f ∈ flatFields env fuel sel tn) ∧
      ∀ (kvs : List (String × J)) (x : J), J.lookup f.key kvs = some x → (∀ s ∈ tv, x ≠ .str s) →
        ∀ g v, validate penv g (.cls cn) (.obj kvs) ≠ .ok v := by
  obtain ⟨c', rest', pre, h1, h2, hpre, hz, hex⟩ := class_declares_exactly env fuel cn tn sid sel true eb tv st _ st' h hfresh
  obtain ⟨rfl, _⟩ := List.cons.inj h1
  obtain ⟨f, hf, hname⟩ := hex rfl
  refine ⟨f, hname, ?_, ?_⟩
  · rcases List.mem_append.mp hf with h' | h'
    · exact Or.inl (hpre f h')
    · exact Or.inr h'
  · intro kvs x hkey hbad g v
    obtain ⟨d, hd, hk, hp, _, hdecl⟩ := node_declared hz f hf
    have hs : (f.name == typenameField && !tv.isEmpty) = true := by simp [hname, htv]
    obtain ⟨hann, hdisc⟩ := hdecl.2.2 hs
    cases g with
    | zero => simp [validate]
    | succ g =>
      rw [validate_cls]
      have hmem : d ∈ allFields penv penv.clsFuel c.name :=
        own_mem_allFields_ident penv penv.classes.length c (h2 ▸ hcls) d hd (fun m hm hpy' => hdup d.py d hd m hm rfl hpy')
      rw [h2] at hmem
      have herr : ∃ e, fieldWith penv penv.clsFuel (validate penv g) kvs d = .error e := by
        rw [fieldWith_of_key penv penv.clsFuel (validate penv g) kvs d f.key x hk hkey hdisc, hann]
        cases g with
        | zero => exact ⟨.fuel, by simp [validate]⟩
        | succ k =>
          rw [validate_literal]
          cases x with
          | str s =>
            have : s ∉ sortStr tv := by
              rw [ResultTypes.mem_sortStr]
              intro hs'
              exact hbad s hs' rfl
            exact ⟨.literal, by simp [this]⟩
          | null => exact ⟨.literal, rfl⟩
          | bool b => exact ⟨.literal, rfl⟩
          | num m e => exact ⟨.literal, rfl⟩
          | arr xs => exact ⟨.literal, rfl⟩
          | obj kvs' => exact ⟨.literal, rfl⟩
      obtain ⟨e, he⟩ := herr
      exact model_with_failing_field_rejected penv penv.clsFuel (validate penv g) cn kvs d hmem e he v

/-- what can be among the typename values of a position's classes: the class's own type name, or a possible type of an
    abstract type of the position — nothing else (`_get_typename_values`) -/
theorem typename_literal_values_sound (env : ResultTypes.Env) (related : List (String × String)) (n : String) (vs : List String)
    (h : (n, vs) ∈ typenameValues env related) (v : String) (hv : v ∈ vs) :
    v = n ∨ ∃ a ∈ related.map (·.2), env.schema.isAbstract a = true ∧ v ∈ env.schema.possibleTypes a :=
  typenameValues_sound env related n vs h v hv

/-- **a fragment on an interface is expanded at every use**: an interface-typed field whose selection set spreads `F`,
    where `F` has `... on T {…}` at its top level, is annotated with a `Union[…]` that has the member `"<ClassName><T>"`, and
    that class is generated — for every such field, in every operation, whatever was generated before. -/
theorem interface_fragment_expanded_at_every_use (env : ResultTypes.Env) (fuel : Nat) (fieldSel : List Selection) (n : String)
    (nullable : Bool) (cn : String) (add : Bool) (ctx : Ctx) (a : Ann) (ctx' : Ctx)
    (hk : env.schema.kindOf? n = some .interface)
    (h : parseType env (fuel + 2) fieldSel (.named n) nullable cn add ctx = .ok (a, ctx'))
    (fn : String) (sd : List Directive) (f : Fragment) (hspread : Selection.spread fn sd ∈ fieldSel)
    (hf : findFragment? env.frags fn = some f)
    (T : String) (d : List Directive) (sid : Nat) (sub : List Selection)
    (hm : Selection.inline (some T) d sid sub ∈ f.sel) :
    (cn ++ T, T) ∈ ctx'.related ∧ ∃ as, a = optionalIf nullable (.union as) ∧ Ann.cls (cn ++ T) ∈ as :=
  interface_spread_variant env fuel fieldSel n nullable cn add ctx a ctx' hk h fn sd f hspread hf T d sid sub hm

/-! non-vacuity: the same schema field under two response keys, one of them inside an inline fragment on the class's own
    type, plus a conditional field

      type Query { user(id: ID): User }   type User { id: ID! name: String! age: Int }
      { first: user { id name } second: user { id ... on User { nick: name } age @skip(if: $b) } }
-/

def dSchema : Schema :=
  { types := [
      { name := "Query", kind := .object, fields := [{ name := "user", type := .named "User" }] },
      { name := "User", kind := .object,
        fields := [{ name := "id", type := .nonNull (.named "ID") }, { name := "name", type := .nonNull (.named "String") },
                   { name := "age", type := .named "Int" }] }],
    query := some "Query" }

def dEnv : ResultTypes.Env := { schema := dSchema, frags := [] }

def dSecond : List Selection :=
  [ .field none "id" [] 0 [],
    .inline (some "User") [] 5 [.field (some "nick") "name" [] 0 []],
    .field none "age" [{ name := "skip", args := [("if", none)] }] 0 [] ]

def dSel : List Selection :=
  [ .field (some "first") "user" [] 2 [.field none "id" [] 0 [], .field none "name" [] 0 []],
    .field (some "second") "user" [] 3 dSecond ]

/-- generation succeeds; the root class has BOTH `first` and `second`; the class of `second` has `id`, `nick`, `age` -/
example :
    (match parseTypeDefinition dEnv 10 "Q" "Query" 1 dSel false [] [] {} with
     | .ok (cs, _) => cs.map (fun c => (c.name, c.fields.map declSig)) ==
         [("Q", [("first", "first", false), ("second", "second", false)]),
          ("QFirst", [("id", "id", false), ("name", "name", false)]),
          ("QSecond", [("id", "id", false), ("nick", "nick", false), ("age", "age", true)])]
     | .error _ => false) = true := by decide +kernel

example : (flatFields dEnv 10 dSecond "User").map (nodeSig dEnv []) =
    [("id", "id", false), ("nick", "nick", false), ("age", "age", true)] := by decide +kernel

/-- the hypotheses of `generated_class_rejects_missing_key` / `_bad_leaf` are satisfiable: the class `QSecond`, its node
    `nick: name`, a payload without `nick`, and one with `nick: null` -/
theorem dSecond_generates : ∃ c rest st',
    parseTypeDefinition dEnv 9 "QSecond" "User" 3 dSecond false [] [] {} = .ok (c :: rest, st') ∧
    (c.fields.map (·.py)).Nodup := by
  cases hr : parseTypeDefinition dEnv 9 "QSecond" "User" 3 dSecond false [] [] {} with
  | error e =>
    have : (match parseTypeDefinition dEnv 9 "QSecond" "User" 3 dSecond false [] [] {} with
      | .ok _ => true | .error _ => false) = true := by decide +kernel
    rw [hr] at this; cases this
  | ok p =>
    obtain ⟨cs, st'⟩ := p
    have hpy : (match parseTypeDefinition dEnv 9 "QSecond" "User" 3 dSecond false [] [] {} with
      | .ok (cs, _) => cs.map (fun c => c.fields.map (·.py)) == [["id", "nick", "age"]] | .error _ => false) = true := by
      decide +kernel
    rw [hr] at hpy
    simp only [beq_iff_eq] at hpy
    cases cs with
    | nil => simp at hpy
    | cons c rest =>
      refine ⟨c, rest, st', rfl, ?_⟩
      simp only [List.map_cons, List.cons.injEq] at hpy
      rw [hpy.1]; decide

example : ∃ c rest st', parseTypeDefinition dEnv 9 "QSecond" "User" 3 dSecond false [] [] {} = .ok (c :: rest, st') ∧
    ∀ g v, validate { classes := [c], enums := [] } g (.cls "QSecond") (.obj [("id", .str "1"), ("age", .null)]) ≠ .ok v := by
  obtain ⟨c, rest, st', hgen, hnd⟩ := dSecond_generates
  refine ⟨c, rest, st', hgen, ?_⟩
  have hname : c.name = "QSecond" := by
    obtain ⟨c', _, _, h1, h2, _, _, _⟩ := class_declares_exactly dEnv 9 "QSecond" "User" 3 dSecond false [] [] {} _ st' hgen rfl
    obtain ⟨rfl, _⟩ := List.cons.inj h1
    exact h2
  exact generated_class_rejects_missing_key dEnv 9 "QSecond" "User" 3 dSecond false [] [] {} c rest st' hgen rfl
    ⟨some "nick", "name", [], 0, []⟩
    (inline_field_mem_flat dEnv 7 dSecond "User" "User" "User" [] 5 [.field (some "nick") "name" [] 0 []] (some "nick") "name" [] 0 []
      (by simp [dSecond]) (by decide +kernel) (by simp))
    (by decide) { classes := [c], enums := [] } (by simp [Pyd.Env.class?, hname]) (sameName_of_nodup c hnd _) _ (by decide) (by decide +kernel)

theorem dNoEnum (n : String) (t : TypeDef) (h : dSchema.get? n = some t) : t.kind = .object := by
  have hm := List.mem_of_find?_eq_some h
  simp only [dSchema, List.mem_cons, List.not_mem_nil, or_false] at hm
  rcases hm with rfl | rfl <;> rfl

theorem dAgrees (cs : List ClassDecl) : EnvAgrees dEnv { classes := cs, enums := [] } where
  enums := by
    intro n t h hk
    have := dNoEnum n t h
    rw [this] at hk; cases hk
  notBuiltin := by
    intro n h
    simp only [Schema.kindOf?, dEnv] at h
    cases hg : dSchema.get? n with
    | none => simp [hg] at h
    | some t => simp [hg, dNoEnum n t hg] at h
  builtins := by
    intro n h
    left
    rcases h with rfl | rfl | rfl | rfl | rfl <;> decide +kernel
  noExtraEnums := by intro n _; right; simp [Pyd.Env.enum?]

/-- `generated_class_rejects_bad_leaf` applies: `nick: name` is `String!`; a payload with `nick: null`, `nick: 7` or
    `nick: []` is rejected by the class generated for `second` -/
example (bad : J) (hbad : bad = .null ∨ bad = .num 7 0 ∨ bad = .arr []) :
    ∃ c rest st', parseTypeDefinition dEnv 9 "QSecond" "User" 3 dSecond false [] [] {} = .ok (c :: rest, st') ∧
    ∀ g v, 3 ≤ g → validate { classes := [c], enums := [] } g (.cls "QSecond") (.obj [("id", .str "1"), ("nick", bad)]) ≠ .ok v := by
  obtain ⟨c, rest, st', hgen, hnd⟩ := dSecond_generates
  refine ⟨c, rest, st', hgen, ?_⟩
  have hname : c.name = "QSecond" := by
    obtain ⟨c', _, _, h1, h2, _, _, _⟩ := class_declares_exactly dEnv 9 "QSecond" "User" 3 dSecond false [] [] {} _ st' hgen rfl
    obtain ⟨rfl, _⟩ := List.cons.inj h1
    exact h2
  have hl : LeafName dEnv (TypeRef.nonNull (.named "String")).base := by
    refine ⟨Or.inl ?_, ?_⟩ <;> decide +kernel
  refine generated_class_rejects_bad_leaf dEnv 9 "QSecond" "User" 3 dSecond false [] [] {} c rest st' hgen rfl
    ⟨some "nick", "name", [], 0, []⟩
    (inline_field_mem_flat dEnv 7 dSecond "User" "User" "User" [] 5 [.field (some "nick") "name" [] 0 []] (some "nick") "name" [] 0 []
      (by simp [dSecond]) (by decide +kernel) (by simp))
    (by decide) (by decide) (.nonNull (.named "String")) (by rfl) hl
    { classes := [c], enums := [] } (dAgrees [c]) (by simp [Pyd.Env.class?, hname]) (sameName_of_nodup c hnd _) _ bad (by simp [J.lookup, RField.key]) ?_
  show conformsLax dSchema Lax.none true (.nonNull (.named "String")) bad = false
  rcases hbad with rfl | rfl | rfl <;> decide +kernel

/-- `SameNameSameDecl` beyond pairwise distinct names: the class body of `{ id ... on User { id } name }` declares `id: str`
    twice; pydantic's field `id` is that declaration -/
example :
    let a : FieldDecl := { py := "id", ann := .name "str", alias := none, discriminator := false, defaultNone := false }
    let b : FieldDecl := { py := "name", ann := .name "str", alias := none, discriminator := false, defaultNone := false }
    a ∈ mergeDup [a, a, b] := by
  intro a b
  refine mem_mergeDup_of_ident a [a, a, b] (by simp) ?_
  intro m hm hpy
  simp only [List.mem_cons, List.not_mem_nil, or_false] at hm
  rcases hm with rfl | rfl | rfl
  · rfl
  · rfl
  · exact absurd hpy (by decide)

/-! non-vacuity of `interface_fragment_expanded_at_every_use` / `resolved_nodes_history_free`: one fragment on an interface,
    with inline fragments on the implementations, spread at TWO interface-typed fields

      interface Actor { id: ID! }  type User implements Actor { id: ID! name: String! }  type Bot implements Actor { id: ID! version: Int! }
      type Query { reviewer: Actor author: Actor }
      { reviewer { ...ActorParts } author { ...ActorParts } }
      fragment ActorParts on Actor { id ... on User { name } ... on Bot { version } }
-/

def iSchema : Schema :=
  { types := [
      { name := "Query", kind := .object,
        fields := [{ name := "reviewer", type := .named "Actor" }, { name := "author", type := .named "Actor" }] },
      { name := "Actor", kind := .interface, fields := [{ name := "id", type := .nonNull (.named "ID") }] },
      { name := "User", kind := .object, interfaces := ["Actor"],
        fields := [{ name := "id", type := .nonNull (.named "ID") }, { name := "name", type := .nonNull (.named "String") }] },
      { name := "Bot", kind := .object, interfaces := ["Actor"],
        fields := [{ name := "id", type := .nonNull (.named "ID") }, { name := "version", type := .nonNull (.named "Int") }] }],
    query := some "Query" }

def iFrag : Fragment :=
  { name := "ActorParts", on := "Actor", sid := 9,
    sel := [.field none "id" [] 0 [], .inline (some "User") [] 10 [.field none "name" [] 0 []],
            .inline (some "Bot") [] 11 [.field none "version" [] 0 []]] }

def iEnv : ResultTypes.Env := { schema := iSchema, frags := [iFrag] }

def iSel : List Selection :=
  [ .field none "reviewer" [] 2 [.spread "ActorParts" []], .field none "author" [] 3 [.spread "ActorParts" []] ]

/-- both positions get all three variant classes, and the `Bot` variants declare `version` -/
example :
    (match parseTypeDefinition iEnv 10 "Q" "Query" 1 iSel false [] [] {} with
     | .ok (cs, _) => cs.map (fun c => (c.name, c.fields.map declKey)) ==
         [("Q", ["reviewer", "author"]),
          ("QReviewerActor", ["__typename", "id"]), ("QReviewerBot", ["__typename", "id", "version"]),
          ("QReviewerUser", ["__typename", "id", "name"]),
          ("QAuthorActor", ["__typename", "id"]), ("QAuthorBot", ["__typename", "id", "version"]),
          ("QAuthorUser", ["__typename", "id", "name"])]
     | .error _ => false) = true := by decide +kernel

example : ∃ a ctx', parseType iEnv 5 [.spread "ActorParts" []] (.named "Actor") true "QAuthor" false {} = .ok (a, ctx') ∧
    ("QAuthor" ++ "Bot", "Bot") ∈ ctx'.related := by
  cases hr : parseType iEnv 5 [.spread "ActorParts" []] (.named "Actor") true "QAuthor" false {} with
  | error e =>
    have : (match parseType iEnv 5 [.spread "ActorParts" []] (.named "Actor") true "QAuthor" false {} with
      | .ok _ => true | .error _ => false) = true := by decide +kernel
    rw [hr] at this; cases this
  | ok p =>
    obtain ⟨a, ctx'⟩ := p
    exact ⟨a, ctx', rfl, (interface_fragment_expanded_at_every_use iEnv 3 [.spread "ActorParts" []] "Actor" true "QAuthor" false {} a ctx'
      (by decide +kernel) hr "ActorParts" [] iFrag (by simp) (by rfl) "Bot" [] 11 [.field none "version" [] 0 []]
      (by simp [iFrag])).1⟩

/-- non-vacuity of `generated_class_rejects_foreign_typename`: the variant class `QAuthorBot` (typename values `["Bot"]`) of the
    interface position above is generated with the automatic `__typename`, and the model's pydantic rejects `__typename: "User"` -/
def iBotSel : List Selection := [.spread "ActorParts" []]

example :
    (match parseTypeDefinition iEnv 8 "QAuthorBot" "Bot" 3 iBotSel true [] ["Bot"] {} with
     | .ok (cs, _) =>
       cs.map (fun c => (c.name, c.fields.map declSig)) == [("QAuthorBot", [("__typename", "typename__", false), ("id", "id", false), ("version", "version", false)])]
       && (match cs.head? with
           | some c => (match validate { classes := [c], enums := [] } 5 (.cls "QAuthorBot")
                          (.obj [("__typename", .str "User"), ("id", .str "1"), ("version", .num 1 0)]) with
                        | .ok _ => false | .error _ => true)
                       && (match validate { classes := [c], enums := [] } 5 (.cls "QAuthorBot")
                          (.obj [("__typename", .str "Bot"), ("id", .str "1"), ("version", .num 1 0)]) with
                        | .ok _ => true | .error _ => false)
           | none => false)
     | .error _ => false) = true := by decide +kernel

example : typenameValues iEnv [("QAuthorActor", "Actor"), ("QAuthorBot", "Bot"), ("QAuthorUser", "User")] =
    [("Actor", ["Actor"]), ("Bot", ["Bot"]), ("User", ["User"])] := by decide +kernel

/-! ### Plain selections: the whole model, to any depth — accepted ⇒ conformant (up to the lax table)

    The converse of C01's `plain_roundtrip`, for the same region (`C01Plain.PlainOK`: selection sets of fields — leaf- or
    object-typed under any list / non-null wrappers, aliases, `@skip` / `@include` —, no fragments, no `__typename`):
    whatever JSON value the generated ROOT class accepts is `laxResp` (Proofs/C05StrictDefs.lean), i.e. at EVERY depth no
    selected unconditional key is missing, no `null` sits at a non-null unconditional position, every list is a list, every
    object an object, every leaf value a cell of the lax table.  Hence every single-point corruption the property lists
    (outside the lax table) is rejected wherever in the response tree it is made. -/

/-- **C05, plain tier** (pipeline form): generation succeeds with the clean classes, and the root class accepts only
    `laxResp` payloads — for every JSON value and every validation fuel. -/
theorem plain_accepted_imp_conformant (env : ResultTypes.Env) (cn tn : String) (sid : Nat) (sel : List Selection) (st : St)
    (h : C01Plain.PlainOK env cn tn sid sel st = true) :
    ∃ classes : List ClassDecl,
      (∀ fuel, C01Plain.gfuel sel ≤ fuel →
        ∃ st', parseTypeDefinition env fuel cn tn sid sel false [] [] st = .ok (classes, st')) ∧
      (∀ (penv : Pyd.Env), C01Plain.PenvOK env penv classes →
        ∀ (j : J) (g : Nat) (v : PV), validate penv g (.cls cn) j = .ok v → laxResp env penv.lax tn sel j = true) := by
  refine ⟨C01Plain.plainClasses env cn tn sel, ?_, ?_⟩
  · intro fuel hfuel
    obtain ⟨st', hst, _⟩ := C01Plain.plain_generation env cn tn sid sel st h [] fuel hfuel
    exact ⟨st', hst⟩
  · intro penv hp j g v hacc
    obtain ⟨_, h2, h3, _, _⟩ := C01Plain.PlainOK_spec h
    exact strict_spec env penv hp.agrees hp.noBaseModel g g (Nat.le_refl _) st.marks cn tn sel j v h2 h3 hp.has hacc

/-- what `laxResp` excludes, at the top of any (sub-)selection set: a selected unconditional key that is absent
    (under the response key and under the python name) -/
theorem laxResp_missing_key (env : ResultTypes.Env) (lax : Lax) (tn : String) (sel : List Selection) (kvs : List (String × J))
    (alias : Option String) (name : String) (dirs : List Directive) (sid : Nat) (sub : List Selection)
    (hm : Selection.field alias name dirs sid sub ∈ sel) (hc : hasConditionalDirective dirs = false)
    (hk : J.lookup (alias.getD name) kvs = none) (hp : J.lookup (pyFieldName env (alias.getD name)) kvs = none) :
    laxResp env lax tn sel (.obj kvs) = false := by
  cases hr : laxResp env lax tn sel (.obj kvs) with
  | false => rfl
  | true =>
    have := (laxSel_iff env lax tn kvs sel).mp hr _ hm
    simp [laxSel1, found, hk, hp, hc] at this

/-- … and `null` under the key of an unconditional field of non-null type (leaf or object, any wrappers below) -/
theorem laxResp_null_at_nonnull (env : ResultTypes.Env) (lax : Lax) (tn : String) (sel : List Selection) (kvs : List (String × J))
    (alias : Option String) (name : String) (dirs : List Directive) (sid : Nat) (sub : List Selection) (t : TypeRef)
    (hm : Selection.field alias name dirs sid sub ∈ sel) (hc : hasConditionalDirective dirs = false)
    (ht : C01Plain.fieldT env tn name = .nonNull t) (hany : isAnyLeaf env.schema t.base = false ∨ sub.isEmpty = false ∨ ∃ u, t = .list u)
    (hk : J.lookup (alias.getD name) kvs = some .null) :
    laxResp env lax tn sel (.obj kvs) = false := by
  cases hr : laxResp env lax tn sel (.obj kvs) with
  | false => rfl
  | true =>
    have := (laxSel_iff env lax tn kvs sel).mp hr _ hm
    simp only [laxSel1, found, hk, hc, Bool.false_and, Bool.false_or, ht] at this
    cases t with
    | named n =>
      by_cases hs : sub.isEmpty = true
      · rcases hany with h1 | h1 | ⟨u, h1⟩
        · simp [hs, conformsLax, TypeRef.base] at this h1; simp [h1] at this
        · simp [hs] at h1
        · cases h1
      · simp [hs, completeLax] at this
    | list u =>
      by_cases hs : sub.isEmpty = true
      · simp [hs, conformsLax] at this
      · simp [hs, completeLax] at this
    | nonNull u =>
      -- `T!!` does not occur in a schema; the statement still holds
      by_cases hs : sub.isEmpty = true
      · rcases hany with h1 | h1 | ⟨u', h1⟩
        · simp only [hs, if_true, conformsLax] at this
          exact absurd this (by
            intro hh
            have : ∀ (T : TypeRef) (b : Bool), isAnyLeaf env.schema T.base = false → b = false → conformsLax env.schema lax b T .null = false := by
              intro T
              induction T with
              | named m => intro b h1 hb; subst hb; simp [conformsLax, TypeRef.base] at h1 ⊢; exact h1
              | list w _ => intro b _ hb; subst hb; simp [conformsLax]
              | nonNull w ih => intro b h1 _; simp only [conformsLax]; exact ih false (by simpa [TypeRef.base] using h1) rfl
            have h2 := this u false (by simpa [TypeRef.base] using h1) rfl
            rw [h2] at hh; cases hh)
        · simp [hs] at h1
        · cases h1
      · have : ∀ (T : TypeRef) (P : J → Bool) (b : Bool), b = false → completeLax false P T b .null = false := by
          intro T P
          induction T with
          | named m => intro b hb; subst hb; simp [completeLax]
          | list w _ => intro b hb; subst hb; simp [completeLax]
          | nonNull w ih => intro b _; simp only [completeLax]; exact ih false rfl
        rename_i hthis
        simp only [hs, Bool.false_eq_true, if_false, completeLax] at hthis
        rw [this u _ false rfl] at hthis; cases hthis

/-! non-vacuity on C01's plain example (nested object, lists of objects, aliases, conditional fields, an enum leaf):
    the real classes accept the conformant response, and the theorem applies to every accepted value; a response with
    `me.id` removed, or with `everyone[1].id` nulled, is not `laxResp` -/
example : laxResp C01Plain.exEnv Lax.none "Query" C01Plain.exSel C01Plain.exResp = true := by decide +kernel

def exRespMissing : J :=
  .obj [("everyone", .arr [.obj [("id", .str "1")]]), ("me", .obj [("givenName", .str "Ada"), ("role", .str "ADMIN")])]
def exRespNull : J :=
  .obj [("everyone", .arr [.obj [("id", .str "1")], .obj [("id", .null)]]), ("me", .null)]

example : laxResp C01Plain.exEnv Lax.none "Query" C01Plain.exSel exRespMissing = false
    ∧ laxResp C01Plain.exEnv Lax.none "Query" C01Plain.exSel exRespNull = false := by decide +kernel

example (j : J) (g : Nat) (v : PV) (hacc : validate C01Plain.exPenv g (.cls "Q") j = .ok v) :
    laxResp C01Plain.exEnv C01Plain.exPenv.lax "Query" C01Plain.exSel j = true := by
  obtain ⟨classes, hgen, hstrict⟩ := plain_accepted_imp_conformant C01Plain.exEnv "Q" "Query" 1 C01Plain.exSel {} (by decide +kernel)
  obtain ⟨st', hst⟩ := hgen 10 (by decide +kernel)
  obtain ⟨st'', hst'', _⟩ := C01Plain.plain_generation C01Plain.exEnv "Q" "Query" 1 C01Plain.exSel {} (by decide +kernel) [] 10 (by decide +kernel)
  have : classes = C01Plain.plainClasses C01Plain.exEnv "Q" "Query" C01Plain.exSel := by
    rw [hst] at hst''; injection hst'' with h; injection h
  exact hstrict C01Plain.exPenv (this ▸ C01Plain.exPenvOK) j g v hacc

/-! ### Full strength is false exactly on the lax table -/

/-- The property at full strength for leaf positions: pydantic accepts a payload iff it is conformant. -/
def C05_full_leaf : Prop :=
  ∀ (genv : ResultTypes.Env) (penv : Pyd.Env), EnvAgrees genv penv → ∀ (T : TypeRef), LeafName genv T.base →
    ∀ (j : J) (fuel : Nat), need T ≤ fuel →
      ((∃ v, validate penv fuel (leafAnn genv true T) j = .ok v) ↔ Exec.conforms genv.schema true T j = true)

def emptyGenv : ResultTypes.Env := { schema := { types := [] }, frags := [] }
def emptyPenv : Pyd.Env := { classes := [], enums := [] }

theorem emptyAgrees : EnvAgrees emptyGenv emptyPenv where
  enums := by intro n t h; simp [emptyGenv, Schema.get?] at h
  notBuiltin := by intro n h; simp [emptyGenv, Schema.kindOf?, Schema.get?] at h
  builtins := by intro n _; left; simp [emptyGenv, Schema.kindOf?, Schema.get?]
  noExtraEnums := by intro n _; right; simp [emptyPenv, Pyd.Env.enum?]

/-- witness (finding C05-F1): `Int!` accepts the JSON boolean `true` -/
theorem C05_full_false : ¬ C05_full_leaf := by
  intro h
  have hl : LeafName emptyGenv (TypeRef.nonNull (.named "Int")).base := by
    refine ⟨Or.inl ?_, ?_⟩ <;> simp [TypeRef.base, emptyGenv, Schema.kindOf?, Schema.get?, scalarCfg?]
  have := (h emptyGenv emptyPenv emptyAgrees (.nonNull (.named "Int")) hl (.bool true) 2 (by simp [need])).mp
    ((accepts_iff_lax emptyGenv emptyPenv emptyAgrees _ hl true (.bool true) 2 (by simp [need])).mpr
      (by simp [conformsLax, leafOkLax, emptyGenv, Schema.kindOf?, Schema.get?]))
  simp [Exec.conforms, Exec.leafOk, emptyGenv, Schema.get?] at this

/-- The partial theorem: outside the lax table (`conformsLax` = `conforms`), accepted iff conformant. -/
theorem C05_partial (genv : ResultTypes.Env) (penv : Pyd.Env) (ha : EnvAgrees genv penv) (T : TypeRef)
    (hl : LeafName genv T.base) (j : J) (fuel : Nat) (hf : need T ≤ fuel)
    (hsupp : conformsLax genv.schema penv.lax true T j = Exec.conforms genv.schema true T j) :
    (∃ v, validate penv fuel (leafAnn genv true T) j = .ok v) ↔ Exec.conforms genv.schema true T j = true := by
  rw [accepts_iff_lax genv penv ha T hl true j fuel hf, hsupp]

/-- non-vacuity of `C05_partial`: a string at an `Int` position with no lax string parser is outside the table -/
example : conformsLax emptyGenv.schema Lax.none true (.named "Int") (.str "x") = Exec.conforms emptyGenv.schema true (.named "Int") (.str "x") := by
  simp [conformsLax, leafOkLax, Exec.conforms, Exec.leafOk, emptyGenv, Schema.kindOf?, Schema.get?, Lax.none]

end Ariadne.C05
