/-
  C12 — Every HTTP response is classified into exactly one documented outcome.

  Statements only (plus their proofs, which are short); the model is Model/GetData.lean.
  Quantification: every status code (`Nat`), every body (`Option J`, `none` = not JSON),
  no bound on the size of the body or of the error list.
-/
import AriadneModel.Model.GetData

set_option linter.unusedSimpArgs false
set_option linter.unusedVariables false

namespace Ariadne.C12
open Ariadne Ariadne.GetData

/-- A spec-shaped error entry: an object carrying a `message`. -/
def ErrShaped : J → Prop
  | .obj kvs => (J.lookup "message" kvs).isSome
  | _ => False

/-- The hypothesis of the property: the `errors` member, *when present*, is a list of objects
    each carrying a message.  Nothing is assumed about status, `data`, or other members. -/
def SpecShaped (r : HttpResp) : Prop :=
  ∀ kvs e, r.body = some (.obj kvs) → J.lookup "errors" kvs = some e →
    ∃ es, e = .arr es ∧ ∀ x ∈ es, ErrShaped x

/-- The four documented outcomes as predicates on the result of `getData`. -/
def IsHttp (o : Outcome) : Prop := ∃ s, o = .http s
def IsInvalid (o : Outcome) : Prop := o = .invalid
def IsMulti (o : Outcome) : Prop := ∃ gs d, o = .multi gs d
def IsData (o : Outcome) : Prop := ∃ d, o = .data d

/-- What `from_dict` must produce for a shaped entry. -/
def errOf (kvs : List (String × J)) (m : J) : GqlErr :=
  { message := m, locations := J.getD "locations" kvs, path := J.getD "path" kvs,
    extensions := J.getD "extensions" kvs, original := .obj kvs }

/-! ### Helper lemmas -/

theorem fromDicts_shaped (es : List J) (h : ∀ x ∈ es, ErrShaped x) :
    ∃ gs, fromDicts es = .ok gs ∧ gs.length = es.length ∧
      ∀ i (hi : i < es.length), ∃ kvs m g, es[i] = .obj kvs ∧ J.lookup "message" kvs = some m ∧
        gs[i]? = some g ∧ g = errOf kvs m := by
  induction es with
  | nil => exact ⟨[], rfl, rfl, fun i hi => absurd hi (Nat.not_lt_zero _)⟩
  | cons e es ih =>
    have he := h e (by simp)
    obtain ⟨gs, hgs, hlen, hall⟩ := ih (fun x hx => h x (by simp [hx]))
    cases e with
    | obj kvs =>
      simp only [ErrShaped] at he
      obtain ⟨m, hm⟩ := Option.isSome_iff_exists.mp he
      refine ⟨errOf kvs m :: gs, ?_, by simp [hlen], ?_⟩
      · simp [fromDicts, fromDict, hm, hgs, errOf]
      · intro i hi
        cases i with
        | zero => exact ⟨kvs, m, errOf kvs m, rfl, hm, rfl, rfl⟩
        | succ j =>
          have hj : j < es.length := by simpa using hi
          obtain ⟨kvs', m', g, h1, h2, h3, h4⟩ := hall j hj
          exact ⟨kvs', m', g, by simpa using h1, h2, by simpa using h3, h4⟩
    | null => exact absurd he (by simp [ErrShaped])
    | bool _ => exact absurd he (by simp [ErrShaped])
    | num _ _ => exact absurd he (by simp [ErrShaped])
    | str _ => exact absurd he (by simp [ErrShaped])
    | arr _ => exact absurd he (by simp [ErrShaped])

/-! ### The property -/

/-- (1) A non-2xx status raises the HTTP error carrying the status — and nothing else does. -/
theorem http_error_iff (r : HttpResp) (s : Nat) :
    getData r = .http s ↔ (¬ (200 ≤ r.status ∧ r.status ≤ 299) ∧ s = r.status) := by
  unfold getData isSuccess
  by_cases h : (200 ≤ r.status ∧ r.status ≤ 299)
  · have : (decide (200 ≤ r.status) && decide (r.status ≤ 299)) = true := by simp [h]
    simp only [this, Bool.not_true, Bool.false_eq_true, ↓reduceIte]
    constructor
    · intro hh
      rcases hb : r.body with _ | b
      · simp [hb] at hh
      · cases b <;> simp [hb] at hh
        split at hh <;> try (simp at hh)
        split at hh <;> try (simp at hh)
        unfold fromErrorsDicts at hh
        split at hh <;> try (simp at hh)
        split at hh <;> simp at hh
    · intro hh; exact absurd h hh.1
  · have : (decide (200 ≤ r.status) && decide (r.status ≤ 299)) = false := by
      simp only [Bool.and_eq_false_iff, decide_eq_false_iff_not]; omega
    simp only [this, Bool.not_false, ↓reduceIte, Outcome.http.injEq]
    constructor
    · intro hh; exact ⟨h, hh.symm⟩
    · intro hh; exact hh.2.symm

/-- Shape of a body that is "not a JSON object or has neither data nor errors". -/
def BodyInvalid (b : Option J) : Prop :=
  match b with
  | none => True
  | some (.obj kvs) => J.lookup "data" kvs = none ∧ J.lookup "errors" kvs = none
  | some _ => True

/-- (2) Invalid-response error ⇔ success status and an invalid body. -/
theorem invalid_iff (r : HttpResp) :
    getData r = .invalid ↔ ((200 ≤ r.status ∧ r.status ≤ 299) ∧ BodyInvalid r.body) := by
  unfold getData isSuccess BodyInvalid
  by_cases h : (200 ≤ r.status ∧ r.status ≤ 299)
  · have : (decide (200 ≤ r.status) && decide (r.status ≤ 299)) = true := by simp [h]
    simp only [this, Bool.not_true, Bool.false_eq_true, ↓reduceIte, h, true_and]
    rcases hb : r.body with _ | b
    · simp
    · cases b <;> simp
      rename_i kvs
      rcases hd : J.lookup "data" kvs with _ | dv <;> rcases he : J.lookup "errors" kvs with _ | e
      · simp [J.hasKey, hd, he]
      · simp only [J.hasKey, hd, he, J.getD]
        simp only [Option.isSome_none, Option.isSome_some, Bool.not_true, Bool.not_false,
          Bool.and_false, Bool.false_eq_true, ↓reduceIte, Option.getD_some, Option.getD_none]
        split
        · unfold fromErrorsDicts; split
          · split <;> simp
          · simp
        · simp
      · simp [J.hasKey, hd, he, J.getD, J.truthy]
      · simp only [J.hasKey, hd, he, J.getD]
        simp only [Option.isSome_some, Bool.not_true, Bool.and_false,
          Bool.false_eq_true, ↓reduceIte, Option.getD_some]
        split
        · unfold fromErrorsDicts; split
          · split <;> simp
          · simp
        · simp
  · have : (decide (200 ≤ r.status) && decide (r.status ≤ 299)) = false := by
      simp only [Bool.and_eq_false_iff, decide_eq_false_iff_not]; omega
    simp [this, h]

/-- (3) For a spec-shaped response, the multi-error is raised exactly when the status is 2xx and
    `errors` is a non-empty list; it then carries *every* error (message, locations, path,
    extensions, original, in order) and the partial data (`null` when there is none). -/
theorem multi_error_iff (r : HttpResp) (hs : SpecShaped r) :
    IsMulti (getData r) ↔
      ((200 ≤ r.status ∧ r.status ≤ 299) ∧
        ∃ kvs e es, r.body = some (.obj kvs) ∧ J.lookup "errors" kvs = some (.arr (e :: es))) := by
  unfold IsMulti getData isSuccess
  by_cases h : (200 ≤ r.status ∧ r.status ≤ 299)
  · have : (decide (200 ≤ r.status) && decide (r.status ≤ 299)) = true := by simp [h]
    simp only [this, Bool.not_true, Bool.false_eq_true, ↓reduceIte, h, true_and]
    rcases hb : r.body with _ | b
    · simp
    · cases b <;> simp
      rename_i kvs
      rcases he : J.lookup "errors" kvs with _ | e
      · simp [J.getD, J.hasKey, he, J.truthy]
        split <;> simp
      · obtain ⟨es, rfl, hall⟩ := hs kvs e hb he
        simp only [J.hasKey, he, Option.isSome_some, Bool.not_true, Bool.and_false,
          Bool.false_eq_true, ↓reduceIte, J.getD, Option.getD_some, J.truthy]
        cases es with
        | nil => simp
        | cons x xs =>
          obtain ⟨gs, hgs, -, -⟩ := fromDicts_shaped (x :: xs) hall
          simp [fromErrorsDicts, hgs]
  · have : (decide (200 ≤ r.status) && decide (r.status ≤ 299)) = false := by
      simp only [Bool.and_eq_false_iff, decide_eq_false_iff_not]; omega
    simp [this, h]

theorem multi_carries_all (r : HttpResp) (hs : SpecShaped r) (gs : List GqlErr) (d : J)
    (h : getData r = .multi gs d) :
    ∃ kvs es, r.body = some (.obj kvs) ∧ J.lookup "errors" kvs = some (.arr es) ∧
      d = J.getD "data" kvs ∧ gs.length = es.length ∧
      ∀ i (_ : i < es.length), ∃ ekvs m g, es[i]? = some (.obj ekvs) ∧
        J.lookup "message" ekvs = some m ∧ gs[i]? = some g ∧ g = errOf ekvs m := by
  unfold getData at h
  split at h; · simp at h
  rcases hb : r.body with _ | b
  · simp [hb] at h
  · cases b <;> simp [hb] at h
    rename_i kvs
    split at h; · simp at h
    split at h
    · rename_i htr
      rcases he : J.lookup "errors" kvs with _ | e
      · simp [J.getD, he, J.truthy] at htr
      · obtain ⟨es, rfl, hall⟩ := hs kvs _ hb he
        obtain ⟨gs', hgs, hlen, hidx⟩ := fromDicts_shaped es hall
        simp [J.getD, he, fromErrorsDicts, hgs] at h
        obtain ⟨rfl, rfl⟩ := h
        refine ⟨kvs, es, rfl, he, rfl, hlen, ?_⟩
        intro i hi
        obtain ⟨ekvs, m, g, h1, h2, h3, h4⟩ := hidx i hi
        exact ⟨ekvs, m, g, by simp [h1, hi], h2, h3, h4⟩
    · simp at h

/-- (4) Otherwise the data member is returned unchanged (`None` when the member is absent). -/
theorem data_returned_iff (r : HttpResp) (hs : SpecShaped r) (d : J) :
    getData r = .data d ↔
      ((200 ≤ r.status ∧ r.status ≤ 299) ∧
        ∃ kvs, r.body = some (.obj kvs) ∧
          (J.lookup "data" kvs ≠ none ∨ J.lookup "errors" kvs ≠ none) ∧
          (J.lookup "errors" kvs = none ∨ J.lookup "errors" kvs = some (.arr [])) ∧
          d = J.getD "data" kvs) := by
  unfold getData isSuccess
  by_cases h : (200 ≤ r.status ∧ r.status ≤ 299)
  · have : (decide (200 ≤ r.status) && decide (r.status ≤ 299)) = true := by simp [h]
    simp only [this, Bool.not_true, Bool.false_eq_true, ↓reduceIte, h, true_and]
    rcases hb : r.body with _ | b
    · simp
    · cases b <;> simp
      rename_i kvs
      rcases he : J.lookup "errors" kvs with _ | e
      · rcases hd : J.lookup "data" kvs with _ | dv
        · simp [J.hasKey, he, hd]
        · simp [J.hasKey, he, hd, J.getD, J.truthy]; exact eq_comm
      · obtain ⟨es, rfl, hall⟩ := hs kvs e hb he
        cases es with
        | nil => simp [J.hasKey, he, J.getD, J.truthy]; exact eq_comm
        | cons x xs =>
          obtain ⟨gs, hgs, -, -⟩ := fromDicts_shaped (x :: xs) hall
          simp [J.hasKey, he, J.getD, J.truthy, fromErrorsDicts, hgs]
  · have : (decide (200 ≤ r.status) && decide (r.status ≤ 299)) = false := by
      simp only [Bool.and_eq_false_iff, decide_eq_false_iff_not]; omega
    simp [this, h]

/-- Data is never returned when the server reported errors. -/
theorem never_data_with_errors (r : HttpResp) (hs : SpecShaped r) (d : J) (kvs : List (String × J))
    (e : J) (es : List J) (hb : r.body = some (.obj kvs))
    (he : J.lookup "errors" kvs = some (.arr (e :: es))) : getData r ≠ .data d := by
  intro h
  obtain ⟨-, kvs', hb', -, hne, -⟩ := (data_returned_iff r hs d).mp h
  rw [hb] at hb'
  cases hb'
  rcases hne with h1 | h1 <;> rw [he] at h1 <;> simp at h1

/-- No other exception type escapes (the `.internal` branch is unreachable for spec-shaped
    responses), and the outcome is exactly one of the four documented ones. -/
theorem exactly_one_outcome (r : HttpResp) (hs : SpecShaped r) :
    (IsHttp (getData r) ∧ ¬ IsInvalid (getData r) ∧ ¬ IsMulti (getData r) ∧ ¬ IsData (getData r)) ∨
    (¬ IsHttp (getData r) ∧ IsInvalid (getData r) ∧ ¬ IsMulti (getData r) ∧ ¬ IsData (getData r)) ∨
    (¬ IsHttp (getData r) ∧ ¬ IsInvalid (getData r) ∧ IsMulti (getData r) ∧ ¬ IsData (getData r)) ∨
    (¬ IsHttp (getData r) ∧ ¬ IsInvalid (getData r) ∧ ¬ IsMulti (getData r) ∧ IsData (getData r)) := by
  have key : ∀ x, getData r ≠ .internal x := by
    intro x h
    unfold getData at h
    split at h; · simp at h
    rcases hb : r.body with _ | b
    · simp [hb] at h
    · cases b <;> simp [hb] at h
      rename_i kvs
      split at h; · simp at h
      split at h
      · rename_i htr
        rcases he : J.lookup "errors" kvs with _ | e
        · simp [J.getD, he, J.truthy] at htr
        · obtain ⟨es, rfl, hall⟩ := hs kvs _ hb he
          obtain ⟨gs', hgs, -, -⟩ := fromDicts_shaped es hall
          simp [J.getD, he, fromErrorsDicts, hgs] at h
      · simp at h
  unfold IsHttp IsInvalid IsMulti IsData
  cases hg : getData r with
  | http s => left; simp
  | invalid => right; left; simp
  | multi gs d => right; right; left; simp
  | data d => right; right; right; simp
  | internal x => exact absurd hg (key x)

/-! ### Non-vacuity: concrete spec-shaped responses hitting each outcome -/

def exErr : J := .obj [("message", .str "boom"), ("path", .arr [.str "a"])]
def exBody : J := .obj [("data", .obj [("a", .null)]), ("errors", .arr [exErr])]

example : SpecShaped ⟨200, some exBody⟩ := by
  intro kvs e hb he
  simp only [exBody, Option.some.injEq, J.obj.injEq] at hb
  subst hb
  simp [J.lookup] at he
  subst he
  exact ⟨[exErr], rfl, by simp [exErr, ErrShaped, J.lookup]⟩

example : getData ⟨200, some exBody⟩ =
    .multi [errOf [("message", .str "boom"), ("path", .arr [.str "a"])] (.str "boom")]
      (.obj [("a", .null)]) := by
  simp [getData, isSuccess, exBody, exErr, J.hasKey, J.lookup, J.getD, J.truthy, fromErrorsDicts,
    fromDicts, fromDict, errOf]
example : getData ⟨503, some exBody⟩ = .http 503 := by simp [getData, isSuccess]
example : getData ⟨200, none⟩ = .invalid := by simp [getData, isSuccess]
example : getData ⟨204, some (.obj [("data", .num 1 0)])⟩ = .data (.num 1 0) := by
  simp [getData, isSuccess, J.hasKey, J.lookup, J.getD, J.truthy]

/-- Outside the hypothesis the property is *not* claimed: a non-spec-shaped `errors` escapes as a
    bare `KeyError`/`TypeError` (recorded as an observation, DESIGN.md §3 C12). -/
example : getData ⟨200, some (.obj [("errors", .arr [.obj []])])⟩ = .internal "KeyError" := by
  simp [getData, isSuccess, J.hasKey, J.lookup, J.getD, J.truthy, fromErrorsDicts, fromDicts, fromDict]

end Ariadne.C12
