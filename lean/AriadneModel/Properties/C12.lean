/-
  C12 — Every HTTP response is classified into exactly one documented outcome.

  Models: Model/GetData.lean (`get_data`, `from_errors_dicts`, `from_dict`, the exception objects
  and their `str()`), Model/RawResponse.lean (`get_data` on status + raw body BYTES, over the JSON
  decoding reference Spec/PyJson.lean), Model/MethodTail.lean (the tail of the generated client
  method and of the generated subscription method over the names `get_variable_names` chose).

  Sections
    1. `get_data` on a decoded body (status : Nat, body : Option J, `none` = `response.json()` raised
       `ValueError`), under the property's hypothesis `SpecShaped`: the four iff's, `exactly_one_outcome`.
    2. outside the hypothesis: exactly which shapes of `errors` escape as which exception
       (`internal_iff`), and that nothing escapes inside it.
    3. the decoding glue, on raw bytes: `C12_full` (false: `RecursionError` for deep nesting,
       finding C12-F1, trigger `decodeEscapes`), `C12_partial` outside the trigger, which byte
       bodies are "not JSON" (`raw_invalid_iff`, non-UTF-8, the integer digit limit).
    4. the exception objects: attributes carried, `str()`.
    5. the generated method: its outcome is `get_data`'s outcome, then validation of exactly the
       data `get_data` returned — for every parameter list (every renaming of the locals), every
       `get_data`, every validator, every scope.
  Quantification: every status code, every body (bytes or decoded), every recursion/digit limit of
  the interpreter, no bound on the size of the body, of the error list or of the parameter list.
-/
import AriadneModel.Model.GetData
import AriadneModel.Model.RawResponse
import AriadneModel.Model.MethodTail
import AriadneModel.Proofs.C12Decode

set_option linter.unusedSimpArgs false
set_option linter.unusedVariables false

namespace Ariadne.C12
open Ariadne Ariadne.GetData

/-- A spec-shaped error entry: an object carrying a `message`. -/
def ErrShaped : J → Prop
  | .obj kvs => (J.lookup "message" kvs).isSome
  | _ => False

/-- The hypothesis of the property: the `errors` member, *when present*, is a list of objects
    each carrying a message.  Nothing is assumed about status, `data`, or other members. -/
def SpecShaped (r : HttpResp) : Prop :=
  ∀ kvs e, r.body = some (.obj kvs) → J.lookup "errors" kvs = some e →
    ∃ es, e = .arr es ∧ ∀ x ∈ es, ErrShaped x

/-- The four documented outcomes as predicates on the result of `getData`. -/
def IsHttp (o : Outcome) : Prop := ∃ s, o = .http s
def IsInvalid (o : Outcome) : Prop := o = .invalid
def IsMulti (o : Outcome) : Prop := ∃ gs d, o = .multi gs d
def IsData (o : Outcome) : Prop := ∃ d, o = .data d

/-- What `from_dict` must produce for a shaped entry. -/
def errOf (kvs : List (String × J)) (m : J) : GqlErr :=
  { message := m, locations := J.getD "locations" kvs, path := J.getD "path" kvs,
    extensions := J.getD "extensions" kvs, original := .obj kvs }

/-! ### Helper lemmas -/

theorem fromDicts_shaped (es : List J) (h : ∀ x ∈ es, ErrShaped x) :
    ∃ gs, fromDicts es = .ok gs ∧ gs.length = es.length ∧
      ∀ i (hi : i < es.length), ∃ kvs m g, es[i] = .obj kvs ∧ J.lookup "message" kvs = some m ∧
        gs[i]? = some g ∧ g = errOf kvs m := by
  induction es with
  | nil => exact ⟨[], rfl, rfl, fun i hi => absurd hi (Nat.not_lt_zero _)⟩
  | cons e es ih =>
    have he := h e (by simp)
    obtain ⟨gs, hgs, hlen, hall⟩ := ih (fun x hx => h x (by simp [hx]))
    cases e with
    | obj kvs =>
      simp only [ErrShaped] at he
      obtain ⟨m, hm⟩ := Option.isSome_iff_exists.mp he
      refine ⟨errOf kvs m :: gs, ?_, by simp [hlen], ?_⟩
      · simp [fromDicts, fromDict, hm, hgs, errOf]
      · intro i hi
        cases i with
        | zero => exact ⟨kvs, m, errOf kvs m, rfl, hm, rfl, rfl⟩
        | succ j =>
          have hj : j < es.length := by simpa using hi
          obtain ⟨kvs', m', g, h1, h2, h3, h4⟩ := hall j hj
          exact ⟨kvs', m', g, by simpa using h1, h2, by simpa using h3, h4⟩
    | null => exact absurd he (by simp [ErrShaped])
    | bool _ => exact absurd he (by simp [ErrShaped])
    | num _ _ => exact absurd he (by simp [ErrShaped])
    | str _ => exact absurd he (by simp [ErrShaped])
    | arr _ => exact absurd he (by simp [ErrShaped])

/-! ### The property -/

/-- (1) A non-2xx status raises the HTTP error carrying the status — and nothing else does. -/
theorem http_error_iff (r : HttpResp) (s : Nat) :
    getData r = .http s ↔ (¬ (200 ≤ r.status ∧ r.status ≤ 299) ∧ s = r.status) := by
  unfold getData isSuccess
  by_cases h : (200 ≤ r.status ∧ r.status ≤ 299)
  · have : (decide (200 ≤ r.status) && decide (r.status ≤ 299)) = true := by simp [h]
    simp only [this, Bool.not_true, Bool.false_eq_true, ↓reduceIte]
    constructor
    · intro hh
      rcases hb : r.body with _ | b
      · simp [hb] at hh
      · cases b <;> simp [hb] at hh
        split at hh <;> try (simp at hh)
        split at hh <;> try (simp at hh)
        unfold fromErrorsDicts at hh
        split at hh <;> try (simp at hh)
        split at hh <;> simp at hh
    · intro hh; exact absurd h hh.1
  · have : (decide (200 ≤ r.status) && decide (r.status ≤ 299)) = false := by
      simp only [Bool.and_eq_false_iff, decide_eq_false_iff_not]; omega
    simp only [this, Bool.not_false, ↓reduceIte, Outcome.http.injEq]
    constructor
    · intro hh; exact ⟨h, hh.symm⟩
    · intro hh; exact hh.2.symm

/-- Shape of a body that is "not a JSON object or has neither data nor errors". -/
def BodyInvalid (b : Option J) : Prop :=
  match b with
  | none => True
  | some (.obj kvs) => J.lookup "data" kvs = none ∧ J.lookup "errors" kvs = none
  | some _ => True

/-- (2) Invalid-response error ⇔ success status and an invalid body. -/
theorem invalid_iff (r : HttpResp) :
    getData r = .invalid ↔ ((200 ≤ r.status ∧ r.status ≤ 299) ∧ BodyInvalid r.body) := by
  unfold getData isSuccess BodyInvalid
  by_cases h : (200 ≤ r.status ∧ r.status ≤ 299)
  · have : (decide (200 ≤ r.status) && decide (r.status ≤ 299)) = true := by simp [h]
    simp only [this, Bool.not_true, Bool.false_eq_true, ↓reduceIte, h, true_and]
    rcases hb : r.body with _ | b
    · simp
    · cases b <;> simp
      rename_i kvs
      rcases hd : J.lookup "data" kvs with _ | dv <;> rcases he : J.lookup "errors" kvs with _ | e
      · simp [J.hasKey, hd, he]
      · simp only [J.hasKey, hd, he, J.getD]
        simp only [Option.isSome_none, Option.isSome_some, Bool.not_true, Bool.not_false,
          Bool.and_false, Bool.false_eq_true, ↓reduceIte, Option.getD_some, Option.getD_none]
        split
        · unfold fromErrorsDicts; split
          · split <;> simp
          · simp
        · simp
      · simp [J.hasKey, hd, he, J.getD, J.truthy]
      · simp only [J.hasKey, hd, he, J.getD]
        simp only [Option.isSome_some, Bool.not_true, Bool.and_false,
          Bool.false_eq_true, ↓reduceIte, Option.getD_some]
        split
        · unfold fromErrorsDicts; split
          · split <;> simp
          · simp
        · simp
  · have : (decide (200 ≤ r.status) && decide (r.status ≤ 299)) = false := by
      simp only [Bool.and_eq_false_iff, decide_eq_false_iff_not]; omega
    simp [this, h]

/-- (3) For a spec-shaped response, the multi-error is raised exactly when the status is 2xx and
    `errors` is a non-empty list; it then carries *every* error (message, locations, path,
    extensions, original, in order) and the partial data (`null` when there is none). -/
theorem multi_error_iff (r : HttpResp) (hs : SpecShaped r) :
    IsMulti (getData r) ↔
      ((200 ≤ r.status ∧ r.status ≤ 299) ∧
        ∃ kvs e es, r.body = some (.obj kvs) ∧ J.lookup "errors" kvs = some (.arr (e :: es))) := by
  unfold IsMulti getData isSuccess
  by_cases h : (200 ≤ r.status ∧ r.status ≤ 299)
  · have : (decide (200 ≤ r.status) && decide (r.status ≤ 299)) = true := by simp [h]
    simp only [this, Bool.not_true, Bool.false_eq_true, ↓reduceIte, h, true_and]
    rcases hb : r.body with _ | b
    · simp
    · cases b <;> simp
      rename_i kvs
      rcases he : J.lookup "errors" kvs with _ | e
      · simp [J.getD, J.hasKey, he, J.truthy]
        split <;> simp
      · obtain ⟨es, rfl, hall⟩ := hs kvs e hb he
        simp only [J.hasKey, he, Option.isSome_some, Bool.not_true, Bool.and_false,
          Bool.false_eq_true, ↓reduceIte, J.getD, Option.getD_some, J.truthy]
        cases es with
        | nil => simp
        | cons x xs =>
          obtain ⟨gs, hgs, -, -⟩ := fromDicts_shaped (x :: xs) hall
          simp [fromErrorsDicts, hgs]
  · have : (decide (200 ≤ r.status) && decide (r.status ≤ 299)) = false := by
      simp only [Bool.and_eq_false_iff, decide_eq_false_iff_not]; omega
    simp [this, h]

theorem multi_carries_all (r : HttpResp) (hs : SpecShaped r) (gs : List GqlErr) (d : J)
    (h : getData r = .multi gs d) :
    ∃ kvs es, r.body = some (.obj kvs) ∧ J.lookup "errors" kvs = some (.arr es) ∧
      d = J.getD "data" kvs ∧ gs.length = es.length ∧
      ∀ i (_ : i < es.length), ∃ ekvs m g, es[i]? = some (.obj ekvs) ∧
        J.lookup "message" ekvs = some m ∧ gs[i]? = some g ∧ g = errOf ekvs m := by
  unfold getData at h
  split at h; · simp at h
  rcases hb : r.body with _ | b
  · simp [hb] at h
  · cases b <;> simp [hb] at h
    rename_i kvs
    split at h; · simp at h
    split at h
    · rename_i htr
      rcases he : J.lookup "errors" kvs with _ | e
      · simp [J.getD, he, J.truthy] at htr
      · obtain ⟨es, rfl, hall⟩ := hs kvs _ hb he
        obtain ⟨gs', hgs, hlen, hidx⟩ := fromDicts_shaped es hall
        simp [J.getD, he, fromErrorsDicts, hgs] at h
        obtain ⟨rfl, rfl⟩ := h
        refine ⟨kvs, es, rfl, he, rfl, hlen, ?_⟩
        intro i hi
        obtain ⟨ekvs, m, g, h1, h2, h3, h4⟩ := hidx i hi
        exact ⟨ekvs, m, g, by simp [h1, hi], h2, h3, h4⟩
    · simp at h

/-- (4) Otherwise the data member is returned unchanged (`None` when the member is absent). -/
theorem data_returned_iff (r : HttpResp) (hs : SpecShaped r) (d : J) :
    getData r = .data d ↔
      ((200 ≤ r.status ∧ r.status ≤ 299) ∧
        ∃ kvs, r.body = some (.obj kvs) ∧
          (J.lookup "data" kvs ≠ none ∨ J.lookup "errors" kvs ≠ none) ∧
          (J.lookup "errors" kvs = none ∨ J.lookup "errors" kvs = some (.arr [])) ∧
          d = J.getD "data" kvs) := by
  unfold getData isSuccess
  by_cases h : (200 ≤ r.status ∧ r.status ≤ 299)
  · have : (decide (200 ≤ r.status) && decide (r.status ≤ 299)) = true := by simp [h]
    simp only [this, Bool.not_true, Bool.false_eq_true, ↓reduceIte, h, true_and]
    rcases hb : r.body with _ | b
    · simp
    · cases b <;> simp
      rename_i kvs
      rcases he : J.lookup "errors" kvs with _ | e
      · rcases hd : J.lookup "data" kvs with _ | dv
        · simp [J.hasKey, he, hd]
        · simp [J.hasKey, he, hd, J.getD, J.truthy]; exact eq_comm
      · obtain ⟨es, rfl, hall⟩ := hs kvs e hb he
        cases es with
        | nil => simp [J.hasKey, he, J.getD, J.truthy]; exact eq_comm
        | cons x xs =>
          obtain ⟨gs, hgs, -, -⟩ := fromDicts_shaped (x :: xs) hall
          simp [J.hasKey, he, J.getD, J.truthy, fromErrorsDicts, hgs]
  · have : (decide (200 ≤ r.status) && decide (r.status ≤ 299)) = false := by
      simp only [Bool.and_eq_false_iff, decide_eq_false_iff_not]; omega
    simp [this, h]

/-- Data is never returned when the server reported errors. -/
theorem never_data_with_errors (r : HttpResp) (hs : SpecShaped r) (d : J) (kvs : List (String × J))
    (e : J) (es : List J) (hb : r.body = some (.obj kvs))
    (he : J.lookup "errors" kvs = some (.arr (e :: es))) : getData r ≠ .data d := by
  intro h
  obtain ⟨-, kvs', hb', -, hne, -⟩ := (data_returned_iff r hs d).mp h
  rw [hb] at hb'
  cases hb'
  rcases hne with h1 | h1 <;> rw [he] at h1 <;> simp at h1

/-- No other exception type escapes (the `.internal` branch is unreachable for spec-shaped
    responses), and the outcome is exactly one of the four documented ones. -/
theorem exactly_one_outcome (r : HttpResp) (hs : SpecShaped r) :
    (IsHttp (getData r) ∧ ¬ IsInvalid (getData r) ∧ ¬ IsMulti (getData r) ∧ ¬ IsData (getData r)) ∨
    (¬ IsHttp (getData r) ∧ IsInvalid (getData r) ∧ ¬ IsMulti (getData r) ∧ ¬ IsData (getData r)) ∨
    (¬ IsHttp (getData r) ∧ ¬ IsInvalid (getData r) ∧ IsMulti (getData r) ∧ ¬ IsData (getData r)) ∨
    (¬ IsHttp (getData r) ∧ ¬ IsInvalid (getData r) ∧ ¬ IsMulti (getData r) ∧ IsData (getData r)) := by
  have key : ∀ x, getData r ≠ .internal x := by
    intro x h
    unfold getData at h
    split at h; · simp at h
    rcases hb : r.body with _ | b
    · simp [hb] at h
    · cases b <;> simp [hb] at h
      rename_i kvs
      split at h; · simp at h
      split at h
      · rename_i htr
        rcases he : J.lookup "errors" kvs with _ | e
        · simp [J.getD, he, J.truthy] at htr
        · obtain ⟨es, rfl, hall⟩ := hs kvs _ hb he
          obtain ⟨gs', hgs, -, -⟩ := fromDicts_shaped es hall
          simp [J.getD, he, fromErrorsDicts, hgs] at h
      · simp at h
  unfold IsHttp IsInvalid IsMulti IsData
  cases hg : getData r with
  | http s => left; simp
  | invalid => right; left; simp
  | multi gs d => right; right; left; simp
  | data d => right; right; right; simp
  | internal x => exact absurd hg (key x)

/-! ## 2. Outside the hypothesis: which shapes escape as which exception

    The property excludes responses whose `errors` member is not a list of objects carrying a
    message.  What the code does there is still part of the model; these theorems make the
    excluded region exact. -/

/-- the exception `from_dict(entry)` dies with (`none`: the entry is spec-shaped):
    `entry["message"]` on a dict without the key is a `KeyError`, on anything that is not a dict
    (None, bool, number, str, list) a `TypeError` -/
def entryExc : J → Option String
  | .obj kvs => if (J.lookup "message" kvs).isSome then none else some "KeyError"
  | _ => some "TypeError"

/-- the list comprehension stops at the first entry `from_dict` cannot build -/
def firstBad : List J → Option String
  | [] => none
  | e :: es =>
    match entryExc e with
    | some x => some x
    | none => firstBad es

theorem entryExc_none_iff (e : J) : entryExc e = none ↔ ErrShaped e := by
  cases e <;> simp [entryExc, ErrShaped, Option.isSome_iff_ne_none]

theorem firstBad_none_iff (es : List J) : firstBad es = none ↔ ∀ x ∈ es, ErrShaped x := by
  induction es with
  | nil => simp [firstBad]
  | cons e es ih =>
    cases h : entryExc e with
    | none => simp [firstBad, h, ih, (entryExc_none_iff e).mp h]
    | some x =>
      have : ¬ ErrShaped e := fun hs => by rw [(entryExc_none_iff e).mpr hs] at h; cases h
      simp [firstBad, h, this]

theorem fromDict_entryExc (e : J) :
    (∃ g, fromDict e = .ok g ∧ entryExc e = none) ∨ (∃ x, fromDict e = .error x ∧ entryExc e = some x) := by
  cases e
  case obj kvs => rcases h : J.lookup "message" kvs with _ | m <;> simp [fromDict, entryExc, h]
  all_goals simp [fromDict, entryExc]

theorem fromDicts_error_iff (es : List J) (x : String) : fromDicts es = .error x ↔ firstBad es = some x := by
  induction es with
  | nil => simp [fromDicts, firstBad]
  | cons e es ih =>
    rcases fromDict_entryExc e with ⟨g, hg, hn⟩ | ⟨y, hy, hs⟩
    · cases hrest : fromDicts es with
      | error z => simp [fromDicts, hg, firstBad, hn, hrest] at ih ⊢; exact ih
      | ok gs => simp [fromDicts, hg, firstBad, hn, hrest] at ih ⊢; exact ih
    · simp [fromDicts, hy, firstBad, hs]

/-- how a value of the `errors` member makes `from_errors_dicts` die: a list with a first
    non-shaped entry (that entry's exception), or any truthy non-list (`TypeError`: a str/dict
    iterates into strings, which `["message"]` cannot index; numbers/True are not iterable) -/
def EscapesAs (e : J) (x : String) : Prop :=
  (∃ es, e = .arr es ∧ firstBad es = some x) ∨ (e.isArr = false ∧ e.truthy = true ∧ x = "TypeError")

theorem EscapesAs.truthy {e : J} {x : String} (h : EscapesAs e x) : e.truthy = true := by
  rcases h with ⟨es, rfl, hb⟩ | ⟨_, ht, _⟩
  · cases es with
    | nil => simp [firstBad] at hb
    | cons a as => simp [J.truthy]
  · exact ht

theorem fromErrorsDicts_internal_iff (e d : J) (x : String) (ht : e.truthy = true) :
    fromErrorsDicts e d = .internal x ↔ EscapesAs e x := by
  cases e
  case arr es =>
    have hiff := fromDicts_error_iff es x
    cases hf : fromDicts es with
    | ok gs =>
      have : ¬ firstBad es = some x := fun h => by rw [hf] at hiff; simp at hiff; exact hiff h
      simp [fromErrorsDicts, hf, EscapesAs, J.isArr, this]
    | error y =>
      rw [hf] at hiff
      simp only [Except.error.injEq] at hiff
      simp [fromErrorsDicts, hf, EscapesAs, J.isArr, hiff]
  all_goals (simp [fromErrorsDicts, EscapesAs, J.isArr] at ht ⊢ <;> first | exact eq_comm | (simp [ht]; exact eq_comm) | skip)

/-- (outside the claim, exact) an undocumented exception escapes `get_data` if and only if the
    status is 2xx, the body is an object whose `errors` member is a truthy non-list or a list with
    a non-shaped entry — and then it is exactly that entry's `KeyError`/`TypeError` -/
theorem internal_iff (r : HttpResp) (x : String) :
    getData r = .internal x ↔
      ((200 ≤ r.status ∧ r.status ≤ 299) ∧
        ∃ kvs e, r.body = some (.obj kvs) ∧ J.lookup "errors" kvs = some e ∧ EscapesAs e x) := by
  unfold getData isSuccess
  by_cases h : (200 ≤ r.status ∧ r.status ≤ 299)
  · have : (decide (200 ≤ r.status) && decide (r.status ≤ 299)) = true := by simp [h]
    simp only [this, Bool.not_true, Bool.false_eq_true, ↓reduceIte, h, true_and]
    rcases hb : r.body with _ | b
    · simp
    · cases b <;> simp
      rename_i kvs
      rcases he : J.lookup "errors" kvs with _ | e
      · simp [J.getD, J.hasKey, he, J.truthy]
        split <;> simp
      · simp only [J.hasKey, he, Option.isSome_some, Bool.not_true, Bool.and_false,
          Bool.false_eq_true, ↓reduceIte, J.getD, Option.getD_some]
        by_cases ht : e.truthy = true
        · simp [ht, fromErrorsDicts_internal_iff e _ x ht]
        · have hne : ¬ EscapesAs e x := fun hh => ht hh.truthy
          simp [ht, hne]
  · have : (decide (200 ≤ r.status) && decide (r.status ≤ 299)) = false := by
      simp only [Bool.and_eq_false_iff, decide_eq_false_iff_not]; omega
    simp [this, h]

theorem firstBad_names (es : List J) (x : String) (h : firstBad es = some x) : x = "KeyError" ∨ x = "TypeError" := by
  induction es with
  | nil => simp [firstBad] at h
  | cons e es ih =>
    cases he : entryExc e with
    | none => simp [firstBad, he] at h; exact ih h
    | some y =>
      simp [firstBad, he] at h
      subst h
      cases e <;> simp [entryExc] at he
      case obj kvs => exact Or.inl he.2.symm
      all_goals exact Or.inr he.symm

/-- the only exceptions that ever escape the decoded-body stage are `KeyError` and `TypeError` -/
theorem internal_exception_names (r : HttpResp) (x : String) (h : getData r = .internal x) :
    x = "KeyError" ∨ x = "TypeError" := by
  obtain ⟨-, kvs, e, -, -, hesc⟩ := (internal_iff r x).mp h
  rcases hesc with ⟨es, -, hb⟩ | ⟨-, -, hx⟩
  · exact firstBad_names es x hb
  · exact Or.inr hx

/-- nothing of that escapes inside the property's hypothesis -/
theorem escape_only_outside_claim (r : HttpResp) (x : String) (h : getData r = .internal x) : ¬ SpecShaped r := by
  intro hs
  have := exactly_one_outcome r hs
  simp [h, IsHttp, IsInvalid, IsMulti, IsData] at this

/-- non-shaped but falsy `errors` (`null`, `false`, `0`, `""`, `{}`) raise nothing: data is returned -/
theorem falsy_errors_return_data (r : HttpResp) (kvs : List (String × J)) (e : J)
    (h2 : 200 ≤ r.status ∧ r.status ≤ 299) (hb : r.body = some (.obj kvs))
    (he : J.lookup "errors" kvs = some e) (hf : e.truthy = false) : getData r = .data (J.getD "data" kvs) := by
  have : (decide (200 ≤ r.status) && decide (r.status ≤ 299)) = true := by simp [h2]
  simp [getData, isSuccess, this, hb, J.hasKey, he, J.getD, hf]

/-! ## 3. The decoding glue: `get_data` on raw bytes -/

open Ariadne.RawResponse

/-- the decoded view of a raw response (`none` when `json()` did not return) -/
def respOf (cfg : PyJson.Cfg) (r : Raw) : HttpResp := ⟨r.status, (jsonCall cfg r).body⟩

/-- finding C12-F1, trigger: the status is 2xx (so `json()` is called) and `json()` raises something
    that is not a `ValueError` -/
def decodeEscapes (cfg : PyJson.Cfg) (r : Raw) : Bool :=
  isSuccess r.status &&
    (match PyJson.loads cfg r.content with
     | .raises _ => true
     | _ => false)

def Supported_12 (cfg : PyJson.Cfg) (r : Raw) : Prop := ¬ (decodeEscapes cfg r = true)

/-- one of the four documented outcomes (no other exception) -/
def Documented (o : Outcome) : Prop := IsHttp o ∨ IsInvalid o ∨ IsMulti o ∨ IsData o

/-- exactly one of them -/
def ExactlyOne (o : Outcome) : Prop :=
  (IsHttp o ∧ ¬ IsInvalid o ∧ ¬ IsMulti o ∧ ¬ IsData o) ∨
  (¬ IsHttp o ∧ IsInvalid o ∧ ¬ IsMulti o ∧ ¬ IsData o) ∨
  (¬ IsHttp o ∧ ¬ IsInvalid o ∧ IsMulti o ∧ ¬ IsData o) ∨
  (¬ IsHttp o ∧ ¬ IsInvalid o ∧ ¬ IsMulti o ∧ IsData o)

/-- The property at full strength on raw responses: for every interpreter limit, status and body
    bytes whose decoded `errors` member (when present) is spec-shaped, the outcome is documented. -/
def C12_full : Prop :=
  ∀ (cfg : PyJson.Cfg) (r : Raw), SpecShaped (respOf cfg r) → Documented (getDataRaw cfg r)

/-- outside the trigger the raw `get_data` IS the decoded-body `get_data` of section 1 -/
theorem raw_eq_getData (cfg : PyJson.Cfg) (r : Raw) (h : Supported_12 cfg r) :
    getDataRaw cfg r = getData (respOf cfg r) := by
  unfold Supported_12 decodeEscapes at h
  unfold getDataRaw getDataCall respOf jsonCall
  cases hl : PyJson.loads cfg r.content with
  | value j => by_cases hs : isSuccess r.status = true <;> simp [hs, getData, JsonCall.body]
  | valueError => by_cases hs : isSuccess r.status = true <;> simp [hs, getData, JsonCall.body]
  | raises x =>
    have hs : isSuccess r.status = false := by
      cases hh : isSuccess r.status with
      | false => rfl
      | true => simp [hl, hh] at h
    simp [hs, getData, JsonCall.body]

/-- inside the trigger the decoder's exception escapes, and it is `RecursionError` -/
theorem raw_escape (cfg : PyJson.Cfg) (r : Raw) (h : decodeEscapes cfg r = true) :
    getDataRaw cfg r = .internal PyJson.recursionError := by
  unfold decodeEscapes at h
  unfold getDataRaw getDataCall jsonCall
  cases hl : PyJson.loads cfg r.content with
  | value j => simp [hl] at h
  | valueError => simp [hl] at h
  | raises x =>
    have hx := PyJson.loads_raises cfg _ x hl
    subst hx
    cases hh : isSuccess r.status with
    | false => simp [hl, hh] at h
    | true => simp [hh]

/-- a body of `depthLimit + 1` opening brackets, under any 2xx status: `RecursionError` escapes -/
theorem deep_body_escapes (cfg : PyJson.Cfg) (status : Nat) (h2 : 200 ≤ status ∧ status ≤ 299) :
    getDataRaw cfg ⟨status, List.replicate (cfg.depthLimit + 1) 91⟩ = .internal "RecursionError" := by
  have hs : isSuccess status = true := by simp [isSuccess, h2]
  have := raw_escape cfg ⟨status, List.replicate (cfg.depthLimit + 1) 91⟩
    (by simp [decodeEscapes, hs]; rw [show (91 : Nat) = PyJson.lbr from rfl, PyJson.loads_deep])
  simpa [PyJson.recursionError] using this

theorem C12_full_false : ¬ C12_full := by
  intro hfull
  let cfg : PyJson.Cfg := ⟨1000, 4300⟩
  let r : Raw := ⟨200, List.replicate (cfg.depthLimit + 1) 91⟩
  have hl : PyJson.loads cfg r.content = .raises PyJson.recursionError := by
    show PyJson.loads cfg (List.replicate (cfg.depthLimit + 1) PyJson.lbr) = _
    exact PyJson.loads_deep cfg
  have hshape : SpecShaped (respOf cfg r) := by
    intro kvs e hb
    simp [respOf, jsonCall, hl, JsonCall.body] at hb
  have hesc := deep_body_escapes cfg 200 (by omega)
  have := hfull cfg r hshape
  simp [r, hesc, Documented, IsHttp, IsInvalid, IsMulti, IsData] at this

/-- The property outside the finding's trigger: exactly one documented outcome. -/
theorem C12_partial (cfg : PyJson.Cfg) (r : Raw) (hs : SpecShaped (respOf cfg r)) (hsup : Supported_12 cfg r) :
    ExactlyOne (getDataRaw cfg r) := by
  rw [raw_eq_getData cfg r hsup]
  exact exactly_one_outcome (respOf cfg r) hs

/-- theorem region ∪ trigger region = everything, and the trigger region is exactly the escape -/
theorem raw_outcome_cases (cfg : PyJson.Cfg) (r : Raw) :
    (decodeEscapes cfg r = true ∧ getDataRaw cfg r = .internal PyJson.recursionError) ∨
    (Supported_12 cfg r ∧ getDataRaw cfg r = getData (respOf cfg r)) := by
  by_cases h : decodeEscapes cfg r = true
  · exact Or.inl ⟨h, raw_escape cfg r h⟩
  · exact Or.inr ⟨h, raw_eq_getData cfg r h⟩

/-- the HTTP error needs no hypothesis at all: `json()` is not even called for a non-2xx status -/
theorem raw_http_iff (cfg : PyJson.Cfg) (r : Raw) (s : Nat) :
    getDataRaw cfg r = .http s ↔ (¬ (200 ≤ r.status ∧ r.status ≤ 299) ∧ s = r.status) := by
  rcases raw_outcome_cases cfg r with ⟨htr, hesc⟩ | ⟨hsup, heq⟩
  · have h2 : 200 ≤ r.status ∧ r.status ≤ 299 := by
      simp [decodeEscapes, isSuccess] at htr; exact htr.1
    simp [hesc, h2]
  · rw [heq]; exact http_error_iff (respOf cfg r) s

/-- which byte bodies are "not JSON" for `get_data`: the invalid-response error is raised exactly
    for a 2xx status when `json.loads` raises a `ValueError`, or returns something that is not an
    object carrying `data` or `errors` -/
theorem raw_invalid_iff (cfg : PyJson.Cfg) (r : Raw) :
    getDataRaw cfg r = .invalid ↔
      ((200 ≤ r.status ∧ r.status ≤ 299) ∧
        (PyJson.loads cfg r.content = .valueError ∨
          ∃ j, PyJson.loads cfg r.content = .value j ∧ BodyInvalid (some j))) := by
  rcases raw_outcome_cases cfg r with ⟨htr, hesc⟩ | ⟨hsup, heq⟩
  · simp only [decodeEscapes, Bool.and_eq_true] at htr
    cases hl : PyJson.loads cfg r.content with
    | raises x => simp [hesc]
    | value j => simp [hl] at htr
    | valueError => simp [hl] at htr
  · rw [heq, invalid_iff]
    cases hl : PyJson.loads cfg r.content with
    | value j => simp [respOf, jsonCall, hl, JsonCall.body, BodyInvalid]
    | valueError => simp [respOf, jsonCall, hl, JsonCall.body, BodyInvalid]
    | raises x =>
      have hno : ¬ (200 ≤ r.status ∧ r.status ≤ 299) := by
        intro h2; apply hsup; simp [decodeEscapes, isSuccess, h2, hl]
      simp [respOf, jsonCall, hl, JsonCall.body, BodyInvalid, hno]

/-- a body that is not valid UTF-8/16/32 is "not JSON" (`UnicodeDecodeError` is a `ValueError`) -/
theorem undecodable_body_is_invalid (cfg : PyJson.Cfg) (r : Raw) (h2 : 200 ≤ r.status ∧ r.status ≤ 299)
    (hd : PyJson.decodeBytes r.content = none) : getDataRaw cfg r = .invalid :=
  (raw_invalid_iff cfg r).mpr ⟨h2, Or.inl (PyJson.loads_undecodable cfg _ hd)⟩

/-- an integer literal over the interpreter's digit limit is "not JSON", for every limit -/
theorem long_int_body_is_invalid (cfg : PyJson.Cfg) (status n : Nat) (h2 : 200 ≤ status ∧ status ≤ 299)
    (h0 : cfg.intMaxDigits ≠ 0) (hn : cfg.intMaxDigits < n) :
    getDataRaw cfg ⟨status, List.replicate n 49⟩ = .invalid :=
  (raw_invalid_iff cfg ⟨status, List.replicate n 49⟩).mpr
    ⟨h2, Or.inl (by show PyJson.loads cfg (List.replicate n PyJson.one) = _; exact PyJson.loads_long_int cfg n h0 hn)⟩

/-- the only undocumented exceptions that can ever leave `get_data`, over all bytes -/
theorem raw_escape_names (cfg : PyJson.Cfg) (r : Raw) (x : String) (h : getDataRaw cfg r = .internal x) :
    x = "RecursionError" ∨ x = "KeyError" ∨ x = "TypeError" := by
  rcases raw_outcome_cases cfg r with ⟨_, hesc⟩ | ⟨_, heq⟩
  · rw [hesc] at h; simp [PyJson.recursionError] at h; exact Or.inl h.symm
  · rw [heq] at h; exact Or.inr (internal_exception_names _ x h)

/-- duplicate keys: the decoder keeps the LAST value (so `{"errors": [...], "errors": []}` reports no error) -/
theorem duplicate_key_last_wins (k : String) (v : J) (kvs : List (String × J)) :
    J.lookup k (PyJson.insertKv k v kvs) = some v ∧
      ∀ k2, k2 ≠ k → J.lookup k2 (PyJson.insertKv k v kvs) = J.lookup k2 kvs :=
  ⟨PyJson.lookup_insertKv_same k v kvs, fun k2 h => PyJson.lookup_insertKv_other k k2 v kvs h⟩

/-! ## 4. The exception objects: what they carry, what `str()` says -/

theorem http_error_carries (cfg : PyJson.Cfg) (r : Raw) (s : Nat) (h : getDataRaw cfg r = .http s) :
    excOf r (getDataRaw cfg r) = some (.http r.status r) ∧
      (Exc.http r.status r).str = .ok ("HTTP status code: " ++ toString r.status) := by
  have := (raw_http_iff cfg r s).mp h
  rw [h]
  simp [excOf, this.2, Exc.str, httpPrefix]

theorem invalid_error_carries (cfg : PyJson.Cfg) (r : Raw) (h : getDataRaw cfg r = .invalid) :
    excOf r (getDataRaw cfg r) = some (.invalid r) ∧ (Exc.invalid r).str = .ok "Invalid response format." := by
  rw [h]; simp [excOf, Exc.str, invalidText]

theorem strAll_ok_iff (es : List GqlErr) (ss : List String) :
    strAll es = .ok ss ↔ es.map (·.message) = ss.map J.str := by
  induction es generalizing ss with
  | nil => cases ss <;> simp [strAll]
  | cons g gs ih =>
    cases hm : g.message with
    | str m =>
      cases hr : strAll gs with
      | error x =>
        have := ih
        cases ss with
        | nil => simp [strAll, GqlErr.str, hm, hr]
        | cons t ts =>
          have h' := (ih ts)
          rw [hr] at h'
          simp at h'
          simp [strAll, GqlErr.str, hm, hr]
          intro _; exact h'
      | ok rs =>
        cases ss with
        | nil => simp [strAll, GqlErr.str, hm, hr]
        | cons t ts =>
          have h' := (ih ts)
          rw [hr] at h'
          simp at h'
          simp [strAll, GqlErr.str, hm, hr, h']
    | null => cases ss <;> simp [strAll, GqlErr.str, hm]
    | bool _ => cases ss <;> simp [strAll, GqlErr.str, hm]
    | num _ _ => cases ss <;> simp [strAll, GqlErr.str, hm]
    | arr _ => cases ss <;> simp [strAll, GqlErr.str, hm]
    | obj _ => cases ss <;> simp [strAll, GqlErr.str, hm]

theorem strAll_error (es : List GqlErr) (x : String) (h : strAll es = .error x) : x = "TypeError" := by
  induction es with
  | nil => simp [strAll] at h
  | cons g gs ih =>
    cases hm : g.message <;> simp [strAll, GqlErr.str, hm] at h
    case str m =>
      cases hr : strAll gs with
      | error y => simp [hr] at h; subst h; exact ih hr
      | ok rs => simp [hr] at h
    all_goals exact h.symm

/-- `str()` of the multi-error is the `"; "`-joined messages — exactly when every message IS a
    string; otherwise `str()` itself raises `TypeError` (`__str__ returned non-string`) -/
theorem multi_str {R : Type} (es : List GqlErr) (d : J) :
    (∀ s, (Exc.multi (R := R) es d).str = .ok s ↔
        ∃ ss, es.map (·.message) = ss.map J.str ∧ s = "; ".intercalate ss) ∧
    (∀ x, (Exc.multi (R := R) es d).str = .error x → x = "TypeError") := by
  constructor
  · intro s
    cases hr : strAll es with
    | ok rs =>
      have h1 := (strAll_ok_iff es rs).mp hr
      simp only [Exc.str, hr, multiSep, Except.ok.injEq]
      constructor
      · intro h; exact ⟨rs, h1, h.symm⟩
      · rintro ⟨ss, hss, rfl⟩
        have := (strAll_ok_iff es ss).mpr hss
        rw [hr] at this
        cases this; rfl
    | error x =>
      simp only [Exc.str, hr]
      constructor
      · intro h; cases h
      · rintro ⟨ss, hss, -⟩
        have := (strAll_ok_iff es ss).mpr hss
        rw [hr] at this; cases this
  · intro x h
    cases hr : strAll es with
    | ok rs => simp [Exc.str, hr] at h
    | error y => simp [Exc.str, hr] at h; subst h; exact strAll_error es _ hr

/-! ## 5. The generated method -/

open Ariadne.MethodTail

theorem lookup_assign_same {R : Type} (n : String) (v : Val R) (env : Env R) :
    MethodTail.lookup n (assign n v env) = some v := by
  induction env with
  | nil => simp [assign, MethodTail.lookup]
  | cons p rest ih =>
    obtain ⟨k, w⟩ := p
    by_cases h : k = n
    · simp [assign, MethodTail.lookup, h]
    · simp [assign, MethodTail.lookup, h, ih]

/-- any body whose `get_data` argument is the response target and whose `model_validate` argument
    is the data target does what the property demands, in every scope -/
theorem run_of_names {R V : Type} (b : Body) (h1 : b.getDataArg = b.respTarget) (h2 : b.validateArg = b.dataTarget)
    (gd : R → Outcome) (validate : J → Option V) (env0 : Env R) (r : R) :
    run b gd validate env0 r = expected gd validate r := by
  unfold run expected
  simp only [h1, h2, lookup_assign_same]

/-- THE GENERATED METHOD, for every parameter list (so for every renaming `get_variable_names`
    performs: `query/_query`, `variables/_variables`, `response/_response`, `data/_data`), every
    `get_data`, every validator, every response and every scope: its outcome is `get_data`'s outcome,
    then validation of exactly the data `get_data` returned. -/
theorem method_outcome {R V : Type} (params : List String) (gd : R → Outcome) (validate : J → Option V)
    (env0 : Env R) (r : R) :
    run (emit params) gd validate env0 r = expected gd validate r :=
  run_of_names (emit params) rfl rfl gd validate env0 r

/-- the three clauses of the property's last sentence, spelled out -/
theorem method_clauses {R V : Type} (params : List String) (gd : R → Outcome) (validate : J → Option V)
    (env0 : Env R) (r : R) :
    (∀ o, gd r = o → (∀ d, o ≠ .data d) → run (emit params) gd validate env0 r = .raised o) ∧
    (∀ d, gd r = .data d → validate d = none → run (emit params) gd validate env0 r = .validationError) ∧
    (∀ d v, gd r = .data d → validate d = some v → run (emit params) gd validate env0 r = .returned v) := by
  rw [method_outcome]
  refine ⟨?_, ?_, ?_⟩
  · intro o ho hne
    unfold expected
    rw [ho]
    cases o with
    | data d => exact absurd rfl (hne d)
    | _ => simp
  · intro d hd hv; simp [expected, hd, hv]
  · intro d v hd hv; simp [expected, hd, hv]

/-- instantiated with the raw `get_data`: what a generated method makes of status + body bytes -/
theorem generated_method_on_bytes {V : Type} (cfg : PyJson.Cfg) (params : List String) (validate : J → Option V) (r : Raw) :
    run (emit params) (getDataRaw cfg) validate (initEnv params) r = expected (getDataRaw cfg) validate r :=
  method_outcome params (getDataRaw cfg) validate (initEnv params) r

theorem loop_of_names {R V : Type} (b : SubBody) (h : b.yieldArg = b.loopTarget) (validate : J → Option V)
    (fin : StreamEnd) (items : List J) : ∀ env : Env R, loop b validate fin env items = expectedSub validate fin items := by
  induction items with
  | nil => intro env; simp [loop, expectedSub]
  | cons d ds ih =>
    intro env
    simp only [loop, expectedSub, h, lookup_assign_same]
    cases validate d with
    | none => rfl
    | some v => simp only [ih]

/-- the generated subscription method yields the validated model of every item, in order, up to
    the first item the model class rejects, and ends as the stream ends — for every parameter list -/
theorem subscription_method_outcome {R V : Type} (params : List String) (validate : J → Option V)
    (env0 : Env R) (items : List J) (fin : StreamEnd) :
    runSub (emitSub params) validate env0 items fin = expectedSub validate fin items := by
  unfold runSub
  exact loop_of_names (emitSub params) rfl validate fin items _

/-- non-vacuity of the renaming: with a parameter called `data`, a body that forgot the renaming
    in the last position validates the caller's argument instead (what `misapplied` records) -/
example (gd : Unit → Outcome) (validate : J → Option Nat) (d : J) (h : gd () = .data d) :
    run ⟨"query", "variables", "response", "response", "_data", "data"⟩ gd validate (initEnv ["data"]) () =
      .misapplied "model_validate" := by
  simp [run, MethodTail.lookup, assign, initEnv, ClientMethod.selfName, h]

example : emit ["query", "data"] = ⟨"_query", "variables", "response", "response", "_data", "_data"⟩ := by decide
example : emit [] = ⟨"query", "variables", "response", "response", "data", "data"⟩ := by decide

/-! ### Non-vacuity and concrete byte bodies (tests, not theorems) -/

def cfg0 : PyJson.Cfg := ⟨1000, 4300⟩

/-- `{"errors": [{"message": "x"}], "data": null}` as bytes -/
def exBytes : List Nat :=
  [123, 34, 101, 114, 114, 111, 114, 115, 34, 58, 32, 91, 123, 34, 109, 101, 115, 115, 97, 103, 101, 34, 58, 32, 34, 120, 34,
   125, 93, 44, 32, 34, 100, 97, 116, 97, 34, 58, 32, 110, 117, 108, 108, 125]

example : respOf cfg0 ⟨200, exBytes⟩ =
    ⟨200, some (.obj [("errors", .arr [.obj [("message", .str "x")]]), ("data", .null)])⟩ := by rfl

example : Supported_12 cfg0 ⟨200, exBytes⟩ := by unfold Supported_12; decide

example : SpecShaped (respOf cfg0 ⟨200, exBytes⟩) := by
  intro kvs e hb he
  have hr : respOf cfg0 ⟨200, exBytes⟩ =
      ⟨200, some (.obj [("errors", .arr [.obj [("message", .str "x")]]), ("data", .null)])⟩ := by rfl
  rw [hr] at hb
  simp only [Option.some.injEq, J.obj.injEq] at hb
  subst hb
  simp [J.lookup] at he
  subst he
  exact ⟨[.obj [("message", .str "x")]], rfl, by simp [ErrShaped, J.lookup]⟩

example : getDataRaw cfg0 ⟨200, exBytes⟩ = .multi [errOf [("message", .str "x")] (.str "x")] .null := by rfl
example : getDataRaw cfg0 ⟨404, exBytes⟩ = .http 404 := by rfl

/-- the decoding glue on concrete bodies: which are "not JSON" -/
example : getDataRaw cfg0 ⟨200, []⟩ = .invalid := by rfl                                     -- empty body
example : getDataRaw cfg0 ⟨200, [255, 254, 123]⟩ = .invalid := by rfl                        -- truncated UTF-16
example : getDataRaw cfg0 ⟨200, [34, 233, 34]⟩ = .invalid := by rfl                          -- latin-1 `"é"`
example : PyJson.loads cfg0 [78, 97, 78] = .value (PyJson.nonFinite "nan") := by rfl        -- `NaN` IS JSON here
example : PyJson.loads cfg0 [110, 97, 110] = .valueError := by rfl                          -- `nan` is not
example : PyJson.loads cfg0 [45, 73, 110, 102, 105, 110, 105, 116, 121] = .value (PyJson.nonFinite "-inf") := by rfl
example : PyJson.loads cfg0 [49, 101, 57, 57, 57] = .value (PyJson.nonFinite "inf") := by rfl   -- `1e999`
-- `{"a":1,"a":2}`: the last value wins
example : PyJson.loads cfg0 [123, 34, 97, 34, 58, 49, 44, 34, 97, 34, 58, 50, 125] = .value (.obj [("a", .num 2 0)]) := by rfl
-- an integer literal one digit over the limit is "not JSON"; nesting one level over the limit escapes
example : getDataRaw cfg0 ⟨200, List.replicate 4301 49⟩ = .invalid :=
  long_int_body_is_invalid cfg0 200 4301 (by omega) (by decide) (by decide)
example : getDataRaw cfg0 ⟨201, List.replicate 1001 91⟩ = .internal "RecursionError" :=
  deep_body_escapes cfg0 201 (by omega)

/-- non-shaped but falsy: `{"errors": null}` returns `None` -/
example : getData ⟨200, some (.obj [("errors", .null)])⟩ = .data .null :=
  falsy_errors_return_data ⟨200, some (.obj [("errors", .null)])⟩ [("errors", .null)] .null (by decide) rfl rfl rfl

/-- `str()` of a multi-error: joined messages, or `TypeError` when a message is not a string -/
example : (Exc.multi (R := Unit) [⟨.str "a", .null, .null, .null, .null⟩, ⟨.str "b", .null, .null, .null, .null⟩] .null).str = .ok "a; b" := by rfl
example : (Exc.multi (R := Unit) [] .null).str = .ok "" := by rfl
example : (Exc.multi (R := Unit) [⟨.str "a", .null, .null, .null, .null⟩, ⟨.null, .null, .null, .null, .null⟩] .null).str = .error "TypeError" := by rfl
example : (Exc.http 404 ()).str = .ok "HTTP status code: 404" := by rfl

/-! ### Non-vacuity: concrete spec-shaped responses hitting each outcome -/

def exErr : J := .obj [("message", .str "boom"), ("path", .arr [.str "a"])]
def exBody : J := .obj [("data", .obj [("a", .null)]), ("errors", .arr [exErr])]

example : SpecShaped ⟨200, some exBody⟩ := by
  intro kvs e hb he
  simp only [exBody, Option.some.injEq, J.obj.injEq] at hb
  subst hb
  simp [J.lookup] at he
  subst he
  exact ⟨[exErr], rfl, by simp [exErr, ErrShaped, J.lookup]⟩

example : getData ⟨200, some exBody⟩ =
    .multi [errOf [("message", .str "boom"), ("path", .arr [.str "a"])] (.str "boom")]
      (.obj [("a", .null)]) := by
  simp [getData, isSuccess, exBody, exErr, J.hasKey, J.lookup, J.getD, J.truthy, fromErrorsDicts,
    fromDicts, fromDict, errOf]
example : getData ⟨503, some exBody⟩ = .http 503 := by simp [getData, isSuccess]
example : getData ⟨200, none⟩ = .invalid := by simp [getData, isSuccess]
example : getData ⟨204, some (.obj [("data", .num 1 0)])⟩ = .data (.num 1 0) := by
  simp [getData, isSuccess, J.hasKey, J.lookup, J.getD, J.truthy]

/-- Outside the hypothesis the property is *not* claimed: a non-spec-shaped `errors` escapes as a
    bare `KeyError`/`TypeError` (recorded as an observation, DESIGN.md §3 C12). -/
example : getData ⟨200, some (.obj [("errors", .arr [.obj []])])⟩ = .internal "KeyError" := by
  simp [getData, isSuccess, J.hasKey, J.lookup, J.getD, J.truthy, fromErrorsDicts, fromDicts, fromDict]

end Ariadne.C12
