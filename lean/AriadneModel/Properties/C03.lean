/- C03 (work in progress: statements follow) -/
import AriadneModel.Model.ArgSend
import AriadneModel.Model.ArgFindings

namespace Ariadne.C03
end Ariadne.C03
