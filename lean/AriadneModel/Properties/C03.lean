/-
  C03 — Method arguments arrive at the server as the declared variables.

  Statements + final proofs.  Models: Model/Arguments.lean (`ArgumentsGenerator`), Model/ClientMethod.lean
  (`add_method`, `get_variable_names`), Model/InputFields.lean (attributes of generated input classes),
  Model/ArgValues.lean (caller values, what they mean), Model/ArgSend.lean (the emitted method body and
  the composition with the base client), Model/BaseClient.lean (`_convert_*`, shared with C11),
  Model/ArgConstruct.lean (class-level defaults of the generated input classes per schema SOURCE —
  `parse_input_field_default_value(node=field.ast_node, …)` — and where the caller's input-model
  instances come from).
  Reference semantics (modelled, validated, not verified): Spec/PyCall.lean (CPython def / call binding),
  Spec/PydLog.lean (pydantic `model_dump(by_alias, exclude_unset)`), Spec/PydInit.lean (pydantic
  `Cls(**kw)` with `populate_by_name`), Spec/Coerce.lean (graphql-core variable coercion).
  Lemmas: Proofs/Coerce.lean, Proofs/ArgValues.lean, Proofs/ArgCall.lean, Proofs/ArgDeliver.lean,
  Proofs/ArgConstruct.lean, Proofs/ArgHeap.lean.  Model/ArgHeap.lean (round 4): the caller's lists and
  instances as OBJECTS, `_convert_value` statement by statement, programs = calls interleaved with the
  caller's own assignments (§1c: frame, denotation, every call sees the current values).

  Quantification: every configuration (schema view, schema source `schema_path` / `remote_schema_url`,
  custom-scalar section, snake-casing on/off,
  sync/async), every list of variable definitions (any wrapper nesting, defaults, any names), every
  user `serialize` function (`UserFns`), every caller assignment — value trees of unbounded size and
  depth: scalars, enum members, custom-scalar values, lists, (nested, recursive) input-model
  instances with set/unset fields, `None`, omitted.

  Reading decisions (DESIGN.md §3.0): "schema-valid Python arguments" = `argsValid` (`hasType`);
  "delivers exactly the caller's values" = graphql-core's coercion of the sent `variables` object
  returns `intendedVars`: per given variable the caller's value under the original names (enum
  members by name, custom scalars as `serialize(value)` when configured), unset input fields /
  omitted variables replaced by the schema's default where one is declared and absent otherwise.
  "every call … with schema-valid Python arguments (… nested generated input models …)" includes that
  the schema-valid value EXISTS as a Python argument: every instance in it is what its generated class
  returns for some keywords (`ConstructibleArgs`; round 3 — until then the trees were taken as given
  and the class-level defaults were compared by the correspondence only).

  The property is FALSE as written (`C03_full_false`): nine findings, one decidable trigger each
  (Model/ArgFindings.lean; Model/ArgConstruct.lean for C03-F9).  Outside the triggers it is proved
  (`C03_partial`).  Named narrowing `Proved_03` (not a finding of C03; the constructibility conjunct
  only): no two attributes of one generated input class share a name or alias — the complement is the
  region of the naming findings C18-F1…F5, F7 = C06-F7, which this check does not generate.
-/
import AriadneModel.Proofs.ArgDeliver
import AriadneModel.Proofs.ArgConstruct
import AriadneModel.Proofs.ArgConstructEx
import AriadneModel.Proofs.ArgHeap
import AriadneModel.Proofs.ArgHeapEx

set_option linter.unusedSimpArgs false
set_option linter.unusedVariables false

namespace Ariadne.C03
open Ariadne Ariadne.Scalars Ariadne.Coerce Ariadne.ArgValues Ariadne.ArgSend Ariadne.Arguments Ariadne.ClientMethod
open Ariadne.ArgFindings Ariadne.ArgProofs Ariadne.ArgConstruct Ariadne.PydInit Ariadne.ArgProofs.F9
open Ariadne.BaseClient (PV)

/-! ## 0. Vocabulary of the statements -/

/-- the variable definitions as the server sees them -/
def idefs (defs : List VarDecl) : List IField := defs.map (·.toIField)
/-- … and as the generator sees them -/
def vdefs (defs : List VarDecl) : List VarDef := defs.map (·.toVarDef)

/-- What GraphQL validation and a sane configuration guarantee (hypotheses of every theorem):
    input-type fields and the operation's variables have pairwise distinct names, every variable has
    an input type, no configured scalar is named like a built-in one, `serialize` never returns null. -/
structure Valid_03 (cfg : Cfg) (fns : UserFns) (defs : List VarDecl) : Prop where
  hyp : Hyp cfg fns
  inputTypes : ∀ d ∈ defs, isInputType cfg.schema d.type.base = true
  varNames : (defs.map (·.name)).Nodup

/-- one trigger per open finding of findings.d/C03.json -/
def Supported_03 (cfg : Cfg) (defs : List VarDecl) : Prop :=
  ¬ (trigSelf cfg.snake (vdefs defs) = true            -- C03-F2
   ∨ trigKwargs cfg.snake (vdefs defs) = true          -- C03-F3
   ∨ trigMerge cfg.snake (vdefs defs) = true           -- C03-F4
   ∨ trigQueryClobber cfg.snake (vdefs defs) = true    -- C03-F1
   ∨ trigShadow (envOf cfg) (vdefs defs) = true        -- C03-F6
   ∨ trigMangled cfg.snake (vdefs defs) = true         -- C03-F8
   ∨ trigSerializeNullable (envOf cfg) (vdefs defs) = true   -- C03-F5 (= C07-F1)
   ∨ trigSerializeList (envOf cfg) (vdefs defs) = true)      -- C03-F7 (= C07-F2)

instance (cfg : Cfg) (defs : List VarDecl) : Decidable (Supported_03 cfg defs) := by
  unfold Supported_03; infer_instance

theorem supported_iff (cfg : Cfg) (defs : List VarDecl) :
    Supported_03 cfg defs ↔ anyTrigger (envOf cfg) (vdefs defs) = false := by
  simp only [Supported_03, anyTrigger, vdefs, envOf, not_or, Bool.or_eq_false_iff, Bool.not_eq_true]
  constructor
  · rintro ⟨a, b, c, d, e, m, f, g⟩; exact ⟨⟨⟨⟨⟨⟨⟨a, b⟩, c⟩, d⟩, e⟩, m⟩, f⟩, g⟩
  · rintro ⟨⟨⟨⟨⟨⟨⟨a, b⟩, c⟩, d⟩, e⟩, m⟩, f⟩, g⟩; exact ⟨a, b, c, d, e, m, f, g⟩

/-- The property for one call `a` of the method generated for `defs`. -/
structure Delivered (cfg : Cfg) (fns : UserFns) (async : Bool) (opName opText : String)
    (defs : List VarDecl) (a : List AV) : Prop where
  /-- the package imports, the call binds, a request is sent … -/
  sent : ∃ req, send (envOf cfg) fns async opName opText defs a = .ok req ∧
    /- … whose `variables` spec-conformant coercion accepts, delivering exactly the caller's values -/
    coerceVars cfg.schema (idefs defs) req.variables = .ok (intendedVars cfg fns (idefs defs) a) ∧
    /- the keys of the payload are the original GraphQL names of exactly the arguments passed
       (so omitted optional arguments are absent) -/
    req.variables.map (·.1) = givenNames (idefs defs) a ∧
    /- explicit None travels as null -/
    (∀ dv ∈ (idefs defs).zip a, dv.2.isNone = true → (dv.1.name, J.null) ∈ req.variables)

/-- "a required variable cannot be omitted": the call raises TypeError, nothing is sent -/
def RequiredEnforced (cfg : Cfg) (fns : UserFns) (async : Bool) (opName opText : String)
    (defs : List VarDecl) (a : List AV) : Prop :=
  ∀ d v, (d, v) ∈ defs.zip a → isNonNull d.type = true → v.isUnset = true →
    ∃ msg, send (envOf cfg) fns async opName opText defs a = .error (.python (.typeError msg))

/-- the value-level trigger (C03-F9 = C06-F8 = C19-F1 seen from a call): the schema was obtained by
    introspection and an instance among the arguments leaves unset a non-null field that has a schema
    default -/
def Supported_03v (src : Source) (cfg : Cfg) (a : List AV) : Prop :=
  ¬ (trigDefaultLostIntro src cfg a = true)

instance (src : Source) (cfg : Cfg) (a : List AV) : Decidable (Supported_03v src cfg a) := by
  unfold Supported_03v; infer_instance

/-- named narrowing of the constructibility theorems (not a finding of C03: the complement is the region
    of C18-F1…F5, F7 = C06-F7, two fields of one input type sharing a Python name) -/
def Proved_03 (cfg : Cfg) : Prop := ClassNamesClean cfg

/-- C03 at full strength, in the words of properties.jsonl: for every operation and every call with
    schema-valid arguments — which exist as Python values whichever way the schema was obtained — the
    variables are accepted and delivered, omitted/unset are absent, None is null, and a required
    variable cannot be omitted. -/
def C03_full : Prop :=
  ∀ (src : Source) (cfg : Cfg) (fns : UserFns) (async : Bool) (opName opText : String) (defs : List VarDecl) (a : List AV),
    Valid_03 cfg fns defs →
      (argsValid cfg (idefs defs) a = true →
        ConstructibleArgs src cfg a ∧ Delivered cfg fns async opName opText defs a) ∧
      (defs.length = a.length → objsOK fns a → RequiredEnforced cfg fns async opName opText defs a)

/-! ## 1. The theorems (must tier) -/

/-- `vars_delivered`: outside the finding triggers, for every schema-valid assignment the sent
    variables are coerced by the server to exactly the intended values. -/
theorem vars_delivered (cfg : Cfg) (fns : UserFns) (async : Bool) (opName opText : String)
    (defs : List VarDecl) (a : List AV)
    (hv : Valid_03 cfg fns defs) (hs : Supported_03 cfg defs) (ha : argsValid cfg (idefs defs) a = true) :
    ∃ req, send (envOf cfg) fns async opName opText defs a = .ok req ∧ req.query = opText ∧
      coerceVars cfg.schema (idefs defs) req.variables = .ok (intendedVars cfg fns (idefs defs) a) := by
  obtain ⟨req, h1, h2, _, h4⟩ := send_delivers cfg fns hv.hyp defs a opName opText "Client" async hv.inputTypes hv.varNames
    ((supported_iff cfg defs).mp hs) ha
  exact ⟨req, h1, h2, h4⟩

/-- `vars_keys_original` + "omitted optional ⇒ key absent" + "None ⇒ null". -/
theorem vars_keys_original (cfg : Cfg) (fns : UserFns) (async : Bool) (opName opText : String)
    (defs : List VarDecl) (a : List AV)
    (hv : Valid_03 cfg fns defs) (hs : Supported_03 cfg defs) (ha : argsValid cfg (idefs defs) a = true) :
    ∃ req, send (envOf cfg) fns async opName opText defs a = .ok req ∧
      req.variables.map (·.1) = givenNames (idefs defs) a ∧
      (∀ dv ∈ (idefs defs).zip a, dv.2.isNone = true → (dv.1.name, J.null) ∈ req.variables) := by
  obtain ⟨req, h1, _, h3, _⟩ := send_delivers cfg fns hv.hyp defs a opName opText "Client" async hv.inputTypes hv.varNames
    ((supported_iff cfg defs).mp hs) ha
  obtain ⟨k1, k2⟩ := payload_shape cfg fns (idefs defs) a req.variables h3
  exact ⟨req, h1, k1, k2⟩

/-- an omitted argument's variable name is not a key of the payload (variable names are distinct) -/
theorem omitted_absent (ds : List IField) (vs : List AV) (hnd : (names ds).Nodup) :
    ∀ dv ∈ ds.zip vs, dv.2.isUnset = true → dv.1.name ∉ givenNames ds vs := by
  induction ds generalizing vs with
  | nil => intro dv h; simp at h
  | cons d ds ih =>
    cases vs with
    | nil => intro dv h; simp at h
    | cons v vs =>
      simp only [names, List.map_cons, List.nodup_cons] at hnd
      have hsub : ∀ n ∈ givenNames ds vs, n ∈ ds.map (·.name) := by
        intro n
        clear ih hnd
        induction ds generalizing vs with
        | nil => cases vs <;> simp [givenNames]
        | cons e ds ih2 =>
          cases vs with
          | nil => simp [givenNames]
          | cons w vs =>
            by_cases hw : w.isUnset = true
            · simp only [givenNames, hw, if_true]; intro h; exact List.mem_cons_of_mem _ (ih2 vs h)
            · have hw' : w.isUnset = false := by simpa using hw
              simp only [givenNames, hw', Bool.false_eq_true, if_false, List.mem_cons, List.map_cons]
              intro h
              rcases h with h | h
              · exact Or.inl h
              · exact Or.inr (ih2 vs h)
      intro dv hm hu
      simp only [List.zip_cons_cons, List.mem_cons] at hm
      rcases hm with hm | hm
      · subst hm
        simp only at hu
        simp only [givenNames, hu, if_true]
        exact fun h => hnd.1 (hsub _ h)
      · have hrec := ih vs hnd.2 dv hm hu
        have hne : dv.1.name ≠ d.name := by
          intro e; apply hnd.1; rw [← e]; exact List.mem_map_of_mem (List.of_mem_zip hm).1
        by_cases hv : v.isUnset = true
        · simpa [givenNames, hv] using hrec
        · have hv' : v.isUnset = false := by simpa using hv
          simp only [givenNames, hv', Bool.false_eq_true, if_false, List.mem_cons, not_or]
          exact ⟨hne, hrec⟩

/-- unset input fields are absent at every depth: whatever model instance is dumped (top level, in
    a list, as a field of another instance), its dump has exactly the keys of its SET fields, and
    those keys are the original GraphQL field names. -/
theorem unset_fields_absent (fns : UserFns) (fields : List (FieldKey × AV)) (kvs : List (String × PV))
    (calls : List Call) (h : PydLog.dumpFields fns fields = .ok (kvs, calls)) :
    kvs.map (·.1) = setKeys fields := dump_keys fns fields kvs calls h

theorem field_key_original (cfg : Cfg) (f : IField) : (fieldKeyOf cfg f).key = f.name := fieldKey_key cfg f

/-- a required variable cannot be omitted (`bindCall` fails with TypeError before anything is sent) -/
theorem required_cannot_be_omitted (cfg : Cfg) (fns : UserFns) (async : Bool) (opName opText : String)
    (defs : List VarDecl) (a : List AV)
    (hv : Valid_03 cfg fns defs) (hs : Supported_03 cfg defs) (hlen : defs.length = a.length) (hobj : objsOK fns a) :
    RequiredEnforced cfg fns async opName opText defs a := by
  intro d v hd hreq hu
  exact send_required_omitted cfg fns hv.hyp defs a opName opText "Client" async hv.inputTypes
    ((supported_iff cfg defs).mp hs) hobj hlen d v hd hreq hu

/-- the value-level core (induction over the input-value tree): a schema-valid value inside an
    input model, dumped under the generated annotation and written as JSON, coerces at its GraphQL
    type to the intended value -/
theorem value_delivered (cfg : Cfg) (fns : UserFns) (hy : Hyp cfg fns) (inh : Bool) (t : GT) (v : AV)
    (ht : hasType cfg t v = true)
    (hc : annConf (InputFields.parseType cfg.scalars (InputFields.kindOf cfg.schema) inh t) v = true) :
    ∃ p calls w, PydLog.dumpAnn fns (InputFields.parseType cfg.scalars (InputFields.kindOf cfg.schema) inh t) v = .ok (p, calls) ∧
      BaseClient.toJson p = some w ∧ coerce cfg.schema t w = .ok (intended cfg fns v) := by
  obtain ⟨p, calls, hd, _, _, w, hj, hco⟩ := dump_good cfg fns hy inh t v ht hc
  exact ⟨p, calls, w, hd, hj, hco⟩

/-! ## 1b. Where the caller's input-model arguments come from (round 3)

  The generated class per schema source, pydantic's `__init__`, and which schema-valid values exist. -/

/-- the class-level default decides: an attribute of the class generated from a `src` schema demands
    a value exactly when the field is non-null and — for the SDL source — declares no default;
    a class generated from an introspected schema demands every non-null field (the default is read
    from `field.ast_node`, which introspection does not provide) -/
theorem class_field_required (src : Source) (cfg : Cfg) (f : IField) :
    (classField src cfg f).required =
      (match src with
       | .sdl => f.default.isNone && f.type.nonNull
       | .intro => f.type.nonNull) := classField_required src cfg f

/-- dump key and annotation of the attribute do not depend on the source (so `send` does not) -/
theorem class_field_key (src : Source) (cfg : Cfg) (f : IField) :
    (classField src cfg f).fieldKey = fieldKeyOf cfg f := classField_fieldKey src cfg f

/-- pydantic's `__init__` on ANY class whose lookup names are pairwise distinct: the instances it can
    return are exactly those that fit the class (keys/annotations of the class, accepted values in
    the set fields, a class-level default behind every unset field) -/
theorem instance_constructible_iff (cs : List InitField) (inst : List (FieldKey × AV))
    (hnd : (lookupNamesOf cs).Nodup) :
    (∃ kw, initModel cs kw = .ok inst) ↔ fitsClass cs inst = true := init_iff_fits cs inst hnd

/-- … and the keywords that build it may use the attribute name or the alias, field by field
    (`populate_by_name=True`) -/
theorem keywords_build_instance (bs : List Bool) (cs : List InitField) (inst : List (FieldKey × AV))
    (hnd : (lookupNamesOf cs).Nodup) (hf : fitsClass cs inst = true) :
    initModel cs (kwFor bs cs inst) = .ok inst :=
  (initModel_ok_iff cs _ inst).mpr (init_builds_fields bs cs inst hnd hf)

/-- a required attribute that the keywords do not mention: `ValidationError` (missing), wherever
    the attribute stands in the class and whatever else is passed -/
theorem required_field_cannot_be_left_out (cs : List InitField) (kw : List (String × AV)) (c : InitField)
    (hc : c ∈ cs) (hr : c.required = true) (hl : lookupField c kw = none) :
    ∃ e, initModel cs kw = .error e ∧ c.key ∈ e.missing := init_required_left_out cs kw c hc hr hl

/-- `args_constructible`: a schema-valid assignment exists as Python arguments exactly when it is
    outside the trigger of C03-F9 (the trigger is exact: inside it the value can NOT be built) -/
theorem args_constructible (src : Source) (cfg : Cfg) (defs : List VarDecl) (a : List AV)
    (hp : Proved_03 cfg) (ha : argsValid cfg (idefs defs) a = true) :
    ConstructibleArgs src cfg a ↔ Supported_03v src cfg a := by
  rw [args_constructible_iff src cfg hp (idefs defs) a ha]
  simp [Supported_03v]

/-- for a schema read from SDL every schema-valid assignment can be built -/
theorem sdl_args_constructible (cfg : Cfg) (defs : List VarDecl) (a : List AV)
    (hp : Proved_03 cfg) (ha : argsValid cfg (idefs defs) a = true) : ConstructibleArgs .sdl cfg a :=
  (args_constructible .sdl cfg defs a hp ha).mpr (by simp [Supported_03v, trig_sdl])

/-! ## 1c. Sequences of calls over the caller's own objects (round 4)

  "Every call" includes the second call with a list of input models the first call has already
  seen, after the caller updated one of them.  Model/ArgHeap.lean: the caller's lists and instances
  are objects in a store, `_convert_value` is modelled statement by statement on it. -/

section Sequences
open Ariadne.ArgHeap

/-- frame: `_convert_value` (as it is in the four base clients) never writes an object that existed
    before the call — whatever the aliasing and nesting of the caller's lists and instances -/
theorem convert_value_frame (fns : UserFns) (f : Nat) (v : CVal) (s : CStore) (r : PVal) (s' : CStore)
    (h : convertValueC fns f v s = some (r, s')) :
    s.length ≤ s'.length ∧ ∀ a, a < s.length → s'[a]? = s[a]? := convertValueC_keeps fns f v s r s' h

/-- what it returns denotes the value-level `convertValue` of the Python object the argument denotes
    (the function `send` is stated with), for every tree of depth ≤ `f` -/
theorem convert_value_denotes (fns : UserFns) (f : Nat) (v : CVal) (s : CStore) (av : AV) (o : PV) (c : List Call)
    (hd : derefC s f v = some av) (ho : objOf fns av = .ok (o, c)) :
    ∃ r s', convertValueC fns f v s = some (r, s') ∧ derefP s' f r = some (BaseClient.convertValue o) := by
  obtain ⟨r, s', h1, _, h3⟩ := convertValueC_spec fns f v s av o c hd ho
  exact ⟨r, s', h1, h3⟩

/-- `calls_see_current_values`: in every program (calls interleaved with attribute assignments, item
    assignments and appends, any sharing of objects between arguments and between calls) every call
    sends what its arguments denote at that moment — the run on the store the base client really
    leaves behind is the run in which calls touch nothing -/
theorem calls_see_current_values (env : Arguments.Env) (fns : UserFns) (async : Bool) (fuel : Nat) (s : CStore)
    (steps : List Step) (hall : ∀ r ∈ runIdeal env fns async fuel s steps, r.isSome = true) :
    runC env fns async fuel s steps = runIdeal env fns async fuel s steps :=
  runC_eq_ideal env fns async fuel s steps hall

/-- … and after the program the caller's objects are what the caller's own statements made of them -/
theorem caller_objects_untouched (fns : UserFns) (fuel : Nat) (s : CStore) (steps : List Step) :
    ∀ a, a < (callerStore s steps).length →
      (storeWith (convertValueC fns fuel) s steps)[a]? = (callerStore s steps)[a]? :=
  (storeWith_inv (convertValueC fns fuel) (convertValueC_keeps fns fuel) steps s s (Keeps.refl s)).2

/-- the ideal run, unfolded: a call is the value-level `send` of the tree its arguments denote in
    the store the caller's statements have produced so far -/
theorem runIdeal_call (env : Arguments.Env) (fns : UserFns) (async : Bool) (fuel : Nat) (s : CStore) (c : CallStep)
    (rest : List Step) :
    runIdeal env fns async fuel s (.call c :: rest) =
      (derefArgs s fuel c.args).map (fun avs => send env fns async c.opName c.opText c.defs avs) ::
        runIdeal env fns async fuel s rest := by
  simp [runIdeal, runWith, storeAfter_ideal, requestOf]

/-- so every call of a program delivers the values the caller's objects hold at that moment -/
theorem sequence_call_delivers (cfg : Cfg) (fns : UserFns) (async : Bool) (fuel : Nat) (s : CStore) (c : CallStep) (avs : List AV)
    (hv : Valid_03 cfg fns c.defs) (hs : Supported_03 cfg c.defs)
    (hd : derefArgs s fuel c.args = some avs) (ha : argsValid cfg (idefs c.defs) avs = true) :
    ∃ req, requestOf (envOf cfg) fns async fuel s c = some (.ok req) ∧
      coerceVars cfg.schema (idefs c.defs) req.variables = .ok (intendedVars cfg fns (idefs c.defs) avs) := by
  obtain ⟨req, h1, _, h3⟩ := vars_delivered cfg fns async c.opName c.opText c.defs avs hv hs ha
  exact ⟨req, by simp [requestOf, hd, h1], h3⟩

/-- non-vacuity, and the theorem is about the code: `p = P(limit=3); ps = [p]; q(ps); p.limit = 4; q(ps)`
    sends limit 3 then limit 4 with `_convert_value` as it is, and limit 3 twice with the variant that
    converts the list in place (Proofs/ArgHeapEx.lean) -/
example : runC (envOf f9Cfg) Ex.exFns true 3 Ex.store0 Ex.prog = runIdeal (envOf f9Cfg) Ex.exFns true 3 Ex.store0 Ex.prog :=
  calls_see_current_values _ _ _ _ _ _ Ex.ideal_defined
example : Ex.sameVars (Ex.sentBy (convertValueC Ex.exFns 3)) [Ex.limitIs 3, Ex.limitIs 4] = true := Ex.real_client_sends_current
example : Ex.sameVars (Ex.sentBy (convertValueIP Ex.exFns 2)) [Ex.limitIs 3, Ex.limitIs 3] = true := Ex.in_place_variant_sends_stale

end Sequences

/-! ## 2. The property on the complement of the triggers -/

theorem C03_partial (src : Source) (cfg : Cfg) (fns : UserFns) (async : Bool) (opName opText : String)
    (defs : List VarDecl) (a : List AV) (hv : Valid_03 cfg fns defs) (hp : Proved_03 cfg)
    (hs : Supported_03 cfg defs) (hsv : Supported_03v src cfg a) :
    (argsValid cfg (idefs defs) a = true →
      ConstructibleArgs src cfg a ∧ Delivered cfg fns async opName opText defs a) ∧
    (defs.length = a.length → objsOK fns a → RequiredEnforced cfg fns async opName opText defs a) := by
  refine ⟨fun ha => ⟨(args_constructible src cfg defs a hp ha).mpr hsv, ?_⟩,
    fun hlen hobj => required_cannot_be_omitted cfg fns async opName opText defs a hv hs hlen hobj⟩
  obtain ⟨req, h1, _, h3, h4⟩ := send_delivers cfg fns hv.hyp defs a opName opText "Client" async hv.inputTypes hv.varNames
    ((supported_iff cfg defs).mp hs) ha
  obtain ⟨k1, k2⟩ := payload_shape cfg fns (idefs defs) a req.variables h3
  exact ⟨⟨req, h1, h4, k1, k2⟩⟩

/-! ## 3. The property as written is false: one witness per finding

  Every witness is replayed on the real code by harness/c03.py (corpus/C03/*.json). -/

mutual
theorem beq_refl (j : J) : J.beq j j = true := by
  cases j with
  | arr xs => simp [J.beq, beqList_refl xs]
  | obj kvs => simp [J.beq, beqKvs_refl kvs]
  | _ => simp [J.beq]
theorem beqList_refl (xs : List J) : J.beqList xs xs = true := by
  cases xs with
  | nil => simp [J.beqList]
  | cons x xs => simp [J.beqList, beq_refl x, beqList_refl xs]
theorem beqKvs_refl (kvs : List (String × J)) : J.beqKvs kvs kvs = true := by
  cases kvs with
  | nil => simp [J.beqKvs]
  | cons kv rest => obtain ⟨k, x⟩ := kv; simp [J.beqKvs, beq_refl x, beqKvs_refl rest]
end

/-- executable form of (part of) `Delivered`, to evaluate witnesses -/
def deliveredB (cfg : Cfg) (fns : UserFns) (async : Bool) (opName opText : String) (defs : List VarDecl) (a : List AV) : Bool :=
  match send (envOf cfg) fns async opName opText defs a with
  | .ok req =>
    (match coerceVars cfg.schema (idefs defs) req.variables with
     | .ok out => J.beqKvs out (intendedVars cfg fns (idefs defs) a)
     | .error _ => false) && decide (req.variables.map (·.1) = givenNames (idefs defs) a)
  | .error _ => false

theorem deliveredB_of_Delivered {cfg : Cfg} {fns : UserFns} {async : Bool} {opName opText : String}
    {defs : List VarDecl} {a : List AV} (h : Delivered cfg fns async opName opText defs a) :
    deliveredB cfg fns async opName opText defs a = true := by
  obtain ⟨req, h1, h2, h3, _⟩ := h.sent
  simp [deliveredB, h1, h2, h3, beqKvs_refl]

/-- instrumented user functions of the witnesses (what harness/argwire.py's `serialize_*` do) -/
def wFns : UserFns :=
  { ser := fun f j => .obj [("$ser", .str f), ("v", j)],
    other := fun f _ => .ok (.leaf (some (.obj [("$ser", .str f), ("other", .str "not-a-scalar")]))) }

def plainCfg (snake : Bool) : Cfg := { schema := ⟨[]⟩, scalars := [], snake := snake }

def scaData : ScalarData :=
  { type_ := ".custom_scalars.TA", serialize := some ".custom_scalars.serialize_a", parse := some ".custom_scalars.parse_a" }

/-- `scalar ScA` configured with type / parse / serialize -/
def scaCfg : Cfg := { schema := ⟨[("ScA", .scalar)]⟩, scalars := [("ScA", scaData)], snake := true }

def intT : Gql.TypeRef := .named "Int"

theorem plain_hyp (snake : Bool) : Hyp (plainCfg snake) wFns :=
  ⟨by intro n fs h; simp [plainCfg, ISchema.get?] at h,
   by intro n d h; simp [plainCfg, lookupScalar] at h,
   by intro f j; rfl⟩

theorem sca_hyp : Hyp scaCfg wFns := by
  refine ⟨?_, ?_, by intro f j; rfl⟩
  · intro n fs h
    by_cases e : ("ScA" == n) = true
    · simp [scaCfg, ISchema.get?, List.find?, e] at h
    · simp [scaCfg, ISchema.get?, List.find?, e] at h
  · intro n d h
    simp only [scaCfg, lookupScalar, List.find?] at h
    by_cases e : ("ScA" == n) = true
    · have : n = "ScA" := by simpa using (beq_iff_eq.mp e).symm
      subst this; decide
    · simp [e] at h

theorem plain_valid (snake : Bool) (defs : List VarDecl) (h1 : ∀ d ∈ defs, d.type.base = "Int")
    (h2 : (defs.map (·.name)).Nodup) : Valid_03 (plainCfg snake) wFns defs :=
  ⟨plain_hyp snake, by intro d hd; rw [h1 d hd]; rfl, h2⟩

/-- C03-F1: `$query` with `$_query`, snake-casing off -/
def f1Defs : List VarDecl := [⟨"query", intT, none⟩, ⟨"_query", intT, none⟩]
def f1Args : List AV := [.int 1, .int 2]
theorem F1_witness_fails : ¬ Delivered (plainCfg false) wFns true "Q" "query Q" f1Defs f1Args :=
  fun h => absurd (deliveredB_of_Delivered h) (by decide)

/-- C03-F2: `$self` -/
def f2Defs : List VarDecl := [⟨"self", intT, none⟩]
theorem F2_witness_fails : ¬ Delivered (plainCfg true) wFns true "Q" "query Q" f2Defs [.int 1] :=
  fun h => absurd (deliveredB_of_Delivered h) (by decide)

/-- C03-F3: `$kwargs` -/
def f3Defs : List VarDecl := [⟨"kwargs", intT, none⟩]
theorem F3_witness_fails : ¬ Delivered (plainCfg true) wFns true "Q" "query Q" f3Defs [.int 1] :=
  fun h => absurd (deliveredB_of_Delivered h) (by decide)

/-- C03-F4: `$fooBar` with `$foo_bar` (and `$_x` with `$x`), snake-casing on -/
def f4Defs : List VarDecl := [⟨"fooBar", intT, none⟩, ⟨"foo_bar", intT, none⟩]
def f4bDefs : List VarDecl := [⟨"_x", intT, none⟩, ⟨"x", intT, none⟩]
theorem F4_witness_fails : ¬ Delivered (plainCfg true) wFns true "Q" "query Q" f4Defs [.int 1, .int 2] :=
  fun h => absurd (deliveredB_of_Delivered h) (by decide)
theorem F4b_witness_fails : ¬ Delivered (plainCfg true) wFns true "Q" "query Q" f4bDefs [.int 1, .int 2] :=
  fun h => absurd (deliveredB_of_Delivered h) (by decide)

/-- C03-F5: an omitted (or None) nullable custom-scalar argument with `serialize` -/
def f5Defs : List VarDecl := [⟨"a", .named "ScA", none⟩]
theorem F5_witness_fails : ¬ Delivered scaCfg wFns true "Q" "query Q" f5Defs [.unset] :=
  fun h => absurd (deliveredB_of_Delivered h) (by decide)
theorem F5_none_witness_fails : ¬ Delivered scaCfg wFns true "Q" "query Q" f5Defs [.none] :=
  fun h => absurd (deliveredB_of_Delivered h) (by decide)

/-- C03-F6: `$gql` -/
def f6Defs : List VarDecl := [⟨"gql", intT, none⟩]
theorem F6_witness_fails : ¬ Delivered (plainCfg true) wFns true "Q" "query Q" f6Defs [.int 1] :=
  fun h => absurd (deliveredB_of_Delivered h) (by decide)

/-- C03-F7: a list of custom scalars with `serialize` at top level -/
def f7Defs : List VarDecl := [⟨"xs", .nonNull (.list (.nonNull (.named "ScA"))), none⟩]
def f7Args : List AV := [.list [.custom "ScA" (.str "r1"), .custom "ScA" (.str "r2")]]
theorem F7_witness_fails : ¬ Delivered scaCfg wFns true "Q" "query Q" f7Defs f7Args :=
  fun h => absurd (deliveredB_of_Delivered h) (by decide)

/-- C03-F8: `$__x` without snake-casing (private-name mangling inside `class Client`) -/
def f8Defs : List VarDecl := [⟨"__x", .nonNull intT, none⟩]
theorem F8_witness_fails : ¬ Delivered (plainCfg false) wFns true "Q" "query Q" f8Defs [.int 1] :=
  fun h => absurd (deliveredB_of_Delivered h) (by decide)

/-- every witness is a valid input inside exactly the trigger region it is filed under -/
example : argsValid (plainCfg false) (idefs f8Defs) [.int 1] = true ∧ trigMangled false (vdefs f8Defs) = true := by decide
example : argsValid (plainCfg false) (idefs f1Defs) f1Args = true ∧ trigQueryClobber false (vdefs f1Defs) = true := by decide
example : argsValid (plainCfg true) (idefs f2Defs) [.int 1] = true ∧ trigSelf true (vdefs f2Defs) = true := by decide
example : argsValid (plainCfg true) (idefs f3Defs) [.int 1] = true ∧ trigKwargs true (vdefs f3Defs) = true := by decide
example : argsValid (plainCfg true) (idefs f4Defs) [.int 1, .int 2] = true ∧ trigMerge true (vdefs f4Defs) = true := by decide
example : argsValid scaCfg (idefs f5Defs) [.unset] = true ∧ trigSerializeNullable (envOf scaCfg) (vdefs f5Defs) = true := by decide
example : argsValid (plainCfg true) (idefs f6Defs) [.int 1] = true ∧ trigShadow (envOf (plainCfg true)) (vdefs f6Defs) = true := by decide
example : argsValid scaCfg (idefs f7Defs) f7Args = true ∧ trigSerializeList (envOf scaCfg) (vdefs f7Defs) = true := by decide

/-- C03-F9 (witness data and its evaluated facts: Proofs/ArgConstructEx.lean): `input P { limit: Int! = 10,
    name: String }` obtained by introspection; the caller sets `name` and leaves `limit` to the
    server-side default -/
theorem f9_proved : Proved_03 f9Cfg := f9_clean

theorem F9_witness_fails : ¬ ConstructibleArgs .intro f9Cfg [f9Inst .unset] := by
  intro h
  exact (args_constructible .intro f9Cfg f9Defs [f9Inst .unset] f9_proved f9_valid_unset).mp h f9_trig_unset

/-- the witness is a schema-valid value (the server would fill in `limit = 10`), inside the trigger;
    the same value is constructible when the schema is read from SDL, and in the introspection
    source as soon as `limit` is set -/
example : argsValid f9Cfg (idefs f9Defs) [f9Inst .unset] = true ∧ trigDefaultLostIntro .intro f9Cfg [f9Inst .unset] = true :=
  ⟨f9_valid_unset, f9_trig_unset⟩
example : J.beqKvs (intendedVars f9Cfg wFns (idefs f9Defs) [f9Inst .unset]) [("p", .obj [("limit", .num 10 0), ("name", .str "n")])] = true := by decide
example : ConstructibleArgs .sdl f9Cfg [f9Inst .unset] := sdl_args_constructible f9Cfg f9Defs _ f9_proved f9_valid_unset
example : ConstructibleArgs .intro f9Cfg [f9Inst (.int 3)] :=
  (args_constructible .intro f9Cfg f9Defs _ f9_proved f9_valid_set).mpr (by simp [Supported_03v, f9_trig_set])
/-- … built through the class: the introspection class demands `limit`, the SDL class does not -/
example : (match initModel (classFields .intro f9Cfg "P") [("name", .str "n")] with
    | .error e => e.missing == ["limit"] && e.invalid.isEmpty
    | .ok _ => false) = true := by decide
example : (initModel (classFields .sdl f9Cfg "P") [("name", .str "n")]).toOption.isSome = true := by decide

theorem C03_full_false : ¬ C03_full := by
  intro h
  have hv : Valid_03 (plainCfg true) wFns f2Defs := plain_valid true f2Defs (by decide) (by decide)
  exact F2_witness_fails ((h .sdl (plainCfg true) wFns true "Q" "query Q" f2Defs [.int 1] hv).1 (by decide)).2

/-- … and by the construction side alone (C03-F9) -/
theorem C03_full_false_by_F9 : ¬ C03_full := by
  intro h
  have hv : Valid_03 f9Cfg wFns f9Defs := ⟨f9_hyp wFns (by intro f j; rfl), f9_inputTypes, f9_varNames⟩
  exact F9_witness_fails ((h .intro f9Cfg wFns true "Q" "query Q" f9Defs [f9Inst .unset] hv).1 f9_valid_unset).1

/-! ## 4. Non-vacuity: a non-trivial input inside the theorem region -/

def exSchema : ISchema :=
  ⟨[("ScA", .scalar), ("Color", .enum ["RED", "from"]),
    ("Filter", .input [⟨"fooBar", .named "Int" false, some (.num 5 0)⟩, ⟨"class", .list (.named "ScA" true) false, none⟩,
                       ⟨"nested", .named "Filter" false, none⟩, ⟨"color", .named "Color" true, none⟩])]⟩

def exCfg : Cfg := { schema := exSchema, scalars := [("ScA", scaData)], snake := true }

def exDefs : List VarDecl :=
  [⟨"class", .named "Filter", none⟩, ⟨"userId", .nonNull (.named "ScA"), none⟩, ⟨"query", .list (.nonNull (.named "Color")), none⟩,
   ⟨"limit", .named "Int", some (.num 10 0)⟩]

def exInner : AV :=
  .model "Filter" [(fieldKeyOf exCfg ⟨"fooBar", .named "Int" false, some (.num 5 0)⟩, .int 3),
                   (fieldKeyOf exCfg ⟨"class", .list (.named "ScA" true) false, none⟩, .none),
                   (fieldKeyOf exCfg ⟨"nested", .named "Filter" false, none⟩, .unset),
                   (fieldKeyOf exCfg ⟨"color", .named "Color" true, none⟩, .enum "from")]

def exArgs : List AV :=
  [.model "Filter" [(fieldKeyOf exCfg ⟨"fooBar", .named "Int" false, some (.num 5 0)⟩, .unset),
                    (fieldKeyOf exCfg ⟨"class", .list (.named "ScA" true) false, none⟩, .list [.custom "ScA" (.str "r")]),
                    (fieldKeyOf exCfg ⟨"nested", .named "Filter" false, none⟩, exInner),
                    (fieldKeyOf exCfg ⟨"color", .named "Color" true, none⟩, .enum "RED")],
   .custom "ScA" (.num 7 0), .none, .unset]

theorem ex_valid : Valid_03 exCfg wFns exDefs := by
  refine ⟨⟨?_, ?_, by intro f j; rfl⟩, by decide, by decide⟩
  · intro n fs h
    by_cases e1 : ("ScA" == n) = true
    · simp [exCfg, exSchema, ISchema.get?, List.find?, e1] at h
    · by_cases e2 : ("Color" == n) = true
      · simp [exCfg, exSchema, ISchema.get?, List.find?, e1, e2] at h
      · by_cases e3 : ("Filter" == n) = true
        · simp [exCfg, exSchema, ISchema.get?, List.find?, e1, e2, e3] at h
          subst h; decide
        · simp [exCfg, exSchema, ISchema.get?, List.find?, e1, e2, e3] at h
  · intro n d h
    simp only [exCfg, lookupScalar, List.find?] at h
    by_cases e : ("ScA" == n) = true
    · have : n = "ScA" := by simpa using (beq_iff_eq.mp e).symm
      subst this; decide
    · simp [e] at h

example : argsValid exCfg (idefs exDefs) exArgs = true ∧ Supported_03 exCfg exDefs := by decide
example : deliveredB exCfg wFns false "Q" "query Q" exDefs exArgs = true := by decide

/-- the same input satisfies the hypotheses of the constructibility theorems in BOTH sources (fields
    named like a keyword, snake-cased, recursive; `fooBar` has a default but is nullable) -/
theorem ex_clean : Proved_03 exCfg := by
  intro n fs h
  by_cases e1 : ("ScA" == n) = true
  · simp [exCfg, exSchema, ISchema.get?, List.find?, e1] at h
  · by_cases e2 : ("Color" == n) = true
    · simp [exCfg, exSchema, ISchema.get?, List.find?, e1, e2] at h
    · by_cases e3 : ("Filter" == n) = true
      · simp [exCfg, exSchema, ISchema.get?, List.find?, e1, e2, e3] at h
        subst h; decide
      · simp [exCfg, exSchema, ISchema.get?, List.find?, e1, e2, e3] at h

example : Supported_03v .intro exCfg exArgs ∧ Supported_03v .sdl exCfg exArgs := by
  constructor <;> (simp only [Supported_03v]; decide)
example : ConstructibleArgs .intro exCfg exArgs :=
  (C03_partial .intro exCfg wFns false "Q" "query Q" exDefs exArgs ex_valid ex_clean (by decide)
    (by simp only [Supported_03v]; decide)).1 (by decide) |>.1
/-- the outer `Filter` of `exArgs`, written by the caller with `class_` by attribute name and the
    others by alias, is exactly what the class returns -/
example : (instances (exArgs.headD .none)).length = 2 := by decide

end Ariadne.C03
