/-
  C11 — Requests are well-formed, uploads follow the multipart spec, clients agree.

  Statements + final proofs; the model is Model/BaseClient.lean (one function for the four bundled
  clients — the tie to the four real files is the correspondence run plus the 4-way normalised-AST
  comparison of harness/c11.py), the vocabulary is Model/BaseClientTree.lean, lemmas are in
  Proofs/BaseClient.lean.

  Quantification: every query string, operation name, variables tree (`PV`: no bound on size, depth,
  number or sharing of Upload objects), caller headers, other keyword arguments, client
  configuration (four kinds × tracer present/absent), and every schedule of concurrent calls.

  Reading decisions (recorded in manifest.d/C11.json):
    * `validCall`: the `PV` value encodes a Python value of the quantifier — dict keys unique,
      pydantic dumps contain no model instance, every leaf that is not an Upload is serialisable
      by `json.dumps(default=to_jsonable_python)`, UNSET only as a top-level variable value,
      the caller's header dict does not name one HTTP field twice.
    * "the variables" of the multipart laws is the *ideal tree* `idealVars`: every pydantic
      model, wherever it sits, stands for its `model_dump(by_alias=True, exclude_unset=True)`.

  Besides the client object, the objects `execute` is GIVEN are state that later calls see (one
  headers dict / variables dict / Upload handed to several calls, on one client or on several of the
  four): section 3b states the frame for them on the reference-level model `executeH`
  (Model/BaseClientHeap.lean) — every call leaves every caller-owned dict as it was, so sequences and
  interleavings of calls that SHARE argument objects send, per call, the request of the call run alone.

  The `variables` argument is a GRAPH of list/dict objects (one nested dict referenced from two places; the
  same objects handed to a second call) and Upload objects have an identity apart from their attributes:
  section 3c states the property's "calls do not affect each other" and "each distinct Upload is sent
  once" on the object-level model `executeO` (Model/BaseClientObjects.lean: `_convert_value`,
  `separate_files` statement by statement on a store of container objects, any aliasing, any depth) —
  every object that existed before a call holds afterwards what it held, so retries / sequences /
  interleavings on shared objects send the stand-alone requests — and section 3d ties the de-duplication
  `obj in files_list` to what `==` means for `class Upload` of the working tree
  (Generated/UploadTables.lean): identity, whatever the attributes; under ANY `==` that equates two
  different Upload objects one of them is not sent.

  Two findings make the property false as written (`C11_full_false`); outside their triggers it is
  proved (`C11_partial`):
    C11-F1 `trigContentTypeCase`        a caller Content-Type header in another spelling does not win
    C11-F2 `trigUploadInModelBelowDict` an Upload inside a model below a raw dict is not extracted
-/
import AriadneModel.Proofs.BaseClientHeap
import AriadneModel.Proofs.BaseClientObjects
import AriadneModel.Generated.UploadTables

set_option linter.unusedSimpArgs false
set_option linter.unusedVariables false

namespace Ariadne.C11
open Ariadne Ariadne.BaseClient

/-- what a call puts on the wire -/
def req (cl : Client) (c : Call) : Request := (execute cl c).2

/-- the payload with exactly the keys `query`, `operationName`, `variables` -/
def payload (c : Call) (vs : List (String × J)) : J :=
  .obj [("query", .str c.query), ("operationName", opJ c), ("variables", .obj vs)]

def isJson : Request → Bool | .json .. => true | _ => false
def isMultipart : Request → Bool | .multipart .. => true | _ => false
def isError : Request → Bool | .serializationError => true | _ => false

/-- the entries `(files_list, files_map)` of a call -/
def entries (c : Call) : List Entry := (processVariables c.variables).2

/-! ## 1. `separate_files`, for every tree (induction over `PV`) -/

/-- The returned tree is the input with every Upload replaced by `None` and *nothing else changed*,
    whatever the path prefix and the files found so far. -/
theorem sep_returns_nulled (base : String) (v : PV) (st : List Entry) :
    (sep base v st).1 = nullUploads v := sep_fst base v st

/-- After `separate_files` no Upload is left in `operations`. -/
theorem sep_no_upload_left (base : String) (v : PV) (st : List Entry) :
    noUpload (sep base v st).1 = true ∧ upos (sep base v st).1 = [] := by
  rw [sep_fst]
  exact ⟨noUpload_nullUploads v, upos_of_noUpload _ (noUpload_nullUploads v)⟩

/-- Unrelated positions are unchanged: whatever sat at a path still sits there (with the Uploads
    inside it nulled); in particular every Upload position holds `None`. -/
theorem unrelated_positions_unchanged (base : String) (v w : PV) (st : List Entry) (q : Path)
    (h : pvAt? q v = some w) : pvAt? q (sep base v st).1 = some (nullUploads w) := by
  rw [sep_fst]; exact pvAt_nullUploads q v w h

theorem upload_position_nulled (base : String) (v : PV) (st : List Entry) (q : Path) (u : Nat)
    (hu : uniq v = true) (h : (q, u) ∈ upos v) : pvAt? q (sep base v st).1 = some .none := by
  have := unrelated_positions_unchanged base v (.upload u) st q ((upos_at v hu q u).mp h)
  simpa [nullUploads] using this

/-- Upload positions are exactly the paths at which the original value is that Upload. -/
theorem upload_positions_iff (v : PV) (hu : uniq v = true) (q : Path) (u : Nat) :
    (q, u) ∈ upos v ↔ pvAt? q v = some (.upload u) := upos_at v hu q u

/-- `map` (DESIGN.md: `multipart_null_and_map`): starting from no files, the entry of Upload `u` lists
    exactly the rendered paths at which the original value is `u`, in traversal order — both directions. -/
theorem multipart_null_and_map (base : String) (v : PV) (u : Nat) :
    pathsOf u (sep base v []).2 = ((upos v).filter (fun pu => pu.2 = u)).map (fun pu => render base pu.1) := by
  rw [sep_snd]; exact pathsOf_collect base u (upos v)

theorem map_lists_exactly_upload_paths (base : String) (v : PV) (hu : uniq v = true) (u : Nat) (p : String) :
    p ∈ pathsOf u (sep base v []).2 ↔ ∃ q, pvAt? q v = some (.upload u) ∧ render base q = p := by
  rw [multipart_null_and_map]
  simp only [List.mem_map, List.mem_filter, decide_eq_true_eq, Prod.exists]
  constructor
  · rintro ⟨q, u', ⟨hm, rfl⟩, rfl⟩
    exact ⟨q, (upos_at v hu q u').mp hm, rfl⟩
  · rintro ⟨q, hq, rfl⟩
    exact ⟨q, u, ⟨(upos_at v hu q u).mpr hq, rfl⟩, rfl⟩

/-- Each distinct Upload is sent once: `files_list` is the distinct Uploads in first-occurrence order. -/
theorem each_upload_once (base : String) (v : PV) :
    ids (sep base v []).2 = firstOcc ((upos v).map (·.2)) ∧ (ids (sep base v []).2).Nodup := by
  rw [sep_snd, ids_collect]
  exact ⟨rfl, firstOcc_nodup _⟩

/-- …and an Upload is in `files_list` iff it occurs in the tree. -/
theorem upload_sent_iff_occurs (base : String) (v : PV) (u : Nat) :
    u ∈ ids (sep base v []).2 ↔ ∃ q, (q, u) ∈ upos v := by
  rw [(each_upload_once base v).1, firstOcc_mem]
  simp

/-- Every entry of `files_map` belongs to exactly one file and carries all of that file's paths. -/
theorem entry_paths (base : String) (v : PV) (e : Entry) (h : e ∈ (sep base v []).2) :
    e.paths = ((upos v).filter (fun pu => pu.2 = e.id)).map (fun pu => render base pu.1) := by
  rw [← multipart_null_and_map]
  exact (pathsOf_of_mem (each_upload_once base v).2 h).symm

/-- Upload positions are pairwise distinct (no path is listed twice, within or across entries). -/
theorem upload_positions_distinct (v : PV) (hu : uniq v = true) : ((upos v).map (·.1)).Nodup := upos_nodup v hu

/-- Rendering is injective on paths whose keys are GraphQL names (no '.', not a numeral) … -/
theorem render_injective (base : String) (q q' : Path) (h : pathOk q = true) (h' : pathOk q' = true)
    (e : render base q = render base q') : q = q' := render_inj base q q' h h' e

/-- … so the dotted strings listed in `map` are pairwise distinct as well. -/
theorem map_paths_pairwise_distinct (base : String) (v : PV) (hu : uniq v = true) (hk : keysOk v = true) :
    ((upos v).map (fun pu => render base pu.1)).Nodup := rendered_nodup base v hu hk

theorem entry_paths_nodup (base : String) (v : PV) (hu : uniq v = true) (hk : keysOk v = true) (e : Entry)
    (h : e ∈ (sep base v []).2) : e.paths.Nodup := by
  rw [entry_paths base v e h]
  have := rendered_nodup base v hu hk
  have hsub : ((upos v).filter (fun pu => pu.2 = e.id)).map (fun pu => render base pu.1) =
      ((upos v).filter (fun pu => pu.2 = e.id)).map (fun pu => render base pu.1) := rfl
  exact (List.Pairwise.sublist (List.Sublist.map _ List.filter_sublist) this)

/-- `files` and `map` handed to httpx are these entries position by position: the i-th file part is
    named `str(i)` and carries Upload `entries[i].id`; the i-th `map` member has key `str(i)` and
    lists `entries[i].paths`. -/
theorem files_and_map_aligned (st : List Entry) (i : Nat) :
    (filesOf 0 st)[i]? = st[i]?.map (fun e => (toString i, e.id)) ∧
    (mapOf 0 st)[i]? = st[i]?.map (fun e => (toString i, J.arr (e.paths.map J.str))) ∧
    (filesOf 0 st).length = st.length ∧ (mapOf 0 st).length = st.length := by
  refine ⟨?_, ?_, filesOf_length 0 st, mapOf_length 0 st⟩
  · simpa using filesOf_get 0 i st
  · simpa using mapOf_get 0 i st

/-! ## 2. `execute` -/

/-- What `execute` computes, in closed form (tracer on or off, any of the four kinds). -/
theorem execute_closed (cl : Client) (c : Call) :
    req cl c =
      match toJsonKvs (nullUploadsKvs (treeOf c.variables)) with
      | none => .serializationError
      | some vs =>
        if (uposKvs (treeOf c.variables)).isEmpty then
          .json cl.url (payload c vs) (dictUpdate [("Content-Type", "application/json")] (c.headers.getD [])) c.kwargs
        else
          .multipart cl.url (payload c vs) (.obj (mapOf 0 (entries c))) (filesOf 0 (entries c)) c.headers c.kwargs := by
  unfold req entries
  rw [execute_snd]
  unfold executePlain
  simp only [processVariables_eq, collect_isEmpty]
  cases h : toJsonKvs (nullUploadsKvs (treeOf c.variables)) with
  | none => simp [executeJson, executeMultipart, body, h]
  | some vs => split <;> simp [executeJson, executeMultipart, body, h, payload]

theorem req_error (cl : Client) (c : Call) (h : toJsonKvs (nullUploadsKvs (treeOf c.variables)) = none) :
    req cl c = .serializationError := by
  rw [execute_closed, h]

theorem req_json (cl : Client) (c : Call) (vs : List (String × J))
    (h : toJsonKvs (nullUploadsKvs (treeOf c.variables)) = some vs) (hu : uposKvs (treeOf c.variables) = []) :
    req cl c = .json cl.url (payload c vs)
      (dictUpdate [("Content-Type", "application/json")] (c.headers.getD [])) c.kwargs := by
  rw [execute_closed, h]; simp [hu]

theorem req_multipart (cl : Client) (c : Call) (vs : List (String × J))
    (h : toJsonKvs (nullUploadsKvs (treeOf c.variables)) = some vs) (hu : uposKvs (treeOf c.variables) ≠ []) :
    req cl c = .multipart cl.url (payload c vs) (.obj (mapOf 0 (entries c))) (filesOf 0 (entries c)) c.headers c.kwargs := by
  rw [execute_closed, h]
  have : ¬ (uposKvs (treeOf c.variables)).isEmpty = true := by
    cases h' : uposKvs (treeOf c.variables) with
    | nil => exact absurd h' hu
    | cons _ _ => simp
  simp [this]

/-- the three outcomes, exhaustively -/
theorem req_cases (cl : Client) (c : Call) :
    (toJsonKvs (nullUploadsKvs (treeOf c.variables)) = none ∧ req cl c = .serializationError) ∨
    (∃ vs, toJsonKvs (nullUploadsKvs (treeOf c.variables)) = some vs ∧ uposKvs (treeOf c.variables) = [] ∧
      req cl c = .json cl.url (payload c vs) (dictUpdate [("Content-Type", "application/json")] (c.headers.getD [])) c.kwargs) ∨
    (∃ vs, toJsonKvs (nullUploadsKvs (treeOf c.variables)) = some vs ∧ uposKvs (treeOf c.variables) ≠ [] ∧
      req cl c = .multipart cl.url (payload c vs) (.obj (mapOf 0 (entries c))) (filesOf 0 (entries c)) c.headers c.kwargs) := by
  cases h : toJsonKvs (nullUploadsKvs (treeOf c.variables)) with
  | none => exact Or.inl ⟨rfl, req_error cl c h⟩
  | some vs =>
    by_cases hu : uposKvs (treeOf c.variables) = []
    · exact Or.inr (Or.inl ⟨vs, rfl, hu, req_json cl c vs h hu⟩)
    · exact Or.inr (Or.inr ⟨vs, rfl, hu, req_multipart cl c vs h hu⟩)

/-- `operations_keys`: whatever is sent carries exactly `query`, `operationName`, `variables`
    (with the call's query and operation name, `variables` an object). -/
theorem operations_keys (cl : Client) (c : Call) :
    match req cl c with
    | .json _ b _ _ => ∃ vs, b = payload c vs
    | .multipart _ ops _ _ _ _ => ∃ vs, ops = payload c vs
    | .serializationError => True := by
  rcases req_cases cl c with ⟨_, h⟩ | ⟨vs, _, _, h⟩ | ⟨vs, _, _, h⟩ <;> rw [h]
  · trivial
  · exact ⟨vs, rfl⟩
  · exact ⟨vs, rfl⟩

/-- `json_when_no_upload`: JSON exactly when the tree `separate_files` walks holds no Upload. -/
theorem json_when_no_upload (cl : Client) (c : Call) :
    (isMultipart (req cl c) = true → uposKvs (treeOf c.variables) ≠ []) ∧
    (isJson (req cl c) = true → uposKvs (treeOf c.variables) = []) := by
  rcases req_cases cl c with ⟨_, h⟩ | ⟨vs, _, hu, h⟩ | ⟨vs, _, hu, h⟩
  · rw [h]; simp [isMultipart, isJson]
  · rw [h]; simp [isMultipart, isJson, hu]
  · rw [h]; simp [isMultipart, isJson, hu]

/-- `variables` None, `{}` and all-UNSET give `"variables": {}` in a JSON request. -/
theorem empty_variables_give_empty_object (cl : Client) (c : Call)
    (h : c.variables = none ∨ c.variables = some [] ∨ ∀ kv ∈ c.variables.getD [], kv.2 = .unset) :
    req cl c = .json cl.url (payload c []) (dictUpdate [("Content-Type", "application/json")] (c.headers.getD [])) c.kwargs := by
  have ht : treeOf c.variables = [] := by
    rcases h with h | h | h
    · simp [h, treeOf, convertDict]
    · simp [h, treeOf, convertDict]
    · unfold treeOf
      generalize c.variables.getD [] = kvs at h
      induction kvs with
      | nil => rfl
      | cons kv rest ih =>
        obtain ⟨k, x⟩ := kv
        have hx : x = .unset := h (k, x) (by simp)
        subst hx
        simpa [convertDict, PV.isUnset] using ih (fun kv hkv => h kv (by simp [hkv]))
  exact req_json cl c [] (by simp [ht, nullUploadsKvs, toJsonKvs]) (by simp [ht, uposKvs])

/-- The request is an exception exactly when something that is not an Upload cannot be serialised. -/
theorem error_iff_unserialisable (cl : Client) (c : Call) :
    isError (req cl c) = true ↔ toJsonKvs (nullUploadsKvs (treeOf c.variables)) = none := by
  rcases req_cases cl c with ⟨h0, h⟩ | ⟨vs, h0, _, h⟩ | ⟨vs, h0, _, h⟩ <;> rw [h, h0] <;> simp [isError]

/-- `header_merge_caller_wins` (Python dict level): the JSON request's headers are
    `Content-Type: application/json` updated with the caller's dict — every caller key carries the
    caller's value, Content-Type is the caller's if given under exactly that key, and no other key appears. -/
theorem header_merge_caller_wins (cl : Client) (c : Call) (url : String) (b : J) (hs : List (String × String))
    (kw : List (String × J)) (h : req cl c = .json url b hs kw)
    (hd : distinct (headerKeys (c.headers.getD [])) = true) :
    url = cl.url ∧ kw = c.kwargs ∧
    (∀ k v, (k, v) ∈ c.headers.getD [] → lookupS k hs = some v) ∧
    lookupS "Content-Type" hs = some ((lookupS "Content-Type" (c.headers.getD [])).getD "application/json") ∧
    headerKeys hs = "Content-Type" :: headerKeys (dropKey "Content-Type" (c.headers.getD [])) := by
  rcases req_cases cl c with ⟨_, h'⟩ | ⟨vs, _, _, h'⟩ | ⟨vs, _, _, h'⟩ <;> rw [h'] at h
  · cases h
  · simp only [Request.json.injEq] at h
    obtain ⟨h1, _, h3, h4⟩ := h
    have hc := dictUpdate_closed "Content-Type" (c.headers.getD []) "application/json" [] hd (by simp [headerKeys])
    rw [hc] at h3
    subst h3
    refine ⟨h1.symm, h4.symm, ?_, by simp [lookupS], by simp [headerKeys]⟩
    intro k v hm
    by_cases hk : k = "Content-Type"
    · subst hk; simp [lookupS, lookupS_of_mem hd hm]
    · have : ¬ "Content-Type" = k := fun e => hk e.symm
      simp [lookupS, this, lookupS_dropKey _ hk, lookupS_of_mem hd hm]
  · cases h

/-- A multipart request passes the caller's keyword arguments (headers included) through untouched. -/
theorem multipart_passes_kwargs (cl : Client) (c : Call) (url : String) (ops mp : J) (files : List (String × Nat))
    (hs : Option (List (String × String))) (kw : List (String × J))
    (h : req cl c = .multipart url ops mp files hs kw) :
    url = cl.url ∧ hs = c.headers ∧ kw = c.kwargs ∧ mp = .obj (mapOf 0 (entries c)) ∧ files = filesOf 0 (entries c) := by
  rcases req_cases cl c with ⟨_, h'⟩ | ⟨vs, _, _, h'⟩ | ⟨vs, _, _, h'⟩ <;> rw [h'] at h
  · cases h
  · cases h
  · simp only [Request.multipart.injEq] at h
    exact ⟨h.1.symm, h.2.2.2.2.1.symm, h.2.2.2.2.2.symm, h.2.2.1.symm, h.2.2.2.1.symm⟩

/-! ## 3. the four clients, telemetry, frame, interleavings -/

/-- `telemetry_same_request`: tracer present or absent, plain or OpenTelemetry twin, sync or async —
    the request (or the exception) is the same. -/
theorem telemetry_same_request (cl cl' : Client) (c : Call) (h : cl'.url = cl.url) : req cl' c = req cl c := by
  unfold req; rw [execute_snd, execute_snd, executePlain_url cl cl' c h]

/-- `execute_frame`: `execute` does not modify the client object. -/
theorem execute_frame (cl : Client) (c : Call) : (execute cl c).1 = cl := execute_fst cl c

/-- A call in flight: not started, request prepared (suspended at `await http_client.post`), done. -/
inductive Phase where
  | todo (c : Call)
  | prepared (r : Request)
  | done (r : Request)

structure World where
  client : Client
  tasks : List Phase
  wire : List Request          -- what the transport has seen, in order

/-- one scheduler step: task `i` advances by one phase (anything else is a no-op) -/
def step (w : World) (i : Nat) : World :=
  match w.tasks[i]? with
  | some (.todo c) => { client := (execute w.client c).1, tasks := w.tasks.set i (.prepared (execute w.client c).2), wire := w.wire }
  | some (.prepared r) => { w with tasks := w.tasks.set i (.done r), wire := w.wire ++ [r] }
  | _ => w

def runSchedule (w : World) (sched : List Nat) : World := sched.foldl step w

def start (cl : Client) (calls : List Call) : World := { client := cl, tasks := calls.map .todo, wire := [] }

/-- phase `ph` of task `i` is consistent with running call `i` alone on the untouched client -/
def PhaseOk (cl : Client) (c : Call) : Phase → Prop
  | .todo c' => c' = c
  | .prepared r => r = req cl c
  | .done r => r = req cl c

def Inv (cl : Client) (calls : List Call) (w : World) : Prop :=
  w.client = cl ∧ w.tasks.length = calls.length ∧
  (∀ (i : Nat) c ph, calls[i]? = some c → w.tasks[i]? = some ph → PhaseOk cl c ph) ∧
  (∀ r ∈ w.wire, ∃ c ∈ calls, r = req cl c)

theorem inv_start (cl : Client) (calls : List Call) : Inv cl calls (start cl calls) := by
  refine ⟨rfl, by simp [start], ?_, by simp [start]⟩
  intro i c ph hc hp
  simp only [start, List.getElem?_map, hc, Option.map_some, Option.some.injEq] at hp
  subst hp; rfl

theorem inv_step (cl : Client) (calls : List Call) (w : World) (i : Nat) (h : Inv cl calls w) :
    Inv cl calls (step w i) := by
  obtain ⟨h1, h2, h3, h4⟩ := h
  unfold step
  cases hp : w.tasks[i]? with
  | none => exact ⟨h1, h2, h3, h4⟩
  | some ph =>
    have hi : i < calls.length := by
      have := (List.getElem?_eq_some_iff.mp hp).1; omega
    have hc : calls[i]? = some calls[i] := List.getElem?_eq_getElem hi
    have hok := h3 i calls[i] ph hc hp
    cases ph with
    | done r => exact ⟨h1, h2, h3, h4⟩
    | todo c' =>
      simp only [PhaseOk] at hok
      subst hok
      refine ⟨by simp [execute_fst, h1], by simp [h2], ?_, h4⟩
      intro j c ph hcj hpj
      by_cases hij : i = j
      · subst hij
        have hlt : i < w.tasks.length := by omega
        simp only [List.getElem?_set_self hlt, Option.some.injEq] at hpj
        subst hpj
        rw [hc] at hcj; cases hcj
        simp [PhaseOk, req, h1]
      · simp only [List.getElem?_set_ne hij] at hpj
        exact h3 j c ph hcj hpj
    | prepared r =>
      simp only [PhaseOk] at hok
      refine ⟨h1, by simp [h2], ?_, ?_⟩
      · intro j c ph hcj hpj
        by_cases hij : i = j
        · subst hij
          have hlt : i < w.tasks.length := by omega
          simp only [List.getElem?_set_self hlt, Option.some.injEq] at hpj
          subst hpj
          rw [hc] at hcj; cases hcj
          simpa [PhaseOk] using hok
        · simp only [List.getElem?_set_ne hij] at hpj
          exact h3 j c ph hcj hpj
      · intro r' hr'
        simp only [List.mem_append, List.mem_singleton] at hr'
        rcases hr' with hr' | hr'
        · exact h4 r' hr'
        · exact ⟨calls[i], List.getElem_mem hi, hr' ▸ hok⟩

/-- `interleave_commutes`: for EVERY schedule of the steps of any number of concurrent calls on one
    client — any order, any interleaving, unfinished calls allowed — the client object is unchanged,
    each call that got as far as preparing or sending its request prepared/sent exactly the request
    it sends when run alone, and the transport saw nothing but such requests. -/
theorem interleave_commutes (cl : Client) (calls : List Call) (sched : List Nat) :
    let w := runSchedule (start cl calls) sched
    w.client = cl ∧
    (∀ (i : Nat) c r, calls[i]? = some c →
      (w.tasks[i]? = some (Phase.done r) ∨ w.tasks[i]? = some (Phase.prepared r)) → r = req cl c) ∧
    (∀ r ∈ w.wire, ∃ c ∈ calls, r = req cl c) := by
  have hinv : ∀ (sched : List Nat) (w : World), Inv cl calls w → Inv cl calls (runSchedule w sched) := by
    intro sched
    induction sched with
    | nil => intro w h; exact h
    | cons i rest ih => intro w h; exact ih (step w i) (inv_step cl calls w i h)
  obtain ⟨h1, _, h3, h4⟩ := hinv sched _ (inv_start cl calls)
  refine ⟨h1, ?_, h4⟩
  intro i c r hc hp
  rcases hp with hp | hp
  · simpa [PhaseOk] using h3 i c _ hc hp
  · simpa [PhaseOk] using h3 i c _ hc hp

/-- sequential calls: the i-th response depends on the i-th call only -/
theorem sequential_calls_independent (cl : Client) (calls : List Call) :
    (calls.foldl (fun (acc : Client × List Request) c => ((execute acc.1 c).1, acc.2 ++ [(execute acc.1 c).2])) (cl, [])) =
      (cl, calls.map (req cl)) := by
  generalize hf : (fun (acc : Client × List Request) c => ((execute acc.1 c).1, acc.2 ++ [(execute acc.1 c).2])) = f
  have hstep : ∀ pre c, f (cl, pre) c = (cl, pre ++ [req cl c]) := by
    intro pre c; subst hf; simp [execute_fst, req]
  have : ∀ (pre : List Request), calls.foldl f (cl, pre) = (cl, pre ++ calls.map (req cl)) := by
    induction calls with
    | nil => intro pre; simp
    | cons c rest ih => intro pre; rw [List.foldl_cons, hstep, ih]; simp
  simpa using this []

/-! ## 3b. the caller's argument objects: sequences and interleavings of calls that share them -/

/-- The header merge of `_execute_json` on a store of dict objects, for EVERY store and every caller
    reference: it succeeds iff the reference names an object, every object that existed before the
    call is what it was (the merge writes only into the dict it allocated itself), and the dict
    handed to httpx is `{"Content-Type": "application/json"}` updated with the caller's dict. -/
theorem merge_headers_writes_only_own_object (s : Store) (caller : Option Nat) :
    match mergeHeadersS s caller with
    | some (s', a) =>
        s'.take s.length = s ∧ (∀ i, i < s.length → s'[i]? = s[i]?) ∧ a = s.length ∧
        ∃ d, callerDict s caller = some d ∧
          s'[a]? = some (dictUpdate [("Content-Type", "application/json")] (d.getD []))
    | none => callerDict s caller = none := by
  cases caller with
  | none =>
    rw [mergeHeadersS_none]
    refine ⟨by simp, ?_, rfl, none, rfl, by simp [dictUpdate]⟩
    intro i hi; rw [List.getElem?_append_left hi]
  | some a =>
    cases hd : s[a]? with
    | none => rw [mergeHeadersS_dangling s a hd]; simp [callerDict, hd]
    | some d =>
      rw [mergeHeadersS_some s a d hd]
      refine ⟨by simp, ?_, rfl, some d, by simp [callerDict, hd], by simp⟩
      intro i hi; rw [List.getElem?_append_left hi]

/-- The theorem above is about the code, not about the shape of the model: the rewrite
    `headers = kwargs.get("headers", {}); headers.setdefault("Content-Type", "application/json")`
    (write at the caller's address) does not have the frame property. -/
def mergeHeadersInPlace (s : Store) (caller : Nat) : Option (Store × Nat) :=
  match s[caller]? with
  | some d =>
    some (s.set caller (if (headerKeys d).contains "Content-Type" then d else d ++ [("Content-Type", "application/json")]), caller)
  | none => none

theorem inplace_merge_breaks_frame :
    ∃ (s s' : Store) (a : Nat), mergeHeadersInPlace s 0 = some (s', a) ∧ s'.take s.length ≠ s :=
  ⟨[[("Authorization", "Bearer t")]], _, _, rfl, by decide⟩

/-- `execute_args_frame`: `execute` on references.  Whatever objects the heap holds and whichever of
    them the call names, the client object and EVERY caller-owned dict are afterwards what they were,
    and what is sent is the request of the value-level call (the contents at call time). -/
theorem execute_args_frame (cl : Client) (h : Heap) (c : HCall) (call : Call) (hc : h.call? c = some call) :
    executeH cl h c = .ok cl h (req cl call) := executeH_eq cl h c call hc

/-- …and a reference that names no object is the only way to get no outcome. -/
theorem executeH_illFormed_iff (cl : Client) (h : Heap) (c : HCall) :
    (∃ cl' h' r, executeH cl h c = .ok cl' h' r) ↔ (h.call? c).isSome = true := by
  cases hc : h.call? c with
  | none => simp [executeH_illFormed cl h c hc]
  | some call => simp [executeH_eq cl h c call hc]

/-- `sequence_shared_args`: any number of calls one after the other, each on its own client (any of
    the four kinds, tracer or not), all drawing their `variables` / `headers=` objects from ONE heap in
    any sharing pattern: the heap at the end is the heap at the start, and the i-th call sent exactly
    the request it sends when it is the only call ever made with these objects. -/
theorem sequence_shared_args (h : Heap) (steps : List (Client × HCall)) :
    (runSeqH h steps).1 = h ∧
    (runSeqH h steps).2.length = steps.length ∧
    ∀ (i : Nat) cl c, steps[i]? = some (cl, c) →
      (runSeqH h steps).2[i]? = some ((h.call? c).map (req cl)) := by
  rw [runSeqH_eq]
  have hmap : ∀ steps : List (Client × HCall),
      derefSteps h steps = steps.map (fun st => (h.call? st.2).map (req st.1)) := by
    intro steps
    induction steps with
    | nil => rfl
    | cons st rest ih => obtain ⟨cl, c⟩ := st; simp only [derefSteps, ih, List.map_cons]; rfl
  refine ⟨rfl, by simp [hmap], ?_⟩
  intro i cl c hi
  simp [hmap, List.getElem?_map, hi]

/-- A call in flight whose arguments are references. -/
inductive PhaseH where
  | todo (c : HCall)
  | prepared (r : Request)
  | done (r : Request)

structure WorldH where
  client : Client
  heap : Heap                  -- the caller's objects, shared by all tasks
  tasks : List PhaseH
  wire : List Request

/-- one scheduler step: task `i` advances by one phase; preparing a request runs `executeH` on the
    CURRENT client and the CURRENT heap (whatever earlier steps of other tasks left there) -/
def stepH (w : WorldH) (i : Nat) : WorldH :=
  match w.tasks[i]? with
  | some (.todo c) =>
    match executeH w.client w.heap c with
    | .ok cl' h' r => { client := cl', heap := h', tasks := w.tasks.set i (.prepared r), wire := w.wire }
    | .illFormed => w
  | some (.prepared r) => { w with tasks := w.tasks.set i (.done r), wire := w.wire ++ [r] }
  | _ => w

def runScheduleH (w : WorldH) (sched : List Nat) : WorldH := sched.foldl stepH w

def startH (cl : Client) (h : Heap) (calls : List HCall) : WorldH :=
  { client := cl, heap := h, tasks := calls.map .todo, wire := [] }

def SentAlone (cl : Client) (h : Heap) (c : HCall) (r : Request) : Prop :=
  ∃ call, h.call? c = some call ∧ r = req cl call

def PhaseOkH (cl : Client) (h : Heap) (c : HCall) : PhaseH → Prop
  | .todo c' => c' = c
  | .prepared r => SentAlone cl h c r
  | .done r => SentAlone cl h c r

def InvH (cl : Client) (h : Heap) (calls : List HCall) (w : WorldH) : Prop :=
  w.client = cl ∧ w.heap = h ∧ w.tasks.length = calls.length ∧
  (∀ (i : Nat) c ph, calls[i]? = some c → w.tasks[i]? = some ph → PhaseOkH cl h c ph) ∧
  (∀ r ∈ w.wire, ∃ c ∈ calls, SentAlone cl h c r)

theorem invH_start (cl : Client) (h : Heap) (calls : List HCall) : InvH cl h calls (startH cl h calls) := by
  refine ⟨rfl, rfl, by simp [startH], ?_, by simp [startH]⟩
  intro i c ph hc hp
  simp only [startH, List.getElem?_map, hc, Option.map_some, Option.some.injEq] at hp
  subst hp; rfl

theorem invH_step (cl : Client) (h : Heap) (calls : List HCall) (w : WorldH) (i : Nat)
    (hinv : InvH cl h calls w) : InvH cl h calls (stepH w i) := by
  obtain ⟨h1, hh, h2, h3, h4⟩ := hinv
  unfold stepH
  cases hp : w.tasks[i]? with
  | none => exact ⟨h1, hh, h2, h3, h4⟩
  | some ph =>
    have hi : i < calls.length := by
      have := (List.getElem?_eq_some_iff.mp hp).1; omega
    have hc : calls[i]? = some calls[i] := List.getElem?_eq_getElem hi
    have hok := h3 i calls[i] ph hc hp
    cases ph with
    | done r => exact ⟨h1, hh, h2, h3, h4⟩
    | todo c' =>
      simp only [PhaseOkH] at hok
      subst hok
      cases hcall : h.call? calls[i] with
      | none =>
        simp only [h1, hh, executeH_illFormed cl h _ hcall]
        exact ⟨h1, hh, h2, h3, h4⟩
      | some call =>
        simp only [h1, hh, executeH_eq cl h _ call hcall]
        refine ⟨rfl, rfl, by simp [h2], ?_, h4⟩
        intro j c ph hcj hpj
        by_cases hij : i = j
        · subst hij
          have hlt : i < w.tasks.length := by omega
          simp only [List.getElem?_set_self hlt, Option.some.injEq] at hpj
          subst hpj
          rw [hc] at hcj; cases hcj
          exact ⟨call, hcall, rfl⟩
        · simp only [List.getElem?_set_ne hij] at hpj
          exact h3 j c ph hcj hpj
    | prepared r =>
      simp only [PhaseOkH] at hok
      refine ⟨h1, hh, by simp [h2], ?_, ?_⟩
      · intro j c ph hcj hpj
        by_cases hij : i = j
        · subst hij
          have hlt : i < w.tasks.length := by omega
          simp only [List.getElem?_set_self hlt, Option.some.injEq] at hpj
          subst hpj
          rw [hc] at hcj; cases hcj
          simpa [PhaseOkH] using hok
        · simp only [List.getElem?_set_ne hij] at hpj
          exact h3 j c ph hcj hpj
      · intro r' hr'
        simp only [List.mem_append, List.mem_singleton] at hr'
        rcases hr' with hr' | hr'
        · exact h4 r' hr'
        · exact ⟨calls[i], List.getElem_mem hi, hr' ▸ hok⟩

/-- `interleave_commutes_shared_args`: for EVERY schedule of the steps of any number of concurrent
    calls on one client whose `variables` / `headers=` arguments are references into one heap (shared
    in any pattern) — the client object and every object of the heap are unchanged, each call that got
    as far as preparing or sending prepared/sent exactly the request it sends when run alone on the
    untouched heap, and the transport saw nothing else. -/
theorem interleave_commutes_shared_args (cl : Client) (h : Heap) (calls : List HCall) (sched : List Nat) :
    let w := runScheduleH (startH cl h calls) sched
    w.client = cl ∧ w.heap = h ∧
    (∀ (i : Nat) c r, calls[i]? = some c →
      (w.tasks[i]? = some (PhaseH.done r) ∨ w.tasks[i]? = some (PhaseH.prepared r)) → SentAlone cl h c r) ∧
    (∀ r ∈ w.wire, ∃ c ∈ calls, SentAlone cl h c r) := by
  have hinv : ∀ (sched : List Nat) (w : WorldH), InvH cl h calls w → InvH cl h calls (runScheduleH w sched) := by
    intro sched
    induction sched with
    | nil => intro w hw; exact hw
    | cons i rest ih => intro w hw; exact ih (stepH w i) (invH_step cl h calls w i hw)
  obtain ⟨h1, hh, _, h3, h4⟩ := hinv sched _ (invH_start cl h calls)
  refine ⟨h1, hh, ?_, h4⟩
  intro i c r hc hp
  rcases hp with hp | hp
  · simpa [PhaseOkH] using h3 i c _ hc hp
  · simpa [PhaseOkH] using h3 i c _ hc hp

/-- non-vacuity: one headers dict (auth token) and one variables dict, a JSON call and an upload call
    on two different clients and a retry of the first, all sharing them -/
def sampleHeap : Heap :=
  { hdrs := [[("Authorization", "Bearer t")]],
    vars := [[("n", .num 1 0)], [("file", .upload 0), ("again", .list [.upload 0])]] }

def sampleSteps : List (Client × HCall) :=
  [ ({ kind := .sync, url := "http://verif.test/graphql", tracer := false },
     { query := "query P { p }", opName := some "P", variables := some 0, headers := some 0, kwargs := [] }),
    ({ kind := .asyncOT, url := "http://verif.test/graphql", tracer := true },
     { query := "mutation U { u }", opName := some "U", variables := some 1, headers := some 0, kwargs := [] }),
    ({ kind := .sync, url := "http://verif.test/graphql", tracer := false },
     { query := "query P { p }", opName := some "P", variables := some 0, headers := some 0, kwargs := [] }) ]

example : wfSteps sampleHeap sampleSteps = true := by decide
example : ((runSeqH sampleHeap sampleSteps).2.map fun r => r.map fun r => (isJson r, isMultipart r)) =
    [some (true, false), some (false, true), some (true, false)] := by decide
example : (runSeqH sampleHeap sampleSteps).1.hdrs = sampleHeap.hdrs := by decide

/-! ## 3c. the caller's container objects: nested dicts and lists by reference, any aliasing -/

/-- `separate_files` on a store of list/dict objects, for EVERY store, every value (a reference into it
    or an immediate), every `==` of Upload objects and every nesting depth `f` the value can be read at:
    it returns (as new objects) the tree the value-level function returns on the tree the value denotes,
    with the same `(files_list, files_map)`, and every object that existed before the call holds what it
    held — whatever is referenced from wherever. -/
theorem separate_files_writes_only_own_objects (eqv : Nat → Nat → Bool) (f : Nat) (path : String) (v : Val)
    (s : OStore) (es : List Entry) (pv : PV) (h : derefV s f v = some pv) :
    ∃ r s', sepS eqv f path v (s, es) = some (r, (s', (sepG eqv path pv es).2)) ∧
      s'.take s.length = s ∧ (∀ a, a < s.length → s'[a]? = s[a]?) ∧
      derefV s' f r = some (sepG eqv path pv es).1 := by
  obtain ⟨r, s', h1, h2, h3, h4⟩ := sepS_spec eqv f path v s es pv h
  exact ⟨r, s', h1, take_of_keeps h2 h3, h3, h4 s' (fun _ _ _ => rfl)⟩

/-- `_convert_value` on objects: lists are rebuilt, models dumped, a dict object is returned as it is
    (so what `separate_files` walks next are the caller's own dicts) — and nothing that existed is written. -/
theorem convert_value_writes_nothing (f : Nat) (v : Val) (s : OStore) (pv : PV) (h : derefV s f v = some pv) :
    ∃ r s', convertValueS f v s = some (r, s') ∧ s'.take s.length = s ∧ derefV s' f r = some (convertValue pv) := by
  obtain ⟨r, s', h1, h2, h3, h4⟩ := convertValueS_spec f v s pv h
  exact ⟨r, s', h1, take_of_keeps h2 h3, h4⟩

/-- a dict object goes through `_convert_value` as the same object, and nothing is allocated -/
example : (convertValueS 3 (.ref 0) [.dict [("file", .imm (.upload 0))]]).map (fun r => (match r.1 with | .ref a => some a | _ => none, r.2.length)) =
    some (some 0, 1) := by decide

/-- `_process_variables` on objects = `_process_variables` on the tree the caller's dict denotes, and the
    caller's objects are afterwards what they were. -/
theorem process_variables_frame (eqv : Nat → Nat → Bool) (fuel : Nat) (s : OStore) (a : Nat) (kvs : List (String × PV))
    (h : derefV s (fuel + 1) (.ref a) = some (.dict kvs)) :
    ∃ s', processVariablesS eqv fuel s (some a) =
        some ((processVariablesG eqv (some kvs)).1, s', (processVariablesG eqv (some kvs)).2) ∧
      s'.take s.length = s := by
  obtain ⟨s', h1, h2, h3⟩ := processVariablesS_some eqv fuel s a kvs h
  exact ⟨s', h1, take_of_keeps h2 h3⟩

/-- `execute_objects_frame`: `execute` on objects.  Whatever list/dict/Upload/headers objects the heap
    holds, however they reference each other, and whichever of them the call names: the client object and
    EVERY object of the heap are afterwards what they were, what is sent is the request of the value-level
    call on the trees the objects denote at call time, and the file parts are made of the attributes of
    the Upload objects themselves. -/
theorem execute_objects_frame (fuel : Nat) (cl : Client) (h : OHeap) (c : HCall) (call : Call)
    (hc : h.call? fuel c = some call) :
    executeO fuel cl h c = .ok cl h (req cl call) (filesOfCall h.ups cl call) := executeO_eq fuel cl h c call hc

/-- …and an argument that names no object (or a structure deeper than the fuel: in Python, beyond the
    recursion limit) is the only way to get no outcome. -/
theorem executeO_illFormed_iff (fuel : Nat) (cl : Client) (h : OHeap) (c : HCall) :
    (∃ cl' h' r fs, executeO fuel cl h c = .ok cl' h' r fs) ↔ (h.call? fuel c).isSome = true := by
  cases hc : h.call? fuel c with
  | none => simp [executeO_illFormed fuel cl h c hc]
  | some call => simp [executeO_eq fuel cl h c call hc]

/-- `sequence_shared_objects`: any number of calls one after the other (a retry with the same `variables`,
    the same nested dict under two variables, the same objects through another of the four clients …), all
    drawing their arguments from ONE heap of objects: the heap at the end is the heap at the start, and the
    i-th call sent exactly the request it sends when it is the only call ever made with these objects. -/
theorem sequence_shared_objects (fuel : Nat) (h : OHeap) (steps : List (Client × HCall)) :
    (runSeqO fuel h steps).1 = h ∧
    (runSeqO fuel h steps).2.length = steps.length ∧
    ∀ (i : Nat) cl c, steps[i]? = some (cl, c) →
      (runSeqO fuel h steps).2[i]? = some ((h.call? fuel c).map (req cl)) := by
  rw [runSeqO_eq]
  have hmap : ∀ steps : List (Client × HCall),
      derefStepsO fuel h steps = steps.map (fun st => (h.call? fuel st.2).map (req st.1)) := by
    intro steps
    induction steps with
    | nil => rfl
    | cons st rest ih => obtain ⟨cl, c⟩ := st; simp only [derefStepsO, ih, List.map_cons]; rfl
  refine ⟨rfl, by simp [hmap], ?_⟩
  intro i cl c hi
  simp [hmap, List.getElem?_map, hi]

structure WorldO where
  client : Client
  heap : OHeap                 -- the caller's objects, shared by all tasks
  tasks : List PhaseH
  wire : List Request

/-- one scheduler step on objects: preparing a request runs `executeO` on the CURRENT client and heap -/
def stepO (fuel : Nat) (w : WorldO) (i : Nat) : WorldO :=
  match w.tasks[i]? with
  | some (.todo c) =>
    match executeO fuel w.client w.heap c with
    | .ok cl' h' r _ => { client := cl', heap := h', tasks := w.tasks.set i (.prepared r), wire := w.wire }
    | .illFormed => w
  | some (.prepared r) => { w with tasks := w.tasks.set i (.done r), wire := w.wire ++ [r] }
  | _ => w

def runScheduleO (fuel : Nat) (w : WorldO) (sched : List Nat) : WorldO := sched.foldl (stepO fuel) w

def startO (cl : Client) (h : OHeap) (calls : List HCall) : WorldO :=
  { client := cl, heap := h, tasks := calls.map .todo, wire := [] }

def SentAloneO (fuel : Nat) (cl : Client) (h : OHeap) (c : HCall) (r : Request) : Prop :=
  ∃ call, h.call? fuel c = some call ∧ r = req cl call

def PhaseOkO (fuel : Nat) (cl : Client) (h : OHeap) (c : HCall) : PhaseH → Prop
  | .todo c' => c' = c
  | .prepared r => SentAloneO fuel cl h c r
  | .done r => SentAloneO fuel cl h c r

def InvO (fuel : Nat) (cl : Client) (h : OHeap) (calls : List HCall) (w : WorldO) : Prop :=
  w.client = cl ∧ w.heap = h ∧ w.tasks.length = calls.length ∧
  (∀ (i : Nat) c ph, calls[i]? = some c → w.tasks[i]? = some ph → PhaseOkO fuel cl h c ph) ∧
  (∀ r ∈ w.wire, ∃ c ∈ calls, SentAloneO fuel cl h c r)

theorem invO_start (fuel : Nat) (cl : Client) (h : OHeap) (calls : List HCall) : InvO fuel cl h calls (startO cl h calls) := by
  refine ⟨rfl, rfl, by simp [startO], ?_, by simp [startO]⟩
  intro i c ph hc hp
  simp only [startO, List.getElem?_map, hc, Option.map_some, Option.some.injEq] at hp
  subst hp; rfl

theorem invO_step (fuel : Nat) (cl : Client) (h : OHeap) (calls : List HCall) (w : WorldO) (i : Nat)
    (hinv : InvO fuel cl h calls w) : InvO fuel cl h calls (stepO fuel w i) := by
  obtain ⟨h1, hh, h2, h3, h4⟩ := hinv
  unfold stepO
  cases hp : w.tasks[i]? with
  | none => exact ⟨h1, hh, h2, h3, h4⟩
  | some ph =>
    have hi : i < calls.length := by
      have := (List.getElem?_eq_some_iff.mp hp).1; omega
    have hc : calls[i]? = some calls[i] := List.getElem?_eq_getElem hi
    have hok := h3 i calls[i] ph hc hp
    cases ph with
    | done r => exact ⟨h1, hh, h2, h3, h4⟩
    | todo c' =>
      simp only [PhaseOkO] at hok
      subst hok
      cases hcall : h.call? fuel calls[i] with
      | none =>
        simp only [h1, hh, executeO_illFormed fuel cl h _ hcall]
        exact ⟨h1, hh, h2, h3, h4⟩
      | some call =>
        simp only [h1, hh, executeO_eq fuel cl h _ call hcall]
        refine ⟨rfl, rfl, by simp [h2], ?_, h4⟩
        intro j c ph hcj hpj
        by_cases hij : i = j
        · subst hij
          have hlt : i < w.tasks.length := by omega
          simp only [List.getElem?_set_self hlt, Option.some.injEq] at hpj
          subst hpj
          rw [hc] at hcj; cases hcj
          exact ⟨call, hcall, rfl⟩
        · simp only [List.getElem?_set_ne hij] at hpj
          exact h3 j c ph hcj hpj
    | prepared r =>
      simp only [PhaseOkO] at hok
      refine ⟨h1, hh, by simp [h2], ?_, ?_⟩
      · intro j c ph hcj hpj
        by_cases hij : i = j
        · subst hij
          have hlt : i < w.tasks.length := by omega
          simp only [List.getElem?_set_self hlt, Option.some.injEq] at hpj
          subst hpj
          rw [hc] at hcj; cases hcj
          simpa [PhaseOkO] using hok
        · simp only [List.getElem?_set_ne hij] at hpj
          exact h3 j c ph hcj hpj
      · intro r' hr'
        simp only [List.mem_append, List.mem_singleton] at hr'
        rcases hr' with hr' | hr'
        · exact h4 r' hr'
        · exact ⟨calls[i], List.getElem_mem hi, hr' ▸ hok⟩

/-- `interleave_commutes_shared_objects`: for EVERY schedule of the steps of any number of concurrent calls
    on one client whose arguments are objects of one heap (nested containers aliased in any pattern, the
    same `variables` given to several calls in flight) — the client object and every object of the heap are
    unchanged, each call that got as far as preparing or sending prepared/sent exactly the request it sends
    when run alone on the untouched objects, and the transport saw nothing else. -/
theorem interleave_commutes_shared_objects (fuel : Nat) (cl : Client) (h : OHeap) (calls : List HCall) (sched : List Nat) :
    let w := runScheduleO fuel (startO cl h calls) sched
    w.client = cl ∧ w.heap = h ∧
    (∀ (i : Nat) c r, calls[i]? = some c →
      (w.tasks[i]? = some (PhaseH.done r) ∨ w.tasks[i]? = some (PhaseH.prepared r)) → SentAloneO fuel cl h c r) ∧
    (∀ r ∈ w.wire, ∃ c ∈ calls, SentAloneO fuel cl h c r) := by
  have hinv : ∀ (sched : List Nat) (w : WorldO), InvO fuel cl h calls w → InvO fuel cl h calls (runScheduleO fuel w sched) := by
    intro sched
    induction sched with
    | nil => intro w hw; exact hw
    | cons i rest ih => intro w hw; exact ih (stepO fuel w i) (invO_step fuel cl h calls w i hw)
  obtain ⟨h1, hh, _, h3, h4⟩ := hinv sched _ (invO_start fuel cl h calls)
  refine ⟨h1, hh, ?_, h4⟩
  intro i c r hc hp
  rcases hp with hp | hp
  · simpa [PhaseOkO] using h3 i c _ hc hp
  · simpa [PhaseOkO] using h3 i c _ hc hp

/-- non-vacuity, and the two shapes the frame is about.  `retryHeap`: `variables = {"input": D1}`,
    `D1 = {"title": "hello", "attachment": D2}`, `D2 = {"file": Upload#0, "tags": ["a"]}` — the Upload sits in
    the caller's own nested dict — sent twice.  `aliasHeap`: `shared = {"file": Upload#0, "caption": …}`
    referenced as `variables["input"]["primary"]` and inside the list `variables["input"]["copies"]`. -/
def retryHeap : OHeap :=
  { hdrs := [],
    objs := [ .dict [("input", .ref 1)],
              .dict [("title", .imm (.str "hello")), ("attachment", .ref 2)],
              .dict [("file", .imm (.upload 0)), ("tags", .ref 3)],
              .list [.imm (.str "a")] ],
    ups := [⟨"notes.txt", "text/plain", 0⟩] }

def aliasHeap : OHeap :=
  { hdrs := [],
    objs := [ .dict [("input", .ref 1)],
              .dict [("primary", .ref 2), ("copies", .ref 3)],
              .dict [("file", .imm (.upload 0)), ("caption", .imm (.str "same attachment"))],
              .list [.ref 2] ],
    ups := [⟨"notes.txt", "text/plain", 0⟩] }

def sendStep : Client × HCall :=
  ({ kind := .sync, url := "http://verif.test/graphql", tracer := false },
   { query := "mutation Send { send }", opName := some "Send", variables := some 0, headers := none, kwargs := [] })

/-- the paths `map` lists, per file -/
def mapPaths : Option Request → List (String × List String)
  | some (.multipart _ _ (.obj kvs) _ _ _) =>
    kvs.map fun kv => (kv.1, match kv.2 with | .arr xs => xs.map (fun x => match x with | .str p => p | _ => "?") | _ => [])
  | _ => []

/-- where the objects of a store hold an Upload: (address, key or index, Upload) -/
def uploadSlots (s : OStore) : List (Nat × String × Nat) :=
  (s.zipIdx.map fun (o, a) =>
    match o with
    | .dict kvs => kvs.filterMap fun kv => match kv.2 with | .imm (.upload u) => some (a, kv.1, u) | _ => none
    | .list xs => xs.zipIdx.filterMap fun (x, i) => match x with | .imm (.upload u) => some (a, toString i, u) | _ => none).flatten

example : ((runSeqO 4 retryHeap [sendStep, sendStep]).2.map fun r => r.map isMultipart) = [some true, some true] := by decide
example : uploadSlots (runSeqO 4 retryHeap [sendStep, sendStep]).1.objs = [(2, "file", 0)] := by decide
example : ((runSeqO 4 aliasHeap [sendStep]).2.map mapPaths) =
    [[("0", ["variables.input.primary.file", "variables.input.copies.0.file"])]] := by decide

/-- The frame theorems are about the code, not about the shape of the model: `separate_files` rewritten
    to null the files where they are (`obj[index] = …`, `obj[key] = …`, `return obj` — same store, same
    vocabulary) overwrites the caller's nested dict … -/
theorem inplace_separate_files_breaks_frame :
    ∃ (h : OHeap) (st : Client × HCall), (runSeqInPlaceO 4 h [st]).1.objs ≠ h.objs ∧ (runSeqO 4 h [st]).1.objs = h.objs := by
  refine ⟨retryHeap, sendStep, ?_, (sequence_shared_objects 4 retryHeap [sendStep]).1 ▸ rfl⟩
  intro e
  have : uploadSlots (runSeqInPlaceO 4 retryHeap [sendStep]).1.objs = uploadSlots retryHeap.objs := by rw [e]
  revert this
  decide

/-- … so the retry finds no Upload and goes out as JSON … -/
theorem inplace_separate_files_breaks_retry :
    ∃ (h : OHeap) (st : Client × HCall),
      ((runSeqInPlaceO 4 h [st, st]).2.map fun r => r.map isMultipart) = [some true, some false] ∧
      ((runSeqO 4 h [st, st]).2.map fun r => r.map isMultipart) = [some true, some true] :=
  ⟨retryHeap, sendStep, by decide, by decide⟩

/-- … and a dict referenced from two places is already nulled when it is reached the second time: `map`
    lists only the first path. -/
theorem inplace_separate_files_loses_aliased_path :
    ∃ (h : OHeap) (st : Client × HCall),
      ((runSeqInPlaceO 4 h [st]).2.map mapPaths) = [[("0", ["variables.input.primary.file"])]] ∧
      ((runSeqO 4 h [st]).2.map mapPaths) =
        [[("0", ["variables.input.primary.file", "variables.input.copies.0.file"])]] :=
  ⟨aliasHeap, sendStep, by decide, by decide⟩

/-! ## 3d. `obj in files_list`: what `==` means for Upload objects -/

/-- `class Upload` of the working tree: `Upload.__eq__ is object.__eq__` (Generated/UploadTables.lean,
    re-extracted from the imported module on every run — whatever the class inherits from or is decorated
    with; the names its body binds are listed there as well), so `x is obj or x == obj` is identity —
    `uploadEq`, the comparison `executeO` runs with. -/
theorem upload_class_compares_by_identity : UploadTables.uploadEqIsObjectEq = true := by decide

/-- Under identity the de-duplicating `separate_files` is the value-level `sep` all laws of section 1 are
    about (every tree, every `files_list` so far). -/
theorem dedupe_is_by_identity (base : String) (v : PV) (st : List Entry) : sepG uploadEq base v st = sep base v st :=
  sepG_identity base v st

/-- For ANY `==` of Upload objects: the tree returned does not depend on it, and `files_list` is the
    left-to-right de-duplication of the Uploads of the tree under that `==`. -/
theorem files_list_is_dedup_under_eq (eqv : Nat → Nat → Bool) (base : String) (v : PV) :
    (sepG eqv base v []).1 = nullUploads v ∧
    ids (sepG eqv base v []).2 = dedupG eqv [] ((upos v).map (·.2)) := by
  refine ⟨sepG_fst eqv base v [], ?_⟩
  rw [sepG_snd, ids_collectG]; rfl

/-- For ANY `==` that equates two DIFFERENT Upload objects (in both directions — e.g. equality of
    filename and content type): whatever the tree, they are never both sent. -/
theorem equated_uploads_not_both_sent (eqv : Nat → Nat → Bool) (a b : Nat) (hab : eqv a b = true) (hba : eqv b a = true)
    (hne : a ≠ b) (base : String) (v : PV) :
    ¬ (a ∈ ids (sepG eqv base v []).2 ∧ b ∈ ids (sepG eqv base v []).2) := by
  rw [(files_list_is_dedup_under_eq eqv base v).2]
  exact noEq_not_both eqv a b hab hba hne _ (dedupG_noEq eqv _ [] List.Pairwise.nil)

/-- … so "each distinct Upload is sent once" fails on every tree that holds both. -/
theorem value_equality_breaks_each_upload_once (eqv : Nat → Nat → Bool) (a b : Nat) (hab : eqv a b = true)
    (hba : eqv b a = true) (hne : a ≠ b) (base : String) (v : PV) (q q' : Path)
    (ha : (q, a) ∈ upos v) (hb : (q', b) ∈ upos v) :
    ids (sepG eqv base v []).2 ≠ firstOcc ((upos v).map (·.2)) := by
  intro h
  apply equated_uploads_not_both_sent eqv a b hab hba hne base v
  rw [h, firstOcc_mem, firstOcc_mem]
  exact ⟨List.mem_map.mpr ⟨(q, a), ha, rfl⟩, List.mem_map.mpr ⟨(q', b), hb, rfl⟩⟩

/-- two Upload objects compare equal when filename and content type agree (NOT the code: the counter-model) -/
def sameNameAndType (ups : List UploadObj) (a b : Nat) : Bool :=
  a == b || match ups[a]?, ups[b]? with
    | some x, some y => x.filename == y.filename && x.contentType == y.contentType
    | _, _ => false

def twoPhotos : List UploadObj := [⟨"photo.jpg", "image/jpeg", 0⟩, ⟨"photo.jpg", "image/jpeg", 1⟩]
def albumVars : PV := .dict [("photos", .list [.upload 0, .upload 1]), ("cover", .upload 0)]

example : ids (sepG (sameNameAndType twoPhotos) "variables" albumVars []).2 = [0] ∧
    ids (sepG uploadEq "variables" albumVars []).2 = [0, 1] := by decide

/-- `distinct_uploads_both_sent`: on objects, for EVERY heap — whatever the attributes of its Upload objects,
    identical ones included — two different Upload objects that occur in the variables are both in
    `files_list`, at different indices, and the file part of each is made of that object's own
    filename / content / content_type. -/
theorem distinct_uploads_both_sent (fuel : Nat) (cl : Client) (h : OHeap) (c : HCall) (call : Call)
    (hc : h.call? fuel c = some call) (u u' : Nat) (hne : u ≠ u') (q q' : Path)
    (hu : (q, u) ∈ uposKvs (treeOf call.variables)) (hu' : (q', u') ∈ uposKvs (treeOf call.variables)) :
    (∃ fs, executeO fuel cl h c = .ok cl h (req cl call) fs) ∧
    ∃ i i' : Nat, i ≠ i' ∧ (ids (entries call))[i]? = some u ∧ (ids (entries call))[i']? = some u' ∧
      (filesDict h.ups 0 (entries call))[i]? =
        some (toString i, (h.ups[u]?).map fun (o : UploadObj) => (o.filename, o.stream, o.contentType)) ∧
      (filesDict h.ups 0 (entries call))[i']? =
        some (toString i', (h.ups[u']?).map fun (o : UploadObj) => (o.filename, o.stream, o.contentType)) := by
  refine ⟨⟨_, execute_objects_frame fuel cl h c call hc⟩, ?_⟩
  have hids : ids (entries call) = firstOcc ((uposKvs (treeOf call.variables)).map (·.2)) := by
    simp only [entries, processVariables_eq, ids_collect]
  have hm : u ∈ ids (entries call) := by
    rw [hids, firstOcc_mem]; exact List.mem_map.mpr ⟨(q, u), hu, rfl⟩
  have hm' : u' ∈ ids (entries call) := by
    rw [hids, firstOcc_mem]; exact List.mem_map.mpr ⟨(q', u'), hu', rfl⟩
  obtain ⟨i, hi⟩ := List.mem_iff_getElem?.mp hm
  obtain ⟨i', hi'⟩ := List.mem_iff_getElem?.mp hm'
  have hget : ∀ (n : Nat) (w : Nat), (ids (entries call))[n]? = some w →
      (filesDict h.ups 0 (entries call))[n]? =
        some (toString n, (h.ups[w]?).map fun (o : UploadObj) => (o.filename, o.stream, o.contentType)) := by
    intro n w hn
    simp only [ids, List.getElem?_map] at hn
    cases he : (entries call)[n]? with
    | none => simp [he] at hn
    | some e =>
      simp only [he, Option.map_some, Option.some.injEq] at hn
      subst hn
      simp [filesDict_get, he]
  refine ⟨i, i', ?_, hi, hi', hget i u hi, hget i' u' hi'⟩
  intro e; subst e
  rw [hi] at hi'; exact hne (Option.some.inj hi')

/-- non-vacuity: two Upload objects with identical attributes and one stream each, in one call -/
def twinHeap : OHeap :=
  { hdrs := [], objs := [.dict [("photos", .ref 1), ("cover", .imm (.upload 0))], .list [.imm (.upload 0), .imm (.upload 1)]],
    ups := twoPhotos }

example : (match executeO 3 sendStep.1 twinHeap sendStep.2 with
    | .ok _ _ _ fs => fs
    | .illFormed => []) =
    [("0", some ("photo.jpg", 0, "image/jpeg")), ("1", some ("photo.jpg", 1, "image/jpeg"))] := by decide

/-! ## 4. the property as written, its two counterexamples, and the proved region -/

/-- The property for one call.  `T` is the variables tree the property speaks about (models stand
    for their dumps, top-level UNSET dropped). -/
def Holds (cl : Client) (c : Call) : Prop :=
  let T := idealVars c.variables
  let caller := c.headers.getD []
  -- the four clients, tracer on or off: same request/outcome, client object untouched
  (∀ cl' : Client, cl'.url = cl.url → req cl' c = req cl c ∧ (execute cl' c).1 = cl') ∧
  match req cl c with
  | .serializationError => False                                    -- a body is posted
  | .json url b hs kw =>
      uposKvs T = [] ∧ url = cl.url ∧ kw = c.kwargs ∧
      (∃ vs, b = payload c vs) ∧                                    -- exactly query, operationName, variables
      (∀ k v, (k, v) ∈ caller → fieldValues k hs = [v]) ∧           -- caller-supplied headers merged and winning
      ((∀ k ∈ headerKeys caller, lowerName k ≠ lowerName "Content-Type") →
        fieldValues "Content-Type" hs = ["application/json"])       -- Content-Type application/json
  | .multipart url ops mp files hs kw =>
      uposKvs T ≠ [] ∧ url = cl.url ∧ kw = c.kwargs ∧ hs = c.headers ∧
      ∃ (vs : List (String × J)) (st : List Entry),
        ops = payload c vs ∧ mp = .obj (mapOf 0 st) ∧ files = filesOf 0 st ∧
        -- every file position is null in operations
        (∀ q u, (q, u) ∈ uposKvs T → jAt? q (.obj vs) = some .null) ∧
        -- map lists exactly those paths (per Upload, in order)
        (∀ e ∈ st, e.paths = ((uposKvs T).filter (fun pu => pu.2 = e.id)).map (fun pu => render "variables" pu.1)) ∧
        -- each distinct Upload is sent once
        ids st = firstOcc ((uposKvs T).map (·.2)) ∧ (ids st).Nodup

/-- C11 as written. -/
def C11_full : Prop := ∀ (cl : Client) (c : Call), validCall c = true → Holds cl c

def Supported_11 (c : Call) : Prop := ¬ (trigContentTypeCase c = true ∨ trigUploadInModelBelowDict c = true)

instance (c : Call) : Decidable (Supported_11 c) := by unfold Supported_11; infer_instance

/-- witness of C11-F1: `execute(q, headers={"content-type": "text/plain"})` -/
def witnessF1 : Call :=
  { query := "query Q { x }", opName := some "Q", variables := none,
    headers := some [("content-type", "text/plain")], kwargs := [] }

/-- witness of C11-F2: `variables={"where": {"m": Inner(file=Upload#0)}}` -/
def witnessF2 : Call :=
  { query := "mutation U { u }", opName := some "U",
    variables := some [("where", .dict [("m", .model (.dict [("file", .upload 0)]) none)])],
    headers := none, kwargs := [] }

def someClient : Client := { kind := .async, url := "http://verif.test/graphql", tracer := false }

example : validCall witnessF1 = true ∧ trigContentTypeCase witnessF1 = true := by decide
example : validCall witnessF2 = true ∧ trigUploadInModelBelowDict witnessF2 = true := by decide

/-- C11-F1: both `Content-Type: application/json` and `content-type: text/plain` are sent. -/
theorem C11_F1_witness_fails : ¬ Holds someClient witnessF1 := by
  intro h
  have hreq : req someClient witnessF1 =
      .json "http://verif.test/graphql" (payload witnessF1 [])
        [("Content-Type", "application/json"), ("content-type", "text/plain")] [] :=
    req_json someClient witnessF1 [] rfl rfl
  unfold Holds at h
  rw [hreq] at h
  have := h.2.2.2.2.2.1 "content-type" "text/plain" (by simp [witnessF1])
  revert this
  decide

/-- C11-F2: the Upload is not extracted and `json.dumps` raises — no request at all. -/
theorem C11_F2_witness_fails : ¬ Holds someClient witnessF2 := by
  intro h
  have hreq : req someClient witnessF2 = .serializationError := req_error someClient witnessF2 rfl
  unfold Holds at h
  rw [hreq] at h
  exact h.2

theorem C11_full_false : ¬ C11_full :=
  fun h => C11_F1_witness_fails (h someClient witnessF1 (by decide))

/-- C11 on everything outside the two finding triggers. -/
theorem C11_partial (cl : Client) (c : Call) (hv : validCall c = true) (hs : Supported_11 c) : Holds cl c := by
  have hF1 : trigContentTypeCase c = false := by
    cases h : trigContentTypeCase c <;> simp [Supported_11, h] at hs ⊢
  have hF2 : hiddenTopKvs (c.variables.getD []) = false := by
    cases h : trigUploadInModelBelowDict c
    · simpa [trigUploadInModelBelowDict] using h
    · simp [Supported_11, h] at hs
  simp only [validCall, validVars, validHeaders, Bool.and_eq_true] at hv
  obtain ⟨⟨⟨⟨hdist, huniq⟩, hplain⟩, hser⟩, hci⟩ := hv
  -- the ideal tree and the tree separate_files walks have the same Upload positions
  have hpos : uposKvs (idealVars c.variables) = uposKvs (treeOf c.variables) := by
    simpa [idealVars, treeOf] using uposKvs_ideal (c.variables.getD []) hplain hF2
  have hsome := toJsonKvs_convertDict_isSome (c.variables.getD []) hser hplain hF2
  obtain ⟨vs, hvs⟩ := Option.isSome_iff_exists.mp hsome
  have hvs' : toJsonKvs (nullUploadsKvs (treeOf c.variables)) = some vs := by simpa [treeOf] using hvs
  have huq : uniq (.dict (treeOf c.variables)) = true := uniq_tree _ hdist huniq
  unfold Holds
  refine ⟨fun cl' hu => ⟨telemetry_same_request cl cl' c hu, execute_fst cl' c⟩, ?_⟩
  by_cases hup : uposKvs (treeOf c.variables) = []
  · -- JSON
    rw [req_json cl c vs hvs' hup]
    dsimp only
    have hd := distinct_of_ciDistinct hci
    have hc := dictUpdate_closed "Content-Type" (c.headers.getD []) "application/json" [] hd (by simp [headerKeys])
    have hnot : ctOtherSpelling c.headers = false := by
      simpa [trigContentTypeCase, hpos, hup] using hF1
    have hsp := not_otherSpelling hnot
    have hdrop : fieldValues "Content-Type" (dropKey "Content-Type" (c.headers.getD [])) = [] := by
      apply fieldValues_none
      intro k hk e
      have := headerKeys_dropKey hk
      exact this.2 (hsp k this.1 e)
    refine ⟨by rw [hpos, hup], rfl, rfl, ⟨vs, rfl⟩, ?_, ?_⟩
    · intro k v hm
      rw [hc]
      by_cases hk : k = "Content-Type"
      · subst hk
        simp [fieldValues, lookupS_of_mem hd hm, hdrop]
      · have hl : lowerName k ≠ lowerName "Content-Type" := fun e => hk (hsp k (mem_headerKeys_of_mem hm) e)
        have hl' : ¬ lowerName "Content-Type" = lowerName k := fun e => hl e.symm
        simp [fieldValues, hl', fieldValues_dropKey _ hl, fieldValues_of_mem hci hm]
    · intro hno
      rw [hc]
      have : lookupS "Content-Type" (c.headers.getD []) = none :=
        lookupS_none (fun hm => hno _ hm rfl)
      simp [fieldValues, this, hdrop]
  · -- multipart
    rw [req_multipart cl c vs hvs' hup]
    dsimp only
    refine ⟨by rw [hpos]; exact hup, rfl, rfl, rfl, vs, entries c, rfl, rfl, rfl, ?_, ?_, ?_, ?_⟩
    · intro q u hm
      rw [hpos] at hm
      have hat : pvAt? q (.dict (treeOf c.variables)) = some (.upload u) :=
        (upos_at _ huq q u).mp (by simpa [upos] using hm)
      have hnull := pvAt_nullUploads q _ _ hat
      have hj : toJson (nullUploads (.dict (treeOf c.variables))) = some (.obj vs) := by
        simp [nullUploads, toJson, hvs']
      obtain ⟨j', h1, h2⟩ := jAt_toJson q _ _ _ hj hnull
      simp only [nullUploads, toJson, Option.some.injEq] at h1
      rw [← h1] at h2; exact h2
    · intro e he
      have : entries c = (sepDict "variables" (treeOf c.variables) []).2 := by
        simp [entries, processVariables_eq, sepDict_snd]
      rw [hpos]
      have hn : (ids (entries c)).Nodup := by
        simp only [entries, processVariables_eq, ids_collect]; exact firstOcc_nodup _
      rw [← pathsOf_of_mem hn he]
      simp only [entries, processVariables_eq]
      exact pathsOf_collect "variables" e.id _
    · simp only [entries, processVariables_eq, ids_collect, hpos]
    · simp only [entries, processVariables_eq, ids_collect]; exact firstOcc_nodup _

/-- C11 for calls on references: outside the two finding triggers every call leaves the client and the
    whole argument heap untouched and sends a request for which the property holds — so the statement
    carries over to every sequence / schedule of calls sharing argument objects
    (`sequence_shared_args`, `interleave_commutes_shared_args`). -/
theorem C11_partial_shared_args (cl : Client) (h : Heap) (c : HCall) (call : Call) (hc : h.call? c = some call)
    (hv : validCall call = true) (hs : Supported_11 call) :
    executeH cl h c = .ok cl h (req cl call) ∧ Holds cl call :=
  ⟨execute_args_frame cl h c call hc, C11_partial cl call hv hs⟩

/-- C11 for calls on OBJECTS: outside the two finding triggers every call leaves the client and every
    list/dict/Upload/headers object of the heap untouched (any aliasing) and sends a request for which the
    property holds — so the statement carries over to every sequence / schedule of calls sharing objects
    (`sequence_shared_objects`, `interleave_commutes_shared_objects`). -/
theorem C11_partial_shared_objects (fuel : Nat) (cl : Client) (h : OHeap) (c : HCall) (call : Call)
    (hc : h.call? fuel c = some call) (hv : validCall call = true) (hs : Supported_11 call) :
    executeO fuel cl h c = .ok cl h (req cl call) (filesOfCall h.ups cl call) ∧ Holds cl call :=
  ⟨execute_objects_frame fuel cl h c call hc, C11_partial cl call hv hs⟩

example : ∃ call, retryHeap.call? 4 sendStep.2 = some call ∧ validCall call = true ∧ Supported_11 call :=
  ⟨_, rfl, by decide, by decide⟩

/-- non-vacuity: a shared Upload at three paths plus one inside a dumped model, caller headers, timeout -/
def sampleCall : Call :=
  { query := "mutation U { u }", opName := none,
    variables := some [("a", .upload 7), ("z", .unset),
                       ("b", .list [.upload 7, .dict [("c", .upload 7), ("d", .leaf (some (.str "RED")))]]),
                       ("m", .model (.dict [("file", .upload 9), ("n", .num 1 0)]) none)],
    headers := some [("Content-Type", "text/plain"), ("X-A", "1")], kwargs := [("timeout", .num 3 0)] }

example : validCall sampleCall = true ∧ Supported_11 sampleCall := by decide
example : keysOkKvs (treeOf sampleCall.variables) = true := by decide
example : ids (entries sampleCall) = [7, 9] ∧
    pathsOf 7 (entries sampleCall) = ["variables.a", "variables.b.0", "variables.b.1.c"] ∧
    pathsOf 9 (entries sampleCall) = ["variables.m.file"] := by decide

end Ariadne.C11
