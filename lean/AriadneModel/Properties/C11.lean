/-
  C11 — Requests are well-formed, uploads follow the multipart spec, clients agree.

  Statements + final proofs; the model is Model/BaseClient.lean (one function for the four bundled
  clients — the tie to the four real files is the correspondence run plus the 4-way normalised-AST
  comparison of harness/c11.py), the vocabulary is Model/BaseClientTree.lean, lemmas are in
  Proofs/BaseClient.lean.

  Quantification: every query string, operation name, variables tree (`PV`: no bound on size, depth,
  number or sharing of Upload objects), caller headers, other keyword arguments, client
  configuration (four kinds × tracer present/absent), and every schedule of concurrent calls.

  Reading decisions (recorded in manifest.d/C11.json):
    * `validCall`: the `PV` value encodes a Python value of the quantifier — dict keys unique,
      pydantic dumps contain no model instance, every leaf that is not an Upload is serialisable
      by `json.dumps(default=to_jsonable_python)`, UNSET only as a top-level variable value,
      the caller's header dict does not name one HTTP field twice.
    * "the variables" of the multipart laws is the *ideal tree* `idealVars`: every pydantic
      model, wherever it sits, stands for its `model_dump(by_alias=True, exclude_unset=True)`.

  Besides the client object, the objects `execute` is GIVEN are state that later calls see (one
  headers dict / variables dict / Upload handed to several calls, on one client or on several of the
  four): section 3b states the frame for them on the reference-level model `executeH`
  (Model/BaseClientHeap.lean) — every call leaves every caller-owned dict as it was, so sequences and
  interleavings of calls that SHARE argument objects send, per call, the request of the call run alone.

  Two findings make the property false as written (`C11_full_false`); outside their triggers it is
  proved (`C11_partial`):
    C11-F1 `trigContentTypeCase`        a caller Content-Type header in another spelling does not win
    C11-F2 `trigUploadInModelBelowDict` an Upload inside a model below a raw dict is not extracted
-/
import AriadneModel.Proofs.BaseClientHeap

set_option linter.unusedSimpArgs false
set_option linter.unusedVariables false

namespace Ariadne.C11
open Ariadne Ariadne.BaseClient

/-- what a call puts on the wire -/
def req (cl : Client) (c : Call) : Request := (execute cl c).2

/-- the payload with exactly the keys `query`, `operationName`, `variables` -/
def payload (c : Call) (vs : List (String × J)) : J :=
  .obj [("query", .str c.query), ("operationName", opJ c), ("variables", .obj vs)]

def isJson : Request → Bool | .json .. => true | _ => false
def isMultipart : Request → Bool | .multipart .. => true | _ => false
def isError : Request → Bool | .serializationError => true | _ => false

/-- the entries `(files_list, files_map)` of a call -/
def entries (c : Call) : List Entry := (processVariables c.variables).2

/-! ## 1. `separate_files`, for every tree (induction over `PV`) -/

/-- The returned tree is the input with every Upload replaced by `None` and *nothing else changed*,
    whatever the path prefix and the files found so far. -/
theorem sep_returns_nulled (base : String) (v : PV) (st : List Entry) :
    (sep base v st).1 = nullUploads v := sep_fst base v st

/-- After `separate_files` no Upload is left in `operations`. -/
theorem sep_no_upload_left (base : String) (v : PV) (st : List Entry) :
    noUpload (sep base v st).1 = true ∧ upos (sep base v st).1 = [] := by
  rw [sep_fst]
  exact ⟨noUpload_nullUploads v, upos_of_noUpload _ (noUpload_nullUploads v)⟩

/-- Unrelated positions are unchanged: whatever sat at a path still sits there (with the Uploads
    inside it nulled); in particular every Upload position holds `None`. -/
theorem unrelated_positions_unchanged (base : String) (v w : PV) (st : List Entry) (q : Path)
    (h : pvAt? q v = some w) : pvAt? q (sep base v st).1 = some (nullUploads w) := by
  rw [sep_fst]; exact pvAt_nullUploads q v w h

theorem upload_position_nulled (base : String) (v : PV) (st : List Entry) (q : Path) (u : Nat)
    (hu : uniq v = true) (h : (q, u) ∈ upos v) : pvAt? q (sep base v st).1 = some .none := by
  have := unrelated_positions_unchanged base v (.upload u) st q ((upos_at v hu q u).mp h)
  simpa [nullUploads] using this

/-- Upload positions are exactly the paths at which the original value is that Upload. -/
theorem upload_positions_iff (v : PV) (hu : uniq v = true) (q : Path) (u : Nat) :
    (q, u) ∈ upos v ↔ pvAt? q v = some (.upload u) := upos_at v hu q u

/-- `map` (DESIGN.md: `multipart_null_and_map`): starting from no files, the entry of Upload `u` lists
    exactly the rendered paths at which the original value is `u`, in traversal order — both directions. -/
theorem multipart_null_and_map (base : String) (v : PV) (u : Nat) :
    pathsOf u (sep base v []).2 = ((upos v).filter (fun pu => pu.2 = u)).map (fun pu => render base pu.1) := by
  rw [sep_snd]; exact pathsOf_collect base u (upos v)

theorem map_lists_exactly_upload_paths (base : String) (v : PV) (hu : uniq v = true) (u : Nat) (p : String) :
    p ∈ pathsOf u (sep base v []).2 ↔ ∃ q, pvAt? q v = some (.upload u) ∧ render base q = p := by
  rw [multipart_null_and_map]
  simp only [List.mem_map, List.mem_filter, decide_eq_true_eq, Prod.exists]
  constructor
  · rintro ⟨q, u', ⟨hm, rfl⟩, rfl⟩
    exact ⟨q, (upos_at v hu q u').mp hm, rfl⟩
  · rintro ⟨q, hq, rfl⟩
    exact ⟨q, u, ⟨(upos_at v hu q u).mpr hq, rfl⟩, rfl⟩

/-- Each distinct Upload is sent once: `files_list` is the distinct Uploads in first-occurrence order. -/
theorem each_upload_once (base : String) (v : PV) :
    ids (sep base v []).2 = firstOcc ((upos v).map (·.2)) ∧ (ids (sep base v []).2).Nodup := by
  rw [sep_snd, ids_collect]
  exact ⟨rfl, firstOcc_nodup _⟩

/-- …and an Upload is in `files_list` iff it occurs in the tree. -/
theorem upload_sent_iff_occurs (base : String) (v : PV) (u : Nat) :
    u ∈ ids (sep base v []).2 ↔ ∃ q, (q, u) ∈ upos v := by
  rw [(each_upload_once base v).1, firstOcc_mem]
  simp

/-- Every entry of `files_map` belongs to exactly one file and carries all of that file's paths. -/
theorem entry_paths (base : String) (v : PV) (e : Entry) (h : e ∈ (sep base v []).2) :
    e.paths = ((upos v).filter (fun pu => pu.2 = e.id)).map (fun pu => render base pu.1) := by
  rw [← multipart_null_and_map]
  exact (pathsOf_of_mem (each_upload_once base v).2 h).symm

/-- Upload positions are pairwise distinct (no path is listed twice, within or across entries). -/
theorem upload_positions_distinct (v : PV) (hu : uniq v = true) : ((upos v).map (·.1)).Nodup := upos_nodup v hu

/-- Rendering is injective on paths whose keys are GraphQL names (no '.', not a numeral) … -/
theorem render_injective (base : String) (q q' : Path) (h : pathOk q = true) (h' : pathOk q' = true)
    (e : render base q = render base q') : q = q' := render_inj base q q' h h' e

/-- … so the dotted strings listed in `map` are pairwise distinct as well. -/
theorem map_paths_pairwise_distinct (base : String) (v : PV) (hu : uniq v = true) (hk : keysOk v = true) :
    ((upos v).map (fun pu => render base pu.1)).Nodup := rendered_nodup base v hu hk

theorem entry_paths_nodup (base : String) (v : PV) (hu : uniq v = true) (hk : keysOk v = true) (e : Entry)
    (h : e ∈ (sep base v []).2) : e.paths.Nodup := by
  rw [entry_paths base v e h]
  have := rendered_nodup base v hu hk
  have hsub : ((upos v).filter (fun pu => pu.2 = e.id)).map (fun pu => render base pu.1) =
      ((upos v).filter (fun pu => pu.2 = e.id)).map (fun pu => render base pu.1) := rfl
  exact (List.Pairwise.sublist (List.Sublist.map _ List.filter_sublist) this)

/-- `files` and `map` handed to httpx are these entries position by position: the i-th file part is
    named `str(i)` and carries Upload `entries[i].id`; the i-th `map` member has key `str(i)` and
    lists `entries[i].paths`. -/
theorem files_and_map_aligned (st : List Entry) (i : Nat) :
    (filesOf 0 st)[i]? = st[i]?.map (fun e => (toString i, e.id)) ∧
    (mapOf 0 st)[i]? = st[i]?.map (fun e => (toString i, J.arr (e.paths.map J.str))) ∧
    (filesOf 0 st).length = st.length ∧ (mapOf 0 st).length = st.length := by
  refine ⟨?_, ?_, filesOf_length 0 st, mapOf_length 0 st⟩
  · simpa using filesOf_get 0 i st
  · simpa using mapOf_get 0 i st

/-! ## 2. `execute` -/

/-- What `execute` computes, in closed form (tracer on or off, any of the four kinds). -/
theorem execute_closed (cl : Client) (c : Call) :
    req cl c =
      match toJsonKvs (nullUploadsKvs (treeOf c.variables)) with
      | none => .serializationError
      | some vs =>
        if (uposKvs (treeOf c.variables)).isEmpty then
          .json cl.url (payload c vs) (dictUpdate [("Content-Type", "application/json")] (c.headers.getD [])) c.kwargs
        else
          .multipart cl.url (payload c vs) (.obj (mapOf 0 (entries c))) (filesOf 0 (entries c)) c.headers c.kwargs := by
  unfold req entries
  rw [execute_snd]
  unfold executePlain
  simp only [processVariables_eq, collect_isEmpty]
  cases h : toJsonKvs (nullUploadsKvs (treeOf c.variables)) with
  | none => simp [executeJson, executeMultipart, body, h]
  | some vs => split <;> simp [executeJson, executeMultipart, body, h, payload]

theorem req_error (cl : Client) (c : Call) (h : toJsonKvs (nullUploadsKvs (treeOf c.variables)) = none) :
    req cl c = .serializationError := by
  rw [execute_closed, h]

theorem req_json (cl : Client) (c : Call) (vs : List (String × J))
    (h : toJsonKvs (nullUploadsKvs (treeOf c.variables)) = some vs) (hu : uposKvs (treeOf c.variables) = []) :
    req cl c = .json cl.url (payload c vs)
      (dictUpdate [("Content-Type", "application/json")] (c.headers.getD [])) c.kwargs := by
  rw [execute_closed, h]; simp [hu]

theorem req_multipart (cl : Client) (c : Call) (vs : List (String × J))
    (h : toJsonKvs (nullUploadsKvs (treeOf c.variables)) = some vs) (hu : uposKvs (treeOf c.variables) ≠ []) :
    req cl c = .multipart cl.url (payload c vs) (.obj (mapOf 0 (entries c))) (filesOf 0 (entries c)) c.headers c.kwargs := by
  rw [execute_closed, h]
  have : ¬ (uposKvs (treeOf c.variables)).isEmpty = true := by
    cases h' : uposKvs (treeOf c.variables) with
    | nil => exact absurd h' hu
    | cons _ _ => simp
  simp [this]

/-- the three outcomes, exhaustively -/
theorem req_cases (cl : Client) (c : Call) :
    (toJsonKvs (nullUploadsKvs (treeOf c.variables)) = none ∧ req cl c = .serializationError) ∨
    (∃ vs, toJsonKvs (nullUploadsKvs (treeOf c.variables)) = some vs ∧ uposKvs (treeOf c.variables) = [] ∧
      req cl c = .json cl.url (payload c vs) (dictUpdate [("Content-Type", "application/json")] (c.headers.getD [])) c.kwargs) ∨
    (∃ vs, toJsonKvs (nullUploadsKvs (treeOf c.variables)) = some vs ∧ uposKvs (treeOf c.variables) ≠ [] ∧
      req cl c = .multipart cl.url (payload c vs) (.obj (mapOf 0 (entries c))) (filesOf 0 (entries c)) c.headers c.kwargs) := by
  cases h : toJsonKvs (nullUploadsKvs (treeOf c.variables)) with
  | none => exact Or.inl ⟨rfl, req_error cl c h⟩
  | some vs =>
    by_cases hu : uposKvs (treeOf c.variables) = []
    · exact Or.inr (Or.inl ⟨vs, rfl, hu, req_json cl c vs h hu⟩)
    · exact Or.inr (Or.inr ⟨vs, rfl, hu, req_multipart cl c vs h hu⟩)

/-- `operations_keys`: whatever is sent carries exactly `query`, `operationName`, `variables`
    (with the call's query and operation name, `variables` an object). -/
theorem operations_keys (cl : Client) (c : Call) :
    match req cl c with
    | .json _ b _ _ => ∃ vs, b = payload c vs
    | .multipart _ ops _ _ _ _ => ∃ vs, ops = payload c vs
    | .serializationError => True := by
  rcases req_cases cl c with ⟨_, h⟩ | ⟨vs, _, _, h⟩ | ⟨vs, _, _, h⟩ <;> rw [h]
  · trivial
  · exact ⟨vs, rfl⟩
  · exact ⟨vs, rfl⟩

/-- `json_when_no_upload`: JSON exactly when the tree `separate_files` walks holds no Upload. -/
theorem json_when_no_upload (cl : Client) (c : Call) :
    (isMultipart (req cl c) = true → uposKvs (treeOf c.variables) ≠ []) ∧
    (isJson (req cl c) = true → uposKvs (treeOf c.variables) = []) := by
  rcases req_cases cl c with ⟨_, h⟩ | ⟨vs, _, hu, h⟩ | ⟨vs, _, hu, h⟩
  · rw [h]; simp [isMultipart, isJson]
  · rw [h]; simp [isMultipart, isJson, hu]
  · rw [h]; simp [isMultipart, isJson, hu]

/-- `variables` None, `{}` and all-UNSET give `"variables": {}` in a JSON request. -/
theorem empty_variables_give_empty_object (cl : Client) (c : Call)
    (h : c.variables = none ∨ c.variables = some [] ∨ ∀ kv ∈ c.variables.getD [], kv.2 = .unset) :
    req cl c = .json cl.url (payload c []) (dictUpdate [("Content-Type", "application/json")] (c.headers.getD [])) c.kwargs := by
  have ht : treeOf c.variables = [] := by
    rcases h with h | h | h
    · simp [h, treeOf, convertDict]
    · simp [h, treeOf, convertDict]
    · unfold treeOf
      generalize c.variables.getD [] = kvs at h
      induction kvs with
      | nil => rfl
      | cons kv rest ih =>
        obtain ⟨k, x⟩ := kv
        have hx : x = .unset := h (k, x) (by simp)
        subst hx
        simpa [convertDict, PV.isUnset] using ih (fun kv hkv => h kv (by simp [hkv]))
  exact req_json cl c [] (by simp [ht, nullUploadsKvs, toJsonKvs]) (by simp [ht, uposKvs])

/-- The request is an exception exactly when something that is not an Upload cannot be serialised. -/
theorem error_iff_unserialisable (cl : Client) (c : Call) :
    isError (req cl c) = true ↔ toJsonKvs (nullUploadsKvs (treeOf c.variables)) = none := by
  rcases req_cases cl c with ⟨h0, h⟩ | ⟨vs, h0, _, h⟩ | ⟨vs, h0, _, h⟩ <;> rw [h, h0] <;> simp [isError]

/-- `header_merge_caller_wins` (Python dict level): the JSON request's headers are
    `Content-Type: application/json` updated with the caller's dict — every caller key carries the
    caller's value, Content-Type is the caller's if given under exactly that key, and no other key appears. -/
theorem header_merge_caller_wins (cl : Client) (c : Call) (url : String) (b : J) (hs : List (String × String))
    (kw : List (String × J)) (h : req cl c = .json url b hs kw)
    (hd : distinct (headerKeys (c.headers.getD [])) = true) :
    url = cl.url ∧ kw = c.kwargs ∧
    (∀ k v, (k, v) ∈ c.headers.getD [] → lookupS k hs = some v) ∧
    lookupS "Content-Type" hs = some ((lookupS "Content-Type" (c.headers.getD [])).getD "application/json") ∧
    headerKeys hs = "Content-Type" :: headerKeys (dropKey "Content-Type" (c.headers.getD [])) := by
  rcases req_cases cl c with ⟨_, h'⟩ | ⟨vs, _, _, h'⟩ | ⟨vs, _, _, h'⟩ <;> rw [h'] at h
  · cases h
  · simp only [Request.json.injEq] at h
    obtain ⟨h1, _, h3, h4⟩ := h
    have hc := dictUpdate_closed "Content-Type" (c.headers.getD []) "application/json" [] hd (by simp [headerKeys])
    rw [hc] at h3
    subst h3
    refine ⟨h1.symm, h4.symm, ?_, by simp [lookupS], by simp [headerKeys]⟩
    intro k v hm
    by_cases hk : k = "Content-Type"
    · subst hk; simp [lookupS, lookupS_of_mem hd hm]
    · have : ¬ "Content-Type" = k := fun e => hk e.symm
      simp [lookupS, this, lookupS_dropKey _ hk, lookupS_of_mem hd hm]
  · cases h

/-- A multipart request passes the caller's keyword arguments (headers included) through untouched. -/
theorem multipart_passes_kwargs (cl : Client) (c : Call) (url : String) (ops mp : J) (files : List (String × Nat))
    (hs : Option (List (String × String))) (kw : List (String × J))
    (h : req cl c = .multipart url ops mp files hs kw) :
    url = cl.url ∧ hs = c.headers ∧ kw = c.kwargs ∧ mp = .obj (mapOf 0 (entries c)) ∧ files = filesOf 0 (entries c) := by
  rcases req_cases cl c with ⟨_, h'⟩ | ⟨vs, _, _, h'⟩ | ⟨vs, _, _, h'⟩ <;> rw [h'] at h
  · cases h
  · cases h
  · simp only [Request.multipart.injEq] at h
    exact ⟨h.1.symm, h.2.2.2.2.1.symm, h.2.2.2.2.2.symm, h.2.2.1.symm, h.2.2.2.1.symm⟩

/-! ## 3. the four clients, telemetry, frame, interleavings -/

/-- `telemetry_same_request`: tracer present or absent, plain or OpenTelemetry twin, sync or async —
    the request (or the exception) is the same. -/
theorem telemetry_same_request (cl cl' : Client) (c : Call) (h : cl'.url = cl.url) : req cl' c = req cl c := by
  unfold req; rw [execute_snd, execute_snd, executePlain_url cl cl' c h]

/-- `execute_frame`: `execute` does not modify the client object. -/
theorem execute_frame (cl : Client) (c : Call) : (execute cl c).1 = cl := execute_fst cl c

/-- A call in flight: not started, request prepared (suspended at `await http_client.post`), done. -/
inductive Phase where
  | todo (c : Call)
  | prepared (r : Request)
  | done (r : Request)

structure World where
  client : Client
  tasks : List Phase
  wire : List Request          -- what the transport has seen, in order

/-- one scheduler step: task `i` advances by one phase (anything else is a no-op) -/
def step (w : World) (i : Nat) : World :=
  match w.tasks[i]? with
  | some (.todo c) => { client := (execute w.client c).1, tasks := w.tasks.set i (.prepared (execute w.client c).2), wire := w.wire }
  | some (.prepared r) => { w with tasks := w.tasks.set i (.done r), wire := w.wire ++ [r] }
  | _ => w

def runSchedule (w : World) (sched : List Nat) : World := sched.foldl step w

def start (cl : Client) (calls : List Call) : World := { client := cl, tasks := calls.map .todo, wire := [] }

/-- phase `ph` of task `i` is consistent with running call `i` alone on the untouched client -/
def PhaseOk (cl : Client) (c : Call) : Phase → Prop
  | .todo c' => c' = c
  | .prepared r => r = req cl c
  | .done r => r = req cl c

def Inv (cl : Client) (calls : List Call) (w : World) : Prop :=
  w.client = cl ∧ w.tasks.length = calls.length ∧
  (∀ (i : Nat) c ph, calls[i]? = some c → w.tasks[i]? = some ph → PhaseOk cl c ph) ∧
  (∀ r ∈ w.wire, ∃ c ∈ calls, r = req cl c)

theorem inv_start (cl : Client) (calls : List Call) : Inv cl calls (start cl calls) := by
  refine ⟨rfl, by simp [start], ?_, by simp [start]⟩
  intro i c ph hc hp
  simp only [start, List.getElem?_map, hc, Option.map_some, Option.some.injEq] at hp
  subst hp; rfl

theorem inv_step (cl : Client) (calls : List Call) (w : World) (i : Nat) (h : Inv cl calls w) :
    Inv cl calls (step w i) := by
  obtain ⟨h1, h2, h3, h4⟩ := h
  unfold step
  cases hp : w.tasks[i]? with
  | none => exact ⟨h1, h2, h3, h4⟩
  | some ph =>
    have hi : i < calls.length := by
      have := (List.getElem?_eq_some_iff.mp hp).1; omega
    have hc : calls[i]? = some calls[i] := List.getElem?_eq_getElem hi
    have hok := h3 i calls[i] ph hc hp
    cases ph with
    | done r => exact ⟨h1, h2, h3, h4⟩
    | todo c' =>
      simp only [PhaseOk] at hok
      subst hok
      refine ⟨by simp [execute_fst, h1], by simp [h2], ?_, h4⟩
      intro j c ph hcj hpj
      by_cases hij : i = j
      · subst hij
        have hlt : i < w.tasks.length := by omega
        simp only [List.getElem?_set_self hlt, Option.some.injEq] at hpj
        subst hpj
        rw [hc] at hcj; cases hcj
        simp [PhaseOk, req, h1]
      · simp only [List.getElem?_set_ne hij] at hpj
        exact h3 j c ph hcj hpj
    | prepared r =>
      simp only [PhaseOk] at hok
      refine ⟨h1, by simp [h2], ?_, ?_⟩
      · intro j c ph hcj hpj
        by_cases hij : i = j
        · subst hij
          have hlt : i < w.tasks.length := by omega
          simp only [List.getElem?_set_self hlt, Option.some.injEq] at hpj
          subst hpj
          rw [hc] at hcj; cases hcj
          simpa [PhaseOk] using hok
        · simp only [List.getElem?_set_ne hij] at hpj
          exact h3 j c ph hcj hpj
      · intro r' hr'
        simp only [List.mem_append, List.mem_singleton] at hr'
        rcases hr' with hr' | hr'
        · exact h4 r' hr'
        · exact ⟨calls[i], List.getElem_mem hi, hr' ▸ hok⟩

/-- `interleave_commutes`: for EVERY schedule of the steps of any number of concurrent calls on one
    client — any order, any interleaving, unfinished calls allowed — the client object is unchanged,
    each call that got as far as preparing or sending its request prepared/sent exactly the request
    it sends when run alone, and the transport saw nothing but such requests. -/
theorem interleave_commutes (cl : Client) (calls : List Call) (sched : List Nat) :
    let w := runSchedule (start cl calls) sched
    w.client = cl ∧
    (∀ (i : Nat) c r, calls[i]? = some c →
      (w.tasks[i]? = some (Phase.done r) ∨ w.tasks[i]? = some (Phase.prepared r)) → r = req cl c) ∧
    (∀ r ∈ w.wire, ∃ c ∈ calls, r = req cl c) := by
  have hinv : ∀ (sched : List Nat) (w : World), Inv cl calls w → Inv cl calls (runSchedule w sched) := by
    intro sched
    induction sched with
    | nil => intro w h; exact h
    | cons i rest ih => intro w h; exact ih (step w i) (inv_step cl calls w i h)
  obtain ⟨h1, _, h3, h4⟩ := hinv sched _ (inv_start cl calls)
  refine ⟨h1, ?_, h4⟩
  intro i c r hc hp
  rcases hp with hp | hp
  · simpa [PhaseOk] using h3 i c _ hc hp
  · simpa [PhaseOk] using h3 i c _ hc hp

/-- sequential calls: the i-th response depends on the i-th call only -/
theorem sequential_calls_independent (cl : Client) (calls : List Call) :
    (calls.foldl (fun (acc : Client × List Request) c => ((execute acc.1 c).1, acc.2 ++ [(execute acc.1 c).2])) (cl, [])) =
      (cl, calls.map (req cl)) := by
  generalize hf : (fun (acc : Client × List Request) c => ((execute acc.1 c).1, acc.2 ++ [(execute acc.1 c).2])) = f
  have hstep : ∀ pre c, f (cl, pre) c = (cl, pre ++ [req cl c]) := by
    intro pre c; subst hf; simp [execute_fst, req]
  have : ∀ (pre : List Request), calls.foldl f (cl, pre) = (cl, pre ++ calls.map (req cl)) := by
    induction calls with
    | nil => intro pre; simp
    | cons c rest ih => intro pre; rw [List.foldl_cons, hstep, ih]; simp
  simpa using this []

/-! ## 3b. the caller's argument objects: sequences and interleavings of calls that share them -/

/-- The header merge of `_execute_json` on a store of dict objects, for EVERY store and every caller
    reference: it succeeds iff the reference names an object, every object that existed before the
    call is what it was (the merge writes only into the dict it allocated itself), and the dict
    handed to httpx is `{"Content-Type": "application/json"}` updated with the caller's dict. -/
theorem merge_headers_writes_only_own_object (s : Store) (caller : Option Nat) :
    match mergeHeadersS s caller with
    | some (s', a) =>
        s'.take s.length = s ∧ (∀ i, i < s.length → s'[i]? = s[i]?) ∧ a = s.length ∧
        ∃ d, callerDict s caller = some d ∧
          s'[a]? = some (dictUpdate [("Content-Type", "application/json")] (d.getD []))
    | none => callerDict s caller = none := by
  cases caller with
  | none =>
    rw [mergeHeadersS_none]
    refine ⟨by simp, ?_, rfl, none, rfl, by simp [dictUpdate]⟩
    intro i hi; rw [List.getElem?_append_left hi]
  | some a =>
    cases hd : s[a]? with
    | none => rw [mergeHeadersS_dangling s a hd]; simp [callerDict, hd]
    | some d =>
      rw [mergeHeadersS_some s a d hd]
      refine ⟨by simp, ?_, rfl, some d, by simp [callerDict, hd], by simp⟩
      intro i hi; rw [List.getElem?_append_left hi]

/-- The theorem above is about the code, not about the shape of the model: the rewrite
    `headers = kwargs.get("headers", {}); headers.setdefault("Content-Type", "application/json")`
    (write at the caller's address) does not have the frame property. -/
def mergeHeadersInPlace (s : Store) (caller : Nat) : Option (Store × Nat) :=
  match s[caller]? with
  | some d =>
    some (s.set caller (if (headerKeys d).contains "Content-Type" then d else d ++ [("Content-Type", "application/json")]), caller)
  | none => none

theorem inplace_merge_breaks_frame :
    ∃ (s s' : Store) (a : Nat), mergeHeadersInPlace s 0 = some (s', a) ∧ s'.take s.length ≠ s :=
  ⟨[[("Authorization", "Bearer t")]], _, _, rfl, by decide⟩

/-- `execute_args_frame`: `execute` on references.  Whatever objects the heap holds and whichever of
    them the call names, the client object and EVERY caller-owned dict are afterwards what they were,
    and what is sent is the request of the value-level call (the contents at call time). -/
theorem execute_args_frame (cl : Client) (h : Heap) (c : HCall) (call : Call) (hc : h.call? c = some call) :
    executeH cl h c = .ok cl h (req cl call) := executeH_eq cl h c call hc

/-- …and a reference that names no object is the only way to get no outcome. -/
theorem executeH_illFormed_iff (cl : Client) (h : Heap) (c : HCall) :
    (∃ cl' h' r, executeH cl h c = .ok cl' h' r) ↔ (h.call? c).isSome = true := by
  cases hc : h.call? c with
  | none => simp [executeH_illFormed cl h c hc]
  | some call => simp [executeH_eq cl h c call hc]

/-- `sequence_shared_args`: any number of calls one after the other, each on its own client (any of
    the four kinds, tracer or not), all drawing their `variables` / `headers=` objects from ONE heap in
    any sharing pattern: the heap at the end is the heap at the start, and the i-th call sent exactly
    the request it sends when it is the only call ever made with these objects. -/
theorem sequence_shared_args (h : Heap) (steps : List (Client × HCall)) :
    (runSeqH h steps).1 = h ∧
    (runSeqH h steps).2.length = steps.length ∧
    ∀ (i : Nat) cl c, steps[i]? = some (cl, c) →
      (runSeqH h steps).2[i]? = some ((h.call? c).map (req cl)) := by
  rw [runSeqH_eq]
  have hmap : ∀ steps : List (Client × HCall),
      derefSteps h steps = steps.map (fun st => (h.call? st.2).map (req st.1)) := by
    intro steps
    induction steps with
    | nil => rfl
    | cons st rest ih => obtain ⟨cl, c⟩ := st; simp only [derefSteps, ih, List.map_cons]; rfl
  refine ⟨rfl, by simp [hmap], ?_⟩
  intro i cl c hi
  simp [hmap, List.getElem?_map, hi]

/-- A call in flight whose arguments are references. -/
inductive PhaseH where
  | todo (c : HCall)
  | prepared (r : Request)
  | done (r : Request)

structure WorldH where
  client : Client
  heap : Heap                  -- the caller's objects, shared by all tasks
  tasks : List PhaseH
  wire : List Request

/-- one scheduler step: task `i` advances by one phase; preparing a request runs `executeH` on the
    CURRENT client and the CURRENT heap (whatever earlier steps of other tasks left there) -/
def stepH (w : WorldH) (i : Nat) : WorldH :=
  match w.tasks[i]? with
  | some (.todo c) =>
    match executeH w.client w.heap c with
    | .ok cl' h' r => { client := cl', heap := h', tasks := w.tasks.set i (.prepared r), wire := w.wire }
    | .illFormed => w
  | some (.prepared r) => { w with tasks := w.tasks.set i (.done r), wire := w.wire ++ [r] }
  | _ => w

def runScheduleH (w : WorldH) (sched : List Nat) : WorldH := sched.foldl stepH w

def startH (cl : Client) (h : Heap) (calls : List HCall) : WorldH :=
  { client := cl, heap := h, tasks := calls.map .todo, wire := [] }

def SentAlone (cl : Client) (h : Heap) (c : HCall) (r : Request) : Prop :=
  ∃ call, h.call? c = some call ∧ r = req cl call

def PhaseOkH (cl : Client) (h : Heap) (c : HCall) : PhaseH → Prop
  | .todo c' => c' = c
  | .prepared r => SentAlone cl h c r
  | .done r => SentAlone cl h c r

def InvH (cl : Client) (h : Heap) (calls : List HCall) (w : WorldH) : Prop :=
  w.client = cl ∧ w.heap = h ∧ w.tasks.length = calls.length ∧
  (∀ (i : Nat) c ph, calls[i]? = some c → w.tasks[i]? = some ph → PhaseOkH cl h c ph) ∧
  (∀ r ∈ w.wire, ∃ c ∈ calls, SentAlone cl h c r)

theorem invH_start (cl : Client) (h : Heap) (calls : List HCall) : InvH cl h calls (startH cl h calls) := by
  refine ⟨rfl, rfl, by simp [startH], ?_, by simp [startH]⟩
  intro i c ph hc hp
  simp only [startH, List.getElem?_map, hc, Option.map_some, Option.some.injEq] at hp
  subst hp; rfl

theorem invH_step (cl : Client) (h : Heap) (calls : List HCall) (w : WorldH) (i : Nat)
    (hinv : InvH cl h calls w) : InvH cl h calls (stepH w i) := by
  obtain ⟨h1, hh, h2, h3, h4⟩ := hinv
  unfold stepH
  cases hp : w.tasks[i]? with
  | none => exact ⟨h1, hh, h2, h3, h4⟩
  | some ph =>
    have hi : i < calls.length := by
      have := (List.getElem?_eq_some_iff.mp hp).1; omega
    have hc : calls[i]? = some calls[i] := List.getElem?_eq_getElem hi
    have hok := h3 i calls[i] ph hc hp
    cases ph with
    | done r => exact ⟨h1, hh, h2, h3, h4⟩
    | todo c' =>
      simp only [PhaseOkH] at hok
      subst hok
      cases hcall : h.call? calls[i] with
      | none =>
        simp only [h1, hh, executeH_illFormed cl h _ hcall]
        exact ⟨h1, hh, h2, h3, h4⟩
      | some call =>
        simp only [h1, hh, executeH_eq cl h _ call hcall]
        refine ⟨rfl, rfl, by simp [h2], ?_, h4⟩
        intro j c ph hcj hpj
        by_cases hij : i = j
        · subst hij
          have hlt : i < w.tasks.length := by omega
          simp only [List.getElem?_set_self hlt, Option.some.injEq] at hpj
          subst hpj
          rw [hc] at hcj; cases hcj
          exact ⟨call, hcall, rfl⟩
        · simp only [List.getElem?_set_ne hij] at hpj
          exact h3 j c ph hcj hpj
    | prepared r =>
      simp only [PhaseOkH] at hok
      refine ⟨h1, hh, by simp [h2], ?_, ?_⟩
      · intro j c ph hcj hpj
        by_cases hij : i = j
        · subst hij
          have hlt : i < w.tasks.length := by omega
          simp only [List.getElem?_set_self hlt, Option.some.injEq] at hpj
          subst hpj
          rw [hc] at hcj; cases hcj
          simpa [PhaseOkH] using hok
        · simp only [List.getElem?_set_ne hij] at hpj
          exact h3 j c ph hcj hpj
      · intro r' hr'
        simp only [List.mem_append, List.mem_singleton] at hr'
        rcases hr' with hr' | hr'
        · exact h4 r' hr'
        · exact ⟨calls[i], List.getElem_mem hi, hr' ▸ hok⟩

/-- `interleave_commutes_shared_args`: for EVERY schedule of the steps of any number of concurrent
    calls on one client whose `variables` / `headers=` arguments are references into one heap (shared
    in any pattern) — the client object and every object of the heap are unchanged, each call that got
    as far as preparing or sending prepared/sent exactly the request it sends when run alone on the
    untouched heap, and the transport saw nothing else. -/
theorem interleave_commutes_shared_args (cl : Client) (h : Heap) (calls : List HCall) (sched : List Nat) :
    let w := runScheduleH (startH cl h calls) sched
    w.client = cl ∧ w.heap = h ∧
    (∀ (i : Nat) c r, calls[i]? = some c →
      (w.tasks[i]? = some (PhaseH.done r) ∨ w.tasks[i]? = some (PhaseH.prepared r)) → SentAlone cl h c r) ∧
    (∀ r ∈ w.wire, ∃ c ∈ calls, SentAlone cl h c r) := by
  have hinv : ∀ (sched : List Nat) (w : WorldH), InvH cl h calls w → InvH cl h calls (runScheduleH w sched) := by
    intro sched
    induction sched with
    | nil => intro w hw; exact hw
    | cons i rest ih => intro w hw; exact ih (stepH w i) (invH_step cl h calls w i hw)
  obtain ⟨h1, hh, _, h3, h4⟩ := hinv sched _ (invH_start cl h calls)
  refine ⟨h1, hh, ?_, h4⟩
  intro i c r hc hp
  rcases hp with hp | hp
  · simpa [PhaseOkH] using h3 i c _ hc hp
  · simpa [PhaseOkH] using h3 i c _ hc hp

/-- non-vacuity: one headers dict (auth token) and one variables dict, a JSON call and an upload call
    on two different clients and a retry of the first, all sharing them -/
def sampleHeap : Heap :=
  { hdrs := [[("Authorization", "Bearer t")]],
    vars := [[("n", .num 1 0)], [("file", .upload 0), ("again", .list [.upload 0])]] }

def sampleSteps : List (Client × HCall) :=
  [ ({ kind := .sync, url := "http://verif.test/graphql", tracer := false },
     { query := "query P { p }", opName := some "P", variables := some 0, headers := some 0, kwargs := [] }),
    ({ kind := .asyncOT, url := "http://verif.test/graphql", tracer := true },
     { query := "mutation U { u }", opName := some "U", variables := some 1, headers := some 0, kwargs := [] }),
    ({ kind := .sync, url := "http://verif.test/graphql", tracer := false },
     { query := "query P { p }", opName := some "P", variables := some 0, headers := some 0, kwargs := [] }) ]

example : wfSteps sampleHeap sampleSteps = true := by decide
example : ((runSeqH sampleHeap sampleSteps).2.map fun r => r.map fun r => (isJson r, isMultipart r)) =
    [some (true, false), some (false, true), some (true, false)] := by decide
example : (runSeqH sampleHeap sampleSteps).1.hdrs = sampleHeap.hdrs := by decide

/-! ## 4. the property as written, its two counterexamples, and the proved region -/

/-- The property for one call.  `T` is the variables tree the property speaks about (models stand
    for their dumps, top-level UNSET dropped). -/
def Holds (cl : Client) (c : Call) : Prop :=
  let T := idealVars c.variables
  let caller := c.headers.getD []
  -- the four clients, tracer on or off: same request/outcome, client object untouched
  (∀ cl' : Client, cl'.url = cl.url → req cl' c = req cl c ∧ (execute cl' c).1 = cl') ∧
  match req cl c with
  | .serializationError => False                                    -- a body is posted
  | .json url b hs kw =>
      uposKvs T = [] ∧ url = cl.url ∧ kw = c.kwargs ∧
      (∃ vs, b = payload c vs) ∧                                    -- exactly query, operationName, variables
      (∀ k v, (k, v) ∈ caller → fieldValues k hs = [v]) ∧           -- caller-supplied headers merged and winning
      ((∀ k ∈ headerKeys caller, lowerName k ≠ lowerName "Content-Type") →
        fieldValues "Content-Type" hs = ["application/json"])       -- Content-Type application/json
  | .multipart url ops mp files hs kw =>
      uposKvs T ≠ [] ∧ url = cl.url ∧ kw = c.kwargs ∧ hs = c.headers ∧
      ∃ (vs : List (String × J)) (st : List Entry),
        ops = payload c vs ∧ mp = .obj (mapOf 0 st) ∧ files = filesOf 0 st ∧
        -- every file position is null in operations
        (∀ q u, (q, u) ∈ uposKvs T → jAt? q (.obj vs) = some .null) ∧
        -- map lists exactly those paths (per Upload, in order)
        (∀ e ∈ st, e.paths = ((uposKvs T).filter (fun pu => pu.2 = e.id)).map (fun pu => render "variables" pu.1)) ∧
        -- each distinct Upload is sent once
        ids st = firstOcc ((uposKvs T).map (·.2)) ∧ (ids st).Nodup

/-- C11 as written. -/
def C11_full : Prop := ∀ (cl : Client) (c : Call), validCall c = true → Holds cl c

def Supported_11 (c : Call) : Prop := ¬ (trigContentTypeCase c = true ∨ trigUploadInModelBelowDict c = true)

instance (c : Call) : Decidable (Supported_11 c) := by unfold Supported_11; infer_instance

/-- witness of C11-F1: `execute(q, headers={"content-type": "text/plain"})` -/
def witnessF1 : Call :=
  { query := "query Q { x }", opName := some "Q", variables := none,
    headers := some [("content-type", "text/plain")], kwargs := [] }

/-- witness of C11-F2: `variables={"where": {"m": Inner(file=Upload#0)}}` -/
def witnessF2 : Call :=
  { query := "mutation U { u }", opName := some "U",
    variables := some [("where", .dict [("m", .model (.dict [("file", .upload 0)]) none)])],
    headers := none, kwargs := [] }

def someClient : Client := { kind := .async, url := "http://verif.test/graphql", tracer := false }

example : validCall witnessF1 = true ∧ trigContentTypeCase witnessF1 = true := by decide
example : validCall witnessF2 = true ∧ trigUploadInModelBelowDict witnessF2 = true := by decide

/-- C11-F1: both `Content-Type: application/json` and `content-type: text/plain` are sent. -/
theorem C11_F1_witness_fails : ¬ Holds someClient witnessF1 := by
  intro h
  have hreq : req someClient witnessF1 =
      .json "http://verif.test/graphql" (payload witnessF1 [])
        [("Content-Type", "application/json"), ("content-type", "text/plain")] [] :=
    req_json someClient witnessF1 [] rfl rfl
  unfold Holds at h
  rw [hreq] at h
  have := h.2.2.2.2.2.1 "content-type" "text/plain" (by simp [witnessF1])
  revert this
  decide

/-- C11-F2: the Upload is not extracted and `json.dumps` raises — no request at all. -/
theorem C11_F2_witness_fails : ¬ Holds someClient witnessF2 := by
  intro h
  have hreq : req someClient witnessF2 = .serializationError := req_error someClient witnessF2 rfl
  unfold Holds at h
  rw [hreq] at h
  exact h.2

theorem C11_full_false : ¬ C11_full :=
  fun h => C11_F1_witness_fails (h someClient witnessF1 (by decide))

/-- C11 on everything outside the two finding triggers. -/
theorem C11_partial (cl : Client) (c : Call) (hv : validCall c = true) (hs : Supported_11 c) : Holds cl c := by
  have hF1 : trigContentTypeCase c = false := by
    cases h : trigContentTypeCase c <;> simp [Supported_11, h] at hs ⊢
  have hF2 : hiddenTopKvs (c.variables.getD []) = false := by
    cases h : trigUploadInModelBelowDict c
    · simpa [trigUploadInModelBelowDict] using h
    · simp [Supported_11, h] at hs
  simp only [validCall, validVars, validHeaders, Bool.and_eq_true] at hv
  obtain ⟨⟨⟨⟨hdist, huniq⟩, hplain⟩, hser⟩, hci⟩ := hv
  -- the ideal tree and the tree separate_files walks have the same Upload positions
  have hpos : uposKvs (idealVars c.variables) = uposKvs (treeOf c.variables) := by
    simpa [idealVars, treeOf] using uposKvs_ideal (c.variables.getD []) hplain hF2
  have hsome := toJsonKvs_convertDict_isSome (c.variables.getD []) hser hplain hF2
  obtain ⟨vs, hvs⟩ := Option.isSome_iff_exists.mp hsome
  have hvs' : toJsonKvs (nullUploadsKvs (treeOf c.variables)) = some vs := by simpa [treeOf] using hvs
  have huq : uniq (.dict (treeOf c.variables)) = true := uniq_tree _ hdist huniq
  unfold Holds
  refine ⟨fun cl' hu => ⟨telemetry_same_request cl cl' c hu, execute_fst cl' c⟩, ?_⟩
  by_cases hup : uposKvs (treeOf c.variables) = []
  · -- JSON
    rw [req_json cl c vs hvs' hup]
    dsimp only
    have hd := distinct_of_ciDistinct hci
    have hc := dictUpdate_closed "Content-Type" (c.headers.getD []) "application/json" [] hd (by simp [headerKeys])
    have hnot : ctOtherSpelling c.headers = false := by
      simpa [trigContentTypeCase, hpos, hup] using hF1
    have hsp := not_otherSpelling hnot
    have hdrop : fieldValues "Content-Type" (dropKey "Content-Type" (c.headers.getD [])) = [] := by
      apply fieldValues_none
      intro k hk e
      have := headerKeys_dropKey hk
      exact this.2 (hsp k this.1 e)
    refine ⟨by rw [hpos, hup], rfl, rfl, ⟨vs, rfl⟩, ?_, ?_⟩
    · intro k v hm
      rw [hc]
      by_cases hk : k = "Content-Type"
      · subst hk
        simp [fieldValues, lookupS_of_mem hd hm, hdrop]
      · have hl : lowerName k ≠ lowerName "Content-Type" := fun e => hk (hsp k (mem_headerKeys_of_mem hm) e)
        have hl' : ¬ lowerName "Content-Type" = lowerName k := fun e => hl e.symm
        simp [fieldValues, hl', fieldValues_dropKey _ hl, fieldValues_of_mem hci hm]
    · intro hno
      rw [hc]
      have : lookupS "Content-Type" (c.headers.getD []) = none :=
        lookupS_none (fun hm => hno _ hm rfl)
      simp [fieldValues, this, hdrop]
  · -- multipart
    rw [req_multipart cl c vs hvs' hup]
    dsimp only
    refine ⟨by rw [hpos]; exact hup, rfl, rfl, rfl, vs, entries c, rfl, rfl, rfl, ?_, ?_, ?_, ?_⟩
    · intro q u hm
      rw [hpos] at hm
      have hat : pvAt? q (.dict (treeOf c.variables)) = some (.upload u) :=
        (upos_at _ huq q u).mp (by simpa [upos] using hm)
      have hnull := pvAt_nullUploads q _ _ hat
      have hj : toJson (nullUploads (.dict (treeOf c.variables))) = some (.obj vs) := by
        simp [nullUploads, toJson, hvs']
      obtain ⟨j', h1, h2⟩ := jAt_toJson q _ _ _ hj hnull
      simp only [nullUploads, toJson, Option.some.injEq] at h1
      rw [← h1] at h2; exact h2
    · intro e he
      have : entries c = (sepDict "variables" (treeOf c.variables) []).2 := by
        simp [entries, processVariables_eq, sepDict_snd]
      rw [hpos]
      have hn : (ids (entries c)).Nodup := by
        simp only [entries, processVariables_eq, ids_collect]; exact firstOcc_nodup _
      rw [← pathsOf_of_mem hn he]
      simp only [entries, processVariables_eq]
      exact pathsOf_collect "variables" e.id _
    · simp only [entries, processVariables_eq, ids_collect, hpos]
    · simp only [entries, processVariables_eq, ids_collect]; exact firstOcc_nodup _

/-- C11 for calls on references: outside the two finding triggers every call leaves the client and the
    whole argument heap untouched and sends a request for which the property holds — so the statement
    carries over to every sequence / schedule of calls sharing argument objects
    (`sequence_shared_args`, `interleave_commutes_shared_args`). -/
theorem C11_partial_shared_args (cl : Client) (h : Heap) (c : HCall) (call : Call) (hc : h.call? c = some call)
    (hv : validCall call = true) (hs : Supported_11 call) :
    executeH cl h c = .ok cl h (req cl call) ∧ Holds cl call :=
  ⟨execute_args_frame cl h c call hc, C11_partial cl call hv hs⟩

/-- non-vacuity: a shared Upload at three paths plus one inside a dumped model, caller headers, timeout -/
def sampleCall : Call :=
  { query := "mutation U { u }", opName := none,
    variables := some [("a", .upload 7), ("z", .unset),
                       ("b", .list [.upload 7, .dict [("c", .upload 7), ("d", .leaf (some (.str "RED")))]]),
                       ("m", .model (.dict [("file", .upload 9), ("n", .num 1 0)]) none)],
    headers := some [("Content-Type", "text/plain"), ("X-A", "1")], kwargs := [("timeout", .num 3 0)] }

example : validCall sampleCall = true ∧ Supported_11 sampleCall := by decide
example : keysOkKvs (treeOf sampleCall.variables) = true := by decide
example : ids (entries sampleCall) = [7, 9] ∧
    pathsOf 7 (entries sampleCall) = ["variables.a", "variables.b.0", "variables.b.1.c"] ∧
    pathsOf 9 (entries sampleCall) = ["variables.m.file"] := by decide

end Ariadne.C11
