/-
  C10 — Generation is deterministic and idempotent.

  "Generating twice from the same schema, operations and configuration (comment mode other than
   timestamp) yields byte-identical files, whatever the interpreter's hash seed, the order in which
   schema/query files were created in their directory, or whether the target directory already
   holds a previous generation of the same inputs.  The same holds for the graphqlschema strategy."

  Models: Model/Order.lean (every place where a Python set / dict-of-sets / directory listing feeds
  emitted order, with an enumeration oracle `e` about which only `EnumOK e : ∀ s, (e s).Perm s` is
  known), Model/OrderEmit.lean (what of it reaches the files through autoflake/isort/black),
  Spec/Isort.lean (isort's ordering of imported names; validated, not verified).

  Hash seed        ↦ the enumeration oracle `e` (two runs = two oracles).
  Creation order   ↦ the directory-listing oracle `dirList` of `loadGraphqlFiles`.
  Existing target  ↦ the `dir` argument of `runWrites` and the flags isort derives from it.

  Result on the pinned tree: the full statement is FALSE (`C10_full_false`): names that reach one
  `from m import …` out of a set keep their set order when they tie on isort's case-insensitive
  natural key (finding C10-F2).  Outside that trigger the package is oracle independent
  (`C10_partial`).  Regeneration is idempotent unless a formatted file is sensitive to isort's view
  of the working directory (finding C10-F3, `regenerate_idempotent`).  The regression witness of the
  repaired finding C10-F1 is `topo_order_depended_on_enum_before_fix`.
-/
import AriadneModel.Proofs.OrderPlugins

set_option linter.unusedVariables false

namespace Ariadne.C10
open Ariadne.Order Ariadne.Isort

/-! ## 1. `_get_sorted_fragments_names` -/

/-- (must) Since 0834f0f the class order of fragments.py does not depend on set iteration. -/
theorem sorted_fragments_oracle_independent (e₁ e₂ : EnumOracle) (he₁ : EnumOK e₁) (he₂ : EnumOK e₂)
    (names : List Name) (d : Deps) :
    sortedFragmentsNames e₁ names d = sortedFragmentsNames e₂ names d := by
  have hord : (fun s => pySorted (e₁ s)) = (fun s => pySorted (e₂ s)) := by
    funext s; exact pySorted_eq_of_perm ((he₁ s).trans (he₂ s).symm)
  unfold sortedFragmentsNames
  rw [hord, pySorted_eq_of_perm ((he₁ names).trans (he₂ names).symm)]

/-- (must) … and not on how the set of names and the dictionary of dependency sets are listed. -/
theorem sorted_fragments_listing_independent (e : EnumOracle) (he : EnumOK e) {names₁ names₂ : List Name} {d₁ d₂ : Deps}
    (hn : names₁.Perm names₂) (hl : d₁.length = d₂.length)
    (hd : ∀ n, (lookup d₁ n).map pySorted = (lookup d₂ n).map pySorted) :
    sortedFragmentsNames id names₁ d₁ = sortedFragmentsNames id names₂ d₂ := by
  unfold sortedFragmentsNames
  simp only [id]
  rw [pySorted_eq_of_perm hn]
  unfold dfs
  have : ∀ fuel n st, visit (fun s => pySorted s) d₁ fuel n st = visit (fun s => pySorted s) d₂ fuel n st := by
    intro fuel
    induction fuel with
    | zero => intro n st; simp [visit]
    | succ fuel ih =>
      intro n st
      have hf : (fun s x => visit (fun s => pySorted s) d₁ fuel x s) = (fun s x => visit (fun s => pySorted s) d₂ fuel x s) := by
        funext s x; exact ih x s
      have := hd n
      simp only [visit, hf]
      cases h1 : lookup d₁ n <;> cases h2 : lookup d₂ n <;> simp [h1, h2] at this ⊢
      rw [this]
  have hf : (fun s x => visit (fun s => pySorted s) d₁ (d₁.length + 1) x s)
      = (fun s x => visit (fun s => pySorted s) d₂ (d₂.length + 1) x s) := by
    funext s x; rw [hl]; exact this _ x s
  rw [hf]

/-- the 5-fragment graph of finding C10-F1: `fragment Af on A { ...Gq ...Hx ...Kp ...Mm }` -/
def f1Names : List Name := ["Af", "Gq", "Hx", "Kp", "Mm"]
def f1Deps : Deps := [("Af", ["Gq", "Hx", "Kp", "Mm"]), ("Gq", []), ("Hx", []), ("Kp", []), ("Mm", [])]

/-- (must) Regression witness of the repaired finding C10-F1: the code before 0834f0f
    (`for dep in dependencies_dict[name]`) gives different class orders under two enumerations. -/
theorem topo_order_depended_on_enum_before_fix :
    ∃ e₁ e₂ : EnumOracle, EnumOK e₁ ∧ EnumOK e₂ ∧
      sortedFragmentsNamesPreFix e₁ f1Names f1Deps = .ok ["Gq", "Hx", "Kp", "Mm", "Af"] ∧
      sortedFragmentsNamesPreFix e₂ f1Names f1Deps = .ok ["Mm", "Kp", "Hx", "Gq", "Af"] :=
  ⟨id, List.reverse, fun _ => List.Perm.refl _, fun s => List.reverse_perm s, by decide, by decide⟩

/-- the repaired code on the same graph, under both enumerations -/
example : sortedFragmentsNames id f1Names f1Deps = .ok ["Gq", "Hx", "Kp", "Mm", "Af"]
    ∧ sortedFragmentsNames List.reverse f1Names f1Deps = .ok ["Gq", "Hx", "Kp", "Mm", "Af"] := by decide

/-- the dependency dictionary has no cycle (GraphQL validation: NoFragmentCycles) -/
def Acyclic (d : Deps) : Prop := ∃ rk : Name → Nat, ∀ n ds m, lookup d n = some ds → m ∈ ds → rk m < rk n

/-- (must) Every fragment's classes come after the fragment classes they inherit from — for every
    enumeration oracle, every acyclic dictionary, without any size bound. -/
theorem topo_respects_deps (e : EnumOracle) (he : EnumOK e) (names : List Name) (d : Deps) (out : List Name)
    (hac : Acyclic d) (h : sortedFragmentsNames e names d = .ok out) :
    ∀ pre n post, out = pre ++ n :: post → ∀ m, m ∈ depsOf d n → m ∈ pre := by
  obtain ⟨rk, hrk⟩ := hac
  exact dfs_topo (fun ds x => by rw [mem_pySorted]; exact (he ds).mem_iff) rk hrk h

/-- the same for the code before the fix: C10-F1 was a determinism defect, never an ordering defect -/
theorem topo_respects_deps_before_fix (e : EnumOracle) (he : EnumOK e) (names : List Name) (d : Deps) (out : List Name)
    (hac : Acyclic d) (h : sortedFragmentsNamesPreFix e names d = .ok out) :
    ∀ pre n post, out = pre ++ n :: post → ∀ m, m ∈ depsOf d n → m ∈ pre := by
  obtain ⟨rk, hrk⟩ := hac
  exact dfs_topo (fun ds x => (he ds).mem_iff) rk hrk h

/-- non-vacuity: the witness graph is acyclic and sorts -/
example : Acyclic f1Deps := ⟨fun n => if n = "Af" then 1 else 0, by
  intro n ds m hl hm
  by_cases hn : n = "Af"
  · subst hn
    simp [f1Deps, lookup] at hl
    subst hl
    simp at hm
    rcases hm with rfl | rfl | rfl | rfl <;> decide
  · simp only [f1Deps, lookup] at hl
    split at hl
    · rename_i h; exact absurd h.symm hn
    · iterate 4 (split at hl; · (cases hl; cases hm))
      cases hl⟩

/-- (should) every fragment that was asked for is emitted -/
theorem topo_complete (e : EnumOracle) (he : EnumOK e) (names : List Name) (d : Deps) (out : List Name)
    (h : sortedFragmentsNames e names d = .ok out) : ∀ n, n ∈ names → n ∈ out := by
  intro n hn
  exact dfs_complete h n ((mem_pySorted _ _).mpr ((he names).mem_iff.mpr hn))

/-- the dependency dictionary is acyclic with a rank bounded by its size (every finite DAG has one: longest path) -/
def AcyclicBounded (d : Deps) : Prop :=
  ∃ rk : Name → Nat, (∀ n ds m, lookup d n = some ds → m ∈ ds → rk m < rk n) ∧ ∀ n, rk n ≤ d.length

/-- (should) the fuel of the model's DFS is a proof device only: on an acyclic dictionary the
    `.fuel` branch is unreachable, whatever the enumeration (the remaining error, KeyError on a mixin that
    was excluded from the module, is the code's own) -/
theorem sorted_no_fuel (e : EnumOracle) (he : EnumOK e) (names : List Name) (d : Deps) (hac : AcyclicBounded d) :
    sortedFragmentsNames e names d ≠ .error .fuel := by
  obtain ⟨rk, hrk, hb⟩ := hac
  intro h
  exact dfs_noFuel _ d rk hrk (fun ds x => by rw [mem_pySorted]; exact (he ds).mem_iff) _ hb _ h rfl

/-! ## 2. `_get_model_rebuild_calls` -/

/-- (must) `sorted(top_level, key=class_names.index)`: the order in which the loop met the top-level
    classes is irrelevant (two classes with the same index are the same class). -/
theorem rebuild_oracle_independent (e₁ e₂ : EnumOracle) (he₁ : EnumOK e₁) (he₂ : EnumOK e₂) (top classNames : List Name)
    (hall : ∀ t, t ∈ top → t ∈ classNames) :
    rebuildCalls (e₁ top) classNames = rebuildCalls (e₂ top) classNames :=
  rebuildCalls_eq_of_perm ((he₁ top).trans (he₂ top).symm) (fun t ht => hall t ((he₁ top).mem_iff.mp ht))

example : rebuildCalls ["B", "A"] ["A", "X", "B"] = .ok ["A", "B"] := by decide

/-! ## 3. isort's order of imported names (reference semantics Spec/Isort.lean) -/

/-- (must) without a key tie the names of one from-import are determined by the SET of names -/
theorem isort_names_oracle_independent (e₁ e₂ : EnumOracle) (he₁ : EnumOK e₁) (he₂ : EnumOK e₂) (fixed s : List Name)
    (nt : nameTie (fixed ++ s) = false) :
    isortNames (fixed ++ e₁ s) = isortNames (fixed ++ e₂ s) := by
  have p₁ : (fixed ++ e₁ s).Perm (fixed ++ s) := List.Perm.append_left _ (he₁ s)
  have p₂ : (fixed ++ e₂ s).Perm (fixed ++ s) := List.Perm.append_left _ (he₂ s)
  apply isortNames_eq_of_perm _ (p₁.trans p₂.symm)
  exact (noTie_of_nameTie_false nt).subset (fun a ha => p₁.mem_iff.mp ha)

/-- Finding C10-F2 in the model: with a tie the set order survives the formatter. -/
theorem isort_tie_depends_on_enum :
    isortNames (id ["FooBar", "Foobar"]) = ["FooBar", "Foobar"] ∧
    isortNames (List.reverse ["FooBar", "Foobar"]) = ["Foobar", "FooBar"] ∧
    isortNames ["F01", "F1"] = ["F01", "F1"] ∧ isortNames ["F1", "F01"] = ["F1", "F01"] := by decide

/-! ## 4. `FragmentsGenerator.generate` -/

/-- (must) fragments.py (import summary, class order, rebuild calls), the fragment names imported by
    `__init__.py` and the enums kept for `include_all_enums = false` do not depend on set iteration,
    as long as no two names tie on isort's key. Errors (a mixin that was excluded: KeyError) agree too. -/
theorem fragments_module_oracle_independent (e₁ e₂ : EnumOracle) (he₁ : EnumOK e₁) (he₂ : EnumOK e₂)
    (defs : List (Name × DefGen)) (exclude : List Name) (keep : Name → Bool) (schemaEnums : List Name)
    (ht : fragTie defs exclude = false) :
    (generateFragments e₁ defs exclude).map (fmtFrag keep schemaEnums)
      = (generateFragments e₂ defs exclude).map (fmtFrag keep schemaEnums) := by
  simp only [fragTie, Bool.or_eq_false_iff] at ht
  have rel := generateFragments_rel e₁ e₂ he₁ he₂ defs (ex₁ := exclude) (ex₂ := exclude) (fun _ => Iff.rfl)
  cases h1 : generateFragments e₁ defs exclude with
  | error err₁ =>
    cases h2 : generateFragments e₂ defs exclude with
    | error err₂ => rw [h1, h2] at rel; simp [ExceptRel] at rel; simp [Except.map, rel]
    | ok o₂ => rw [h1, h2] at rel; simp [ExceptRel] at rel
  | ok o₁ =>
    cases h2 : generateFragments e₂ defs exclude with
    | error err₂ => rw [h1, h2] at rel; simp [ExceptRel] at rel
    | ok o₂ =>
      rw [h1, h2] at rel
      simp only [ExceptRel] at rel
      simp only [Except.map]
      congr 1
      obtain ⟨s1, s2⟩ := generateFragments_ok_shape he₁ h1
      exact fmtFrag_eq_of_equiv keep schemaEnums rel
        (BlockNoTie.of_equiv (BlockEquiv.of_perm s1.symm) (blockNoTie_of_summaryTie_false ht.1))
        ((noTie_of_nameTie_false ht.2).subset (fun a ha => s2.mem_iff.mp ha))

/-! ## 5. operation modules, `__init__.py`, enums.py: the package -/

/-- (must) `from .fragments import …` of an operation module -/
theorem operation_imports_oracle_independent (e₁ e₂ : EnumOracle) (he₁ : EnumOK e₁) (he₂ : EnumOK e₂)
    (pascal : Name → Name) (fm : String) (g : DefGen) (keep : Name → Bool)
    (ht : summaryTie (opImports id pascal fm g) = false) :
    summary keep (opImports e₁ pascal fm g) = summary keep (opImports e₂ pascal fm g) :=
  summary_eq_of_equiv keep (opImports_equiv e₁ e₂ he₁ he₂ pascal fm g)
    (BlockNoTie.of_equiv (opImports_equiv id e₁ enumOK_id he₁ pascal fm g) (blockNoTie_of_summaryTie_false ht))

/-- (must) ClientForwardRefsPlugin: the `if TYPE_CHECKING:` imports. Every collected type has an import
    source (the plugin only collects names it found in `imported_classes`). -/
theorem forward_refs_oracle_independent (e₁ e₂ : EnumOracle) (he₁ : EnumOK e₁) (he₂ : EnumOK e₂) (types : List Name)
    (imp : List (Name × String)) (keep : Name → Bool) (hall : ∀ c, c ∈ types → ∃ m, lookup imp c = some m)
    (ht : ∀ r, forwardRefImports id types imp = .ok r → summaryTie r = false) :
    (forwardRefImports e₁ types imp).map (summary keep) = (forwardRefImports e₂ types imp).map (summary keep) := by
  obtain ⟨r₁, r₂, h1, h2, eq⟩ := forwardRefImports_equiv e₁ e₂ he₁ he₂ types imp hall
  obtain ⟨r₀, r₁', h0, h1', eq0⟩ := forwardRefImports_equiv id e₁ enumOK_id he₁ types imp hall
  rw [h1] at h1'; cases h1'
  rw [h1, h2]
  simp only [Except.map]
  rw [summary_eq_of_equiv keep eq (BlockNoTie.of_equiv eq0 (blockNoTie_of_summaryTie_false (ht r₀ h0)))]

/-- (must) ShorterResultsPlugin: names added to the client module's imports from `extended_imports` -/
theorem shorter_results_oracle_independent (e₁ e₂ : EnumOracle) (he₁ : EnumOK e₁) (he₂ : EnumOK e₂)
    (stmts : List ImportFrom) (ext : List (String × List Name)) (keep : Name → Bool)
    (ht : summaryTie (extendImports id stmts ext) = false) :
    summary keep (extendImports e₁ stmts ext) = summary keep (extendImports e₂ stmts ext) :=
  summary_eq_of_equiv keep (extendImports_equiv e₁ e₂ he₁ he₂ stmts ext)
    (BlockNoTie.of_equiv (extendImports_equiv id e₁ enumOK_id he₁ stmts ext) (blockNoTie_of_summaryTie_false ht))

example : (forwardRefImports id ["GetA", "In1", "GetB"] [("GetA", ".get_a"), ("GetB", ".get_b"), ("In1", ".input_types")]).map (summary (fun _ => true))
    = .ok [(".get_a", ["GetA"]), (".get_b", ["GetB"]), (".input_types", ["In1"])] := by decide

/-- The property, hash-seed part, at full strength: whatever the enumeration of sets, the package is the same. -/
def C10_full : Prop :=
  ∀ (keep : Name → Bool) (e₁ e₂ : EnumOracle) (x : PkgIn), EnumOK e₁ → EnumOK e₂ → emitPackage keep e₁ x = emitPackage keep e₂ x

/-- theorem region: no import statement fed from a set has two names tying on isort's key (trigger of C10-F2) -/
def Supported_10 (x : PkgIn) : Prop := ¬ (trigIsortTie x = true)

/-- (must) `emit_oracle_independent` for the package model, outside the trigger of C10-F2 -/
theorem C10_partial (keep : Name → Bool) (e₁ e₂ : EnumOracle) (he₁ : EnumOK e₁) (he₂ : EnumOK e₂) (x : PkgIn)
    (hs : Supported_10 x) : emitPackage keep e₁ x = emitPackage keep e₂ x :=
  emitPackage_independent keep e₁ e₂ he₁ he₂ x (by simpa [Supported_10] using hs)

/-- the emitted TEXT, for any deterministic formatter back end -/
theorem emit_text_oracle_independent {Text : Type} (render : PkgIR → Text) (keep : Name → Bool) (e₁ e₂ : EnumOracle)
    (he₁ : EnumOK e₁) (he₂ : EnumOK e₂) (x : PkgIn) (hs : Supported_10 x) :
    (emitPackage keep e₁ x).map render = (emitPackage keep e₂ x).map render := by
  rw [C10_partial keep e₁ e₂ he₁ he₂ x hs]

/-- witness of C10-F2: one operation spreading the fragments `fooBar` and `foobar` -/
def f2Gen (n : Name) : DefGen := { classes := [n.capitalize], imports := [], publicNames := [n.capitalize], usedEnums := [], mixins := [] }
def f2Input : PkgIn :=
  { defs := [("fooBar", f2Gen "fooBar"), ("foobar", f2Gen "foobar")],
    ops := [{ module := "q_1", gen := { classes := ["Q1"], imports := [], publicNames := ["Q1"], usedEnums := [], mixins := ["fooBar", "foobar"] }, unpacked := [] }],
    pascal := String.capitalize, fragmentsModule := "fragments", schemaEnums := [], includeAllEnums := true,
    otherUsedEnums := [], initBefore := [⟨1, "q_1", ["Q1"]⟩], initAfter := [] }

/-- The property is false on the pinned tree (finding C10-F2). -/
theorem C10_full_false : ¬ C10_full := by
  intro h
  have := h (fun _ => true) id List.reverse f2Input (fun _ => List.Perm.refl _) (fun s => List.reverse_perm s)
  revert this
  decide

/-- non-vacuity of `C10_partial`: an input with fragments and mixins outside the trigger -/
def okInput : PkgIn :=
  { defs := [("Af", f2Gen "Af"), ("Gq", f2Gen "Gq")],
    ops := [{ module := "q_2", gen := { classes := ["Q2"], imports := [], publicNames := ["Q2"], usedEnums := [], mixins := ["Af", "Gq"] }, unpacked := [] }],
    pascal := String.capitalize, fragmentsModule := "fragments", schemaEnums := [], includeAllEnums := true,
    otherUsedEnums := [], initBefore := [⟨1, "q_2", ["Q2"]⟩], initAfter := [] }

example : Supported_10 okInput := by unfold Supported_10; decide

/-- the witness is inside the trigger region (so theorem region ∪ finding region = everything) -/
example : trigIsortTie f2Input = true := by decide

/-! ## 6. file creation order -/

/-- (must) `load_graphql_files_from_path`: the loaded text depends on the set of files only, not on
    the order in which the file system lists them (hence not on their creation order). -/
theorem files_order_independent (dirList₁ dirList₂ : List Entry → List Entry) (entries : List Entry)
    (h₁ : (dirList₁ entries).Perm entries) (h₂ : (dirList₂ entries).Perm entries) (hd : PathsDistinct entries) :
    loadGraphqlFiles dirList₁ entries = loadGraphqlFiles dirList₂ entries :=
  loadGraphqlFiles_eq_of_perm entries h₁ h₂ hd

/-- (must) the graphqlschema strategy (and everything the client strategy derives from the schema /
    operation text): any deterministic function of the loaded text is independent of the listing order -/
theorem graphqlschema_files_order_independent {Out : Type} (gen : String → Out) (dirList₁ dirList₂ : List Entry → List Entry)
    (entries : List Entry) (h₁ : (dirList₁ entries).Perm entries) (h₂ : (dirList₂ entries).Perm entries) (hd : PathsDistinct entries) :
    (loadGraphqlFiles dirList₁ entries).map gen = (loadGraphqlFiles dirList₂ entries).map gen := by
  rw [files_order_independent dirList₁ dirList₂ entries h₁ h₂ hd]

example : loadGraphqlFiles id [⟨["b.graphql"], false, "B"⟩, ⟨["a", "c.gql"], false, "C"⟩, ⟨["a"], true, ""⟩, ⟨["n.txt"], false, "N"⟩]
    = .ok "C\nB" := by decide

/-! ## 7. regeneration over an existing target -/

/-- (must) The write log of a run is independent of the directory it runs over and of what isort saw
    of it, provided no formatted file is sensitive to that view (`render true = render false` on the
    files at hand; false exactly for finding C10-F3: an absolute import through the target package). -/
theorem regenerate_idempotent {α : Type} (render : Bool → α → String) (irs : List (Name × α))
    (flag₁ flag₂ : Nat → Bool) (dir₁ dir₂ : Dir)
    (insens : ∀ p, p ∈ irs → render true p.2 = render false p.2) :
    runWrites render irs flag₁ dir₁ = runWrites render irs flag₂ dir₂ := by
  have : ∀ b₁ b₂ p, p ∈ irs → render b₁ p.2 = render b₂ p.2 := by
    intro b₁ b₂ p hp
    cases b₁ <;> cases b₂ <;> simp [insens p hp]
  unfold runWrites packageWrites
  have hm : irs.mapIdx (fun i p => (p.1, render (flag₁ i) p.2)) = irs.mapIdx (fun i p => (p.1, render (flag₂ i) p.2)) := by
    apply List.ext_getElem
    · simp
    · intro i h1 h2
      simp only [List.getElem_mapIdx]
      rw [this (flag₁ i) (flag₂ i) _ (List.getElem_mem _)]
  rw [hm]

/-- (should) and running it twice leaves the directory exactly as running it once -/
theorem regenerate_same_directory (log : WriteLog) (dir : Dir) : applyLog (applyLog dir log) log = applyLog dir log := by
  unfold applyLog
  have key : ∀ ws : List (Name × String), ∃ (c : Name → Option String) (S : Name → Bool),
      ∀ d x, (ws.foldl (fun d p => writeFile d p.1 p.2) d) x = if S x then c x else d x := by
    intro ws
    induction ws with
    | nil => exact ⟨fun _ => none, fun _ => false, by simp⟩
    | cons p ws ih =>
      obtain ⟨c, S, h⟩ := ih
      refine ⟨fun x => if S x then c x else some p.2, fun x => S x || decide (x = p.1), ?_⟩
      intro d x
      simp only [List.foldl_cons, h, writeFile]
      by_cases h1 : S x = true <;> by_cases h2 : x = p.1 <;> simp [h1, h2]
  obtain ⟨c, S, h⟩ := key log.written
  funext x
  rw [h, h]
  split <;> rfl

/-- Finding C10-F3 in the model: a formatter that is sensitive to isort's view gives two different logs. -/
theorem regenerate_full_false :
    ∃ (render : Bool → String → String) (irs : List (Name × String)) (dir : Dir),
      runWrites render irs (fun _ => false) dir ≠ runWrites render irs (fun _ => true) (applyLog dir (runWrites render irs (fun _ => false) dir)) :=
  ⟨fun b s => if b then "first-party:" ++ s else "third-party:" ++ s, [("input_types.py", "from gen_pkg.impl import DT")], fun _ => none, by decide⟩

/-! ## non-vacuity of the remaining hypotheses -/

example : fragTie f2Input.defs [] = true ∧ fragTie okInput.defs [] = false := by decide

example : AcyclicBounded f1Deps := by
  refine ⟨fun n => if n = "Af" then 1 else 0, ?_, ?_⟩
  · intro n ds m hl hm
    by_cases hn : n = "Af"
    · subst hn
      simp [f1Deps, lookup] at hl
      subst hl
      simp at hm
      rcases hm with rfl | rfl | rfl | rfl <;> decide
    · simp only [f1Deps, lookup] at hl
      split at hl
      · rename_i h; exact absurd h.symm hn
      · iterate 4 (split at hl; · (cases hl; cases hm))
        cases hl
  · intro n
    simp only [f1Deps]
    split <;> decide

example : PathsDistinct [⟨["b.graphql"], false, "B"⟩, ⟨["a", "c.gql"], false, "C"⟩] := by
  intro a b ha hb h
  simp at ha hb
  rcases ha with rfl | rfl <;> rcases hb with rfl | rfl <;> simp_all

example : summaryTie (extendImports id [⟨1, "get_a", ["GetA"]⟩] [("get_a", ["GetAA", "Extra"])]) = false := by decide

end Ariadne.C10
