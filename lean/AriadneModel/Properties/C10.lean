/-
  C10 — Generation is deterministic and idempotent.

  "Generating twice from the same schema, operations and configuration (comment mode other than
   timestamp) yields byte-identical files, whatever the interpreter's hash seed, the order in which
   schema/query files were created in their directory, or whether the target directory already
   holds a previous generation of the same inputs.  The same holds for the graphqlschema strategy."

  Models: Model/Order.lean (every place where a Python set / dict-of-sets / directory listing feeds
  emitted order, with an enumeration oracle `e` about which only `EnumOK e : ∀ s, (e s).Perm s` is
  known), Model/OrderEmit.lean (what of it reaches the files through autoflake/isort/black),
  Spec/Isort.lean (isort's ordering of imported names; validated, not verified).

  Hash seed        ↦ the enumeration oracle `e` (two runs = two oracles).
  Creation order   ↦ the directory-listing oracle `dirList` of `loadGraphqlFiles`.
  Existing target  ↦ the `dir` argument of `runWrites` and the flags isort derives from it.

  Result on the pinned tree: the full statement is FALSE (`C10_full_false`): names that reach one
  `from m import …` out of a set keep their set order when they tie on isort's case-insensitive
  natural key (finding C10-F2).  Outside that trigger the package is oracle independent
  (`C10_partial`).  Regeneration is idempotent unless a formatted file is sensitive to isort's view
  of the working directory (finding C10-F3, `regenerate_idempotent`).  The regression witness of the
  repaired finding C10-F1 is `topo_order_depended_on_enum_before_fix`.

  Sections 8 and 9 (Model/OrderResult.lean) bring the set-fed emission points INSIDE a result module and
  the order of plugin hooks into the model: class bases (`sorted(fragments)`), the `Literal[...]` of
  `__typename` (`list(set - set)` then `sorted`), the fragment definitions appended to an operation string
  (`sorted(_get_all_related_fragments())`) are oracle independent at full strength
  (`result_module_oracle_independent`); plugin classes are loaded in the order of the configured LIST and
  their hooks applied in that order (`plugins_in_config_order`, `hooks_in_config_order`), a module's plugin
  classes do not depend on how its namespace is listed (`plugins_listing_independent`); and because hooks
  do not commute (`hook_order_observable`), the order must not pass through a set.

  Sections 10 and 11 compose everything into the two entry points: `graphqlschema_deterministic`
  (`main.graphql_schema`, no trigger besides isort's view of the target for the python format) and
  `client_deterministic` (`main.client`: hash seed, creation order of schema AND operation files, plugin
  module namespaces, existing target, all at once, outside the triggers of C10-F2 / C10-F3).  The front end
  (parse, validate, what each generator collects) and the assembly of files are abstract deterministic
  functions there; the byte level is the oracle's.
-/
import AriadneModel.Proofs.OrderPlugins
import AriadneModel.Proofs.OrderResult
import AriadneModel.Proofs.OrderClient
import AriadneModel.Proofs.OrderSites

set_option linter.unusedVariables false

namespace Ariadne.C10
open Ariadne.Order Ariadne.Isort

/-! ## 1. `_get_sorted_fragments_names` -/

/-- (must) Since 0834f0f the class order of fragments.py does not depend on set iteration. -/
theorem sorted_fragments_oracle_independent (e₁ e₂ : EnumOracle) (he₁ : EnumOK e₁) (he₂ : EnumOK e₂)
    (names : List Name) (d : Deps) :
    sortedFragmentsNames e₁ names d = sortedFragmentsNames e₂ names d := by
  have hord : (fun s => pySorted (e₁ s)) = (fun s => pySorted (e₂ s)) := by
    funext s; exact pySorted_eq_of_perm ((he₁ s).trans (he₂ s).symm)
  unfold sortedFragmentsNames
  rw [hord, pySorted_eq_of_perm ((he₁ names).trans (he₂ names).symm)]

/-- (must) … and not on how the set of names and the dictionary of dependency sets are listed. -/
theorem sorted_fragments_listing_independent (e : EnumOracle) (he : EnumOK e) {names₁ names₂ : List Name} {d₁ d₂ : Deps}
    (hn : names₁.Perm names₂) (hl : d₁.length = d₂.length)
    (hd : ∀ n, (lookup d₁ n).map pySorted = (lookup d₂ n).map pySorted) :
    sortedFragmentsNames id names₁ d₁ = sortedFragmentsNames id names₂ d₂ := by
  unfold sortedFragmentsNames
  simp only [id]
  rw [pySorted_eq_of_perm hn]
  unfold dfs
  have : ∀ fuel n st, visit (fun s => pySorted s) d₁ fuel n st = visit (fun s => pySorted s) d₂ fuel n st := by
    intro fuel
    induction fuel with
    | zero => intro n st; simp [visit]
    | succ fuel ih =>
      intro n st
      have hf : (fun s x => visit (fun s => pySorted s) d₁ fuel x s) = (fun s x => visit (fun s => pySorted s) d₂ fuel x s) := by
        funext s x; exact ih x s
      have := hd n
      simp only [visit, hf]
      cases h1 : lookup d₁ n <;> cases h2 : lookup d₂ n <;> simp [h1, h2] at this ⊢
      rw [this]
  have hf : (fun s x => visit (fun s => pySorted s) d₁ (d₁.length + 1) x s)
      = (fun s x => visit (fun s => pySorted s) d₂ (d₂.length + 1) x s) := by
    funext s x; rw [hl]; exact this _ x s
  rw [hf]

/-- the 5-fragment graph of finding C10-F1: `fragment Af on A { ...Gq ...Hx ...Kp ...Mm }` -/
def f1Names : List Name := ["Af", "Gq", "Hx", "Kp", "Mm"]
def f1Deps : Deps := [("Af", ["Gq", "Hx", "Kp", "Mm"]), ("Gq", []), ("Hx", []), ("Kp", []), ("Mm", [])]

/-- (must) Regression witness of the repaired finding C10-F1: the code before 0834f0f
    (`for dep in dependencies_dict[name]`) gives different class orders under two enumerations. -/
theorem topo_order_depended_on_enum_before_fix :
    ∃ e₁ e₂ : EnumOracle, EnumOK e₁ ∧ EnumOK e₂ ∧
      sortedFragmentsNamesPreFix e₁ f1Names f1Deps = .ok ["Gq", "Hx", "Kp", "Mm", "Af"] ∧
      sortedFragmentsNamesPreFix e₂ f1Names f1Deps = .ok ["Mm", "Kp", "Hx", "Gq", "Af"] :=
  ⟨id, List.reverse, fun _ => List.Perm.refl _, fun s => List.reverse_perm s, by decide, by decide⟩

/-- the repaired code on the same graph, under both enumerations -/
example : sortedFragmentsNames id f1Names f1Deps = .ok ["Gq", "Hx", "Kp", "Mm", "Af"]
    ∧ sortedFragmentsNames List.reverse f1Names f1Deps = .ok ["Gq", "Hx", "Kp", "Mm", "Af"] := by decide

/-- the dependency dictionary has no cycle (GraphQL validation: NoFragmentCycles) -/
def Acyclic (d : Deps) : Prop := ∃ rk : Name → Nat, ∀ n ds m, lookup d n = some ds → m ∈ ds → rk m < rk n

/-- (must) Every fragment's classes come after the fragment classes they inherit from — for every
    enumeration oracle, every acyclic dictionary, without any size bound. -/
theorem topo_respects_deps (e : EnumOracle) (he : EnumOK e) (names : List Name) (d : Deps) (out : List Name)
    (hac : Acyclic d) (h : sortedFragmentsNames e names d = .ok out) :
    ∀ pre n post, out = pre ++ n :: post → ∀ m, m ∈ depsOf d n → m ∈ pre := by
  obtain ⟨rk, hrk⟩ := hac
  exact dfs_topo (fun ds x => by rw [mem_pySorted]; exact (he ds).mem_iff) rk hrk h

/-- the same for the code before the fix: C10-F1 was a determinism defect, never an ordering defect -/
theorem topo_respects_deps_before_fix (e : EnumOracle) (he : EnumOK e) (names : List Name) (d : Deps) (out : List Name)
    (hac : Acyclic d) (h : sortedFragmentsNamesPreFix e names d = .ok out) :
    ∀ pre n post, out = pre ++ n :: post → ∀ m, m ∈ depsOf d n → m ∈ pre := by
  obtain ⟨rk, hrk⟩ := hac
  exact dfs_topo (fun ds x => (he ds).mem_iff) rk hrk h

/-- non-vacuity: the witness graph is acyclic and sorts -/
example : Acyclic f1Deps := ⟨fun n => if n = "Af" then 1 else 0, by
  intro n ds m hl hm
  by_cases hn : n = "Af"
  · subst hn
    simp [f1Deps, lookup] at hl
    subst hl
    simp at hm
    rcases hm with rfl | rfl | rfl | rfl <;> decide
  · simp only [f1Deps, lookup] at hl
    split at hl
    · rename_i h; exact absurd h.symm hn
    · iterate 4 (split at hl; · (cases hl; cases hm))
      cases hl⟩

/-- (should) every fragment that was asked for is emitted -/
theorem topo_complete (e : EnumOracle) (he : EnumOK e) (names : List Name) (d : Deps) (out : List Name)
    (h : sortedFragmentsNames e names d = .ok out) : ∀ n, n ∈ names → n ∈ out := by
  intro n hn
  exact dfs_complete h n ((mem_pySorted _ _).mpr ((he names).mem_iff.mpr hn))

/-- the dependency dictionary is acyclic with a rank bounded by its size (every finite DAG has one: longest path) -/
def AcyclicBounded (d : Deps) : Prop :=
  ∃ rk : Name → Nat, (∀ n ds m, lookup d n = some ds → m ∈ ds → rk m < rk n) ∧ ∀ n, rk n ≤ d.length

/-- (should) the fuel of the model's DFS is a proof device only: on an acyclic dictionary the
    `.fuel` branch is unreachable, whatever the enumeration (the remaining error, KeyError on a mixin that
    was excluded from the module, is the code's own) -/
theorem sorted_no_fuel (e : EnumOracle) (he : EnumOK e) (names : List Name) (d : Deps) (hac : AcyclicBounded d) :
    sortedFragmentsNames e names d ≠ .error .fuel := by
  obtain ⟨rk, hrk, hb⟩ := hac
  intro h
  exact dfs_noFuel _ d rk hrk (fun ds x => by rw [mem_pySorted]; exact (he ds).mem_iff) _ hb _ h rfl

/-! ## 2. `_get_model_rebuild_calls` -/

/-- (must) `sorted(top_level, key=class_names.index)`: the order in which the loop met the top-level
    classes is irrelevant (two classes with the same index are the same class). -/
theorem rebuild_oracle_independent (e₁ e₂ : EnumOracle) (he₁ : EnumOK e₁) (he₂ : EnumOK e₂) (top classNames : List Name)
    (hall : ∀ t, t ∈ top → t ∈ classNames) :
    rebuildCalls (e₁ top) classNames = rebuildCalls (e₂ top) classNames :=
  rebuildCalls_eq_of_perm ((he₁ top).trans (he₂ top).symm) (fun t ht => hall t ((he₁ top).mem_iff.mp ht))

example : rebuildCalls ["B", "A"] ["A", "X", "B"] = .ok ["A", "B"] := by decide

/-! ## 3. isort's order of imported names (reference semantics Spec/Isort.lean) -/

/-- (must) without a key tie the names of one from-import are determined by the SET of names -/
theorem isort_names_oracle_independent (e₁ e₂ : EnumOracle) (he₁ : EnumOK e₁) (he₂ : EnumOK e₂) (fixed s : List Name)
    (nt : nameTie (fixed ++ s) = false) :
    isortNames (fixed ++ e₁ s) = isortNames (fixed ++ e₂ s) := by
  have p₁ : (fixed ++ e₁ s).Perm (fixed ++ s) := List.Perm.append_left _ (he₁ s)
  have p₂ : (fixed ++ e₂ s).Perm (fixed ++ s) := List.Perm.append_left _ (he₂ s)
  apply isortNames_eq_of_perm _ (p₁.trans p₂.symm)
  exact (noTie_of_nameTie_false nt).subset (fun a ha => p₁.mem_iff.mp ha)

/-- Finding C10-F2 in the model: with a tie the set order survives the formatter. -/
theorem isort_tie_depends_on_enum :
    isortNames (id ["FooBar", "Foobar"]) = ["FooBar", "Foobar"] ∧
    isortNames (List.reverse ["FooBar", "Foobar"]) = ["Foobar", "FooBar"] ∧
    isortNames ["F01", "F1"] = ["F01", "F1"] ∧ isortNames ["F1", "F01"] = ["F1", "F01"] := by decide

/-! ## 4. `FragmentsGenerator.generate` -/

/-- (must) fragments.py (import summary, class order, rebuild calls), the fragment names imported by
    `__init__.py` and the enums kept for `include_all_enums = false` do not depend on set iteration,
    as long as no two names tie on isort's key. Errors (a mixin that was excluded: KeyError) agree too. -/
theorem fragments_module_oracle_independent (e₁ e₂ : EnumOracle) (he₁ : EnumOK e₁) (he₂ : EnumOK e₂)
    (defs : List (Name × DefGen)) (exclude : List Name) (keep : Name → Bool) (schemaEnums : List Name)
    (ht : fragTie defs exclude = false) :
    (generateFragments e₁ defs exclude).map (fmtFrag keep schemaEnums)
      = (generateFragments e₂ defs exclude).map (fmtFrag keep schemaEnums) := by
  simp only [fragTie, Bool.or_eq_false_iff] at ht
  have rel := generateFragments_rel e₁ e₂ he₁ he₂ defs (ex₁ := exclude) (ex₂ := exclude) (fun _ => Iff.rfl)
  cases h1 : generateFragments e₁ defs exclude with
  | error err₁ =>
    cases h2 : generateFragments e₂ defs exclude with
    | error err₂ => rw [h1, h2] at rel; simp [ExceptRel] at rel; simp [Except.map, rel]
    | ok o₂ => rw [h1, h2] at rel; simp [ExceptRel] at rel
  | ok o₁ =>
    cases h2 : generateFragments e₂ defs exclude with
    | error err₂ => rw [h1, h2] at rel; simp [ExceptRel] at rel
    | ok o₂ =>
      rw [h1, h2] at rel
      simp only [ExceptRel] at rel
      simp only [Except.map]
      congr 1
      obtain ⟨s1, s2⟩ := generateFragments_ok_shape he₁ h1
      exact fmtFrag_eq_of_equiv keep schemaEnums rel
        (BlockNoTie.of_equiv (BlockEquiv.of_perm s1.symm) (blockNoTie_of_summaryTie_false ht.1))
        ((noTie_of_nameTie_false ht.2).subset (fun a ha => s2.mem_iff.mp ha))

/-! ## 5. operation modules, `__init__.py`, enums.py: the package -/

/-- (must) `from .fragments import …` of an operation module -/
theorem operation_imports_oracle_independent (e₁ e₂ : EnumOracle) (he₁ : EnumOK e₁) (he₂ : EnumOK e₂)
    (pascal : Name → Name) (fm : String) (g : DefGen) (keep : Name → Bool)
    (ht : summaryTie (opImports id pascal fm g) = false) :
    summary keep (opImports e₁ pascal fm g) = summary keep (opImports e₂ pascal fm g) :=
  summary_eq_of_equiv keep (opImports_equiv e₁ e₂ he₁ he₂ pascal fm g)
    (BlockNoTie.of_equiv (opImports_equiv id e₁ enumOK_id he₁ pascal fm g) (blockNoTie_of_summaryTie_false ht))

/-- (must) ClientForwardRefsPlugin: the `if TYPE_CHECKING:` imports. Every collected type has an import
    source (the plugin only collects names it found in `imported_classes`). -/
theorem forward_refs_oracle_independent (e₁ e₂ : EnumOracle) (he₁ : EnumOK e₁) (he₂ : EnumOK e₂) (types : List Name)
    (imp : List (Name × String)) (keep : Name → Bool) (hall : ∀ c, c ∈ types → ∃ m, lookup imp c = some m)
    (ht : ∀ r, forwardRefImports id types imp = .ok r → summaryTie r = false) :
    (forwardRefImports e₁ types imp).map (summary keep) = (forwardRefImports e₂ types imp).map (summary keep) := by
  obtain ⟨r₁, r₂, h1, h2, eq⟩ := forwardRefImports_equiv e₁ e₂ he₁ he₂ types imp hall
  obtain ⟨r₀, r₁', h0, h1', eq0⟩ := forwardRefImports_equiv id e₁ enumOK_id he₁ types imp hall
  rw [h1] at h1'; cases h1'
  rw [h1, h2]
  simp only [Except.map]
  rw [summary_eq_of_equiv keep eq (BlockNoTie.of_equiv eq0 (blockNoTie_of_summaryTie_false (ht r₀ h0)))]

/-- (must) ShorterResultsPlugin: names added to the client module's imports from `extended_imports` -/
theorem shorter_results_oracle_independent (e₁ e₂ : EnumOracle) (he₁ : EnumOK e₁) (he₂ : EnumOK e₂)
    (stmts : List ImportFrom) (ext : List (String × List Name)) (keep : Name → Bool)
    (ht : summaryTie (extendImports id stmts ext) = false) :
    summary keep (extendImports e₁ stmts ext) = summary keep (extendImports e₂ stmts ext) :=
  summary_eq_of_equiv keep (extendImports_equiv e₁ e₂ he₁ he₂ stmts ext)
    (BlockNoTie.of_equiv (extendImports_equiv id e₁ enumOK_id he₁ stmts ext) (blockNoTie_of_summaryTie_false ht))

example : (forwardRefImports id ["GetA", "In1", "GetB"] [("GetA", ".get_a"), ("GetB", ".get_b"), ("In1", ".input_types")]).map (summary (fun _ => true))
    = .ok [(".get_a", ["GetA"]), (".get_b", ["GetB"]), (".input_types", ["In1"])] := by decide

/-- The property, hash-seed part, at full strength: whatever the enumeration of sets, the package is the same. -/
def C10_full : Prop :=
  ∀ (keep : Name → Bool) (e₁ e₂ : EnumOracle) (x : PkgIn), EnumOK e₁ → EnumOK e₂ → emitPackage keep e₁ x = emitPackage keep e₂ x

/-- theorem region: no import statement fed from a set has two names tying on isort's key (trigger of C10-F2) -/
def Supported_10 (x : PkgIn) : Prop := ¬ (trigIsortTie x = true)

/-- (must) `emit_oracle_independent` for the package model, outside the trigger of C10-F2 -/
theorem C10_partial (keep : Name → Bool) (e₁ e₂ : EnumOracle) (he₁ : EnumOK e₁) (he₂ : EnumOK e₂) (x : PkgIn)
    (hs : Supported_10 x) : emitPackage keep e₁ x = emitPackage keep e₂ x :=
  emitPackage_independent keep e₁ e₂ he₁ he₂ x (by simpa [Supported_10] using hs)

/-- the emitted TEXT, for any deterministic formatter back end -/
theorem emit_text_oracle_independent {Text : Type} (render : PkgIR → Text) (keep : Name → Bool) (e₁ e₂ : EnumOracle)
    (he₁ : EnumOK e₁) (he₂ : EnumOK e₂) (x : PkgIn) (hs : Supported_10 x) :
    (emitPackage keep e₁ x).map render = (emitPackage keep e₂ x).map render := by
  rw [C10_partial keep e₁ e₂ he₁ he₂ x hs]

/-- witness of C10-F2: one operation spreading the fragments `fooBar` and `foobar` -/
def f2Gen (n : Name) : DefGen := { classes := [n.capitalize], imports := [], publicNames := [n.capitalize], usedEnums := [], mixins := [] }
def f2Input : PkgIn :=
  { defs := [("fooBar", f2Gen "fooBar"), ("foobar", f2Gen "foobar")],
    ops := [{ module := "q_1", gen := { classes := ["Q1"], imports := [], publicNames := ["Q1"], usedEnums := [], mixins := ["fooBar", "foobar"] }, unpacked := [] }],
    pascal := String.capitalize, fragmentsModule := "fragments", schemaEnums := [], includeAllEnums := true,
    otherUsedEnums := [], initBefore := [⟨1, "q_1", ["Q1"]⟩], initAfter := [] }

/-- The property is false on the pinned tree (finding C10-F2). -/
theorem C10_full_false : ¬ C10_full := by
  intro h
  have := h (fun _ => true) id List.reverse f2Input (fun _ => List.Perm.refl _) (fun s => List.reverse_perm s)
  revert this
  decide

/-- non-vacuity of `C10_partial`: an input with fragments and mixins outside the trigger -/
def okInput : PkgIn :=
  { defs := [("Af", f2Gen "Af"), ("Gq", f2Gen "Gq")],
    ops := [{ module := "q_2", gen := { classes := ["Q2"], imports := [], publicNames := ["Q2"], usedEnums := [], mixins := ["Af", "Gq"] }, unpacked := [] }],
    pascal := String.capitalize, fragmentsModule := "fragments", schemaEnums := [], includeAllEnums := true,
    otherUsedEnums := [], initBefore := [⟨1, "q_2", ["Q2"]⟩], initAfter := [] }

example : Supported_10 okInput := by unfold Supported_10; decide

/-- the witness is inside the trigger region (so theorem region ∪ finding region = everything) -/
example : trigIsortTie f2Input = true := by decide

/-! ## 6. file creation order -/

/-- (must) `load_graphql_files_from_path`: the loaded text depends on the set of files only, not on
    the order in which the file system lists them (hence not on their creation order). -/
theorem files_order_independent (dirList₁ dirList₂ : List Entry → List Entry) (entries : List Entry)
    (h₁ : (dirList₁ entries).Perm entries) (h₂ : (dirList₂ entries).Perm entries) (hd : PathsDistinct entries) :
    loadGraphqlFiles dirList₁ entries = loadGraphqlFiles dirList₂ entries :=
  loadGraphqlFiles_eq_of_perm entries h₁ h₂ hd

/-- (must) the graphqlschema strategy (and everything the client strategy derives from the schema /
    operation text): any deterministic function of the loaded text is independent of the listing order -/
theorem graphqlschema_files_order_independent {Out : Type} (gen : String → Out) (dirList₁ dirList₂ : List Entry → List Entry)
    (entries : List Entry) (h₁ : (dirList₁ entries).Perm entries) (h₂ : (dirList₂ entries).Perm entries) (hd : PathsDistinct entries) :
    (loadGraphqlFiles dirList₁ entries).map gen = (loadGraphqlFiles dirList₂ entries).map gen := by
  rw [files_order_independent dirList₁ dirList₂ entries h₁ h₂ hd]

example : loadGraphqlFiles id [⟨["b.graphql"], false, "B"⟩, ⟨["a", "c.gql"], false, "C"⟩, ⟨["a"], true, ""⟩, ⟨["n.txt"], false, "N"⟩]
    = .ok "C\nB" := by decide

/-! ## 7. regeneration over an existing target -/

/-- (must) The write log of a run is independent of the directory it runs over and of what isort saw
    of it, provided no formatted file is sensitive to that view (`render true = render false` on the
    files at hand; false exactly for finding C10-F3: an absolute import through the target package). -/
theorem regenerate_idempotent {α : Type} (render : Bool → α → String) (irs : List (Name × α))
    (flag₁ flag₂ : Nat → Bool) (dir₁ dir₂ : Dir)
    (insens : ∀ p, p ∈ irs → render true p.2 = render false p.2) :
    runWrites render irs flag₁ dir₁ = runWrites render irs flag₂ dir₂ := by
  have : ∀ b₁ b₂ p, p ∈ irs → render b₁ p.2 = render b₂ p.2 := by
    intro b₁ b₂ p hp
    cases b₁ <;> cases b₂ <;> simp [insens p hp]
  unfold runWrites packageWrites
  have hm : irs.mapIdx (fun i p => (p.1, render (flag₁ i) p.2)) = irs.mapIdx (fun i p => (p.1, render (flag₂ i) p.2)) := by
    apply List.ext_getElem
    · simp
    · intro i h1 h2
      simp only [List.getElem_mapIdx]
      rw [this (flag₁ i) (flag₂ i) _ (List.getElem_mem _)]
  rw [hm]

/-- (should) and running it twice leaves the directory exactly as running it once -/
theorem regenerate_same_directory (log : WriteLog) (dir : Dir) : applyLog (applyLog dir log) log = applyLog dir log := by
  unfold applyLog
  have key : ∀ ws : List (Name × String), ∃ (c : Name → Option String) (S : Name → Bool),
      ∀ d x, (ws.foldl (fun d p => writeFile d p.1 p.2) d) x = if S x then c x else d x := by
    intro ws
    induction ws with
    | nil => exact ⟨fun _ => none, fun _ => false, by simp⟩
    | cons p ws ih =>
      obtain ⟨c, S, h⟩ := ih
      refine ⟨fun x => if S x then c x else some p.2, fun x => S x || decide (x = p.1), ?_⟩
      intro d x
      simp only [List.foldl_cons, h, writeFile]
      by_cases h1 : S x = true <;> by_cases h2 : x = p.1 <;> simp [h1, h2]
  obtain ⟨c, S, h⟩ := key log.written
  funext x
  rw [h, h]
  split <;> rfl

/-- Finding C10-F3 in the model: a formatter that is sensitive to isort's view gives two different logs. -/
theorem regenerate_full_false :
    ∃ (render : Bool → String → String) (irs : List (Name × String)) (dir : Dir),
      runWrites render irs (fun _ => false) dir ≠ runWrites render irs (fun _ => true) (applyLog dir (runWrites render irs (fun _ => false) dir)) :=
  ⟨fun b s => if b then "first-party:" ++ s else "third-party:" ++ s, [("input_types.py", "from gen_pkg.impl import DT")], fun _ => none, by decide⟩

/-! ## non-vacuity of the remaining hypotheses -/

example : fragTie f2Input.defs [] = true ∧ fragTie okInput.defs [] = false := by decide

example : AcyclicBounded f1Deps := by
  refine ⟨fun n => if n = "Af" then 1 else 0, ?_, ?_⟩
  · intro n ds m hl hm
    by_cases hn : n = "Af"
    · subst hn
      simp [f1Deps, lookup] at hl
      subst hl
      simp at hm
      rcases hm with rfl | rfl | rfl | rfl <;> decide
    · simp only [f1Deps, lookup] at hl
      split at hl
      · rename_i h; exact absurd h.symm hn
      · iterate 4 (split at hl; · (cases hl; cases hm))
        cases hl
  · intro n
    simp only [f1Deps]
    split <;> decide

example : PathsDistinct [⟨["b.graphql"], false, "B"⟩, ⟨["a", "c.gql"], false, "C"⟩] := by
  intro a b ha hb h
  simp at ha hb
  rcases ha with rfl | rfl <;> rcases hb with rfl | rfl <;> simp_all

example : summaryTie (extendImports id [⟨1, "get_a", ["GetA"]⟩] [("get_a", ["GetAA", "Extra"])]) = false := by decide

/-! ## 8. inside a result module: class bases, `__typename` literals, fragments of the operation string -/

/-- (must) `class X(<fragments as bases>)`: `[pascal f for f in sorted(fragments)] + extra_bases` does not
    depend on how the set `fragments` is iterated nor on how it was built up (any two listings of it). -/
theorem class_bases_oracle_independent (e₁ e₂ : EnumOracle) (he₁ : EnumOK e₁) (he₂ : EnumOK e₂) (pascal : Name → Name)
    (baseModel : Name) {f₁ f₂ : List Name} (p : f₁.Perm f₂) (extra : List Name) :
    classBases e₁ pascal baseModel f₁ extra = classBases e₂ pascal baseModel f₂ extra :=
  classBases_eq_of_perm e₁ e₂ he₁ he₂ pascal baseModel p extra

/-- (should) no fragment is lost or duplicated among the bases, `@mixin` bases stay last -/
theorem class_bases_complete (e : EnumOracle) (he : EnumOK e) (pascal : Name → Name) (baseModel : Name)
    (f extra : List Name) (hne : f ≠ []) :
    (classBases e pascal baseModel f extra).Perm (f.map pascal ++ extra) :=
  classBases_perm e he pascal baseModel f extra hne

example : classBases List.reverse String.capitalize "BaseModel" ["userCore", "auditView", "adminView"] ["Mx"]
    = ["AdminView", "AuditView", "UserCore", "Mx"] ∧ classBases id String.capitalize "BaseModel" [] [] = ["BaseModel"] := by decide

/-- (must) the elements of every `typename__: Literal[...]`: the types without a class come out of a set
    difference, `generate_typename_annotation` sorts them. -/
theorem typename_literals_oracle_independent (e₁ e₂ : EnumOracle) (he₁ : EnumOK e₁) (he₂ : EnumOK e₂)
    (typesNames : List Name) (abstract : Option Name) (possible : List Name) :
    typenameLiterals e₁ typesNames abstract possible = typenameLiterals e₂ typesNames abstract possible :=
  typenameLiterals_eq e₁ e₂ he₁ he₂ typesNames abstract possible

/-- (should) which types those are: the possible types that have no class of their own, each once -/
theorem types_without_class_spec (e : EnumOracle) (he : EnumOK e) (possible typesNames : List Name) :
    (∀ a, a ∈ typesWithoutClass e possible typesNames ↔ a ∈ possible ∧ a ∉ typesNames)
      ∧ (typesWithoutClass e possible typesNames).Nodup :=
  ⟨mem_typesWithoutClass e he possible typesNames, nodup_typesWithoutClass e he possible typesNames⟩

example : typenameLiterals List.reverse ["Animal", "Dog"] (some "Animal") ["Dog", "Cat", "Bird"]
    = [("Animal", ["Animal", "Bird", "Cat"]), ("Dog", ["Dog"])] := by decide

/-- every mixin fragment has a definition (`_resolve_selection_set` looked it up before adding it to the set) -/
def MixinsDefined (mixins : List Name) (closure : Name → Option (List Name)) : Prop := ∀ f, f ∈ mixins → (closure f).isSome

/-- (must) the fragment definitions appended to the operation string (`client.py`, and the files of
    ExtractOperationsPlugin): a union of sets built by iterating a set, then `sorted`. -/
theorem operation_fragments_oracle_independent (e₁ e₂ : EnumOracle) (he₁ : EnumOK e₁) (he₂ : EnumOK e₂)
    (mixins unpacked : List Name) (closure : Name → Option (List Name)) (hdef : MixinsDefined mixins closure) :
    operationFragments e₁ mixins unpacked closure = operationFragments e₂ mixins unpacked closure :=
  operationFragments_eq e₁ e₂ he₁ he₂ mixins unpacked closure hdef

/-- (should) and under the same guard the KeyError branch of the model is unreachable -/
theorem operation_fragments_no_key_error (e : EnumOracle) (he : EnumOK e) (mixins unpacked : List Name)
    (closure : Name → Option (List Name)) (hdef : MixinsDefined mixins closure) :
    ∃ out, operationFragments e mixins unpacked closure = .ok out :=
  operationFragments_ok e he mixins unpacked closure hdef

def demoClosure : Name → Option (List Name) := fun f => if f = "FullView" then some ["UserCore", "ContactView", "AuditView"] else some []

example : MixinsDefined ["FullView"] demoClosure := by intro f _; unfold demoClosure; split <;> rfl

example : operationFragments List.reverse ["FullView"] ["Zz"] demoClosure = .ok ["AuditView", "ContactView", "FullView", "UserCore", "Zz"] := by decide

/-- (must) `TypeCollector.collect` (custom operations): `sorted(self.collected_types)` -/
theorem collected_types_oracle_independent (e₁ e₂ : EnumOracle) (he₁ : EnumOK e₁) (he₂ : EnumOK e₂) (collected : List Name) :
    collectedTypes e₁ collected = collectedTypes e₂ collected :=
  pySorted_eq_of_perm ((he₁ collected).trans (he₂ collected).symm)

/-- (must) one whole result module (bases of every class, every `__typename` literal, the fragments of the
    operation string) is independent of set iteration — at full strength, there is no finding trigger here. -/
theorem result_module_oracle_independent (e₁ e₂ : EnumOracle) (he₁ : EnumOK e₁) (he₂ : EnumOK e₂) (pascal : Name → Name)
    (baseModel : Name) (closure : Name → Option (List Name)) (r : ResultIn) (hdef : MixinsDefined r.mixins closure) :
    emitResult e₁ pascal baseModel closure r = emitResult e₂ pascal baseModel closure r := by
  unfold emitResult
  rw [operationFragments_eq e₁ e₂ he₁ he₂ r.mixins r.unpacked closure hdef]
  have hb : r.classes.map (fun c => (c.name, classBases e₁ pascal baseModel c.fragments c.extraBases))
      = r.classes.map (fun c => (c.name, classBases e₂ pascal baseModel c.fragments c.extraBases)) := by
    apply List.map_congr_left
    intro c _
    rw [classBases_eq_of_perm e₁ e₂ he₁ he₂ pascal baseModel (List.Perm.refl c.fragments) c.extraBases]
  have hl : r.typenames.map (fun t => typenameLiterals e₁ t.typesNames t.abstract t.possible)
      = r.typenames.map (fun t => typenameLiterals e₂ t.typesNames t.abstract t.possible) := by
    apply List.map_congr_left
    intro t _
    exact typenameLiterals_eq e₁ e₂ he₁ he₂ t.typesNames t.abstract t.possible
  rw [hb, hl]

def demoResult : ResultIn :=
  { module := "get_user",
    classes := [⟨"GetUserUser", ["UserCore", "AuditView", "AdminView"], []⟩, ⟨"GetUserUserManager", [], ["Mx"]⟩],
    typenames := [⟨["Animal", "Dog"], some "Animal", ["Dog", "Cat", "Bird"]⟩],
    mixins := ["FullView"], unpacked := [] }

example : MixinsDefined demoResult.mixins demoClosure := by intro f _; unfold demoClosure; split <;> rfl

example : (emitResult List.reverse String.capitalize "BaseModel" demoClosure demoResult).map (·.bases)
    = .ok [("GetUserUser", ["AdminView", "AuditView", "UserCore"]), ("GetUserUserManager", ["BaseModel", "Mx"])] := by decide

/-! ## 9. the order of plugin classes and plugin hooks comes from the configured LIST -/

/-- (must) the plugin classes taken from a module do not depend on the order in which the module's
    namespace is listed (`inspect.getmembers` sorts by attribute name; attribute names are distinct). -/
theorem plugins_listing_independent {ns₁ ns₂ : List (Name × Cls) → List (Name × Cls)} (resolve : String → PluginTarget)
    (h₁ : ∀ ms, (ns₁ ms).Perm ms) (h₂ : ∀ ms, (ns₂ ms).Perm ms)
    (hd : ∀ s ms, resolve s = .module ms → AttrsDistinct ms) (strs : List String) :
    getPluginsTypes ns₁ resolve strs = getPluginsTypes ns₂ resolve strs :=
  getPluginsTypes_eq_of_perm resolve h₁ h₂ hd strs

/-- (must) plugin classes come in the order of the configured list: loading `a ++ b` is loading `a`, then `b`
    (and the first refusal in that order is the one that escapes). -/
theorem plugins_in_config_order (ns : List (Name × Cls) → List (Name × Cls)) (resolve : String → PluginTarget) (a b : List String) :
    getPluginsTypes ns resolve (a ++ b)
      = match getPluginsTypes ns resolve a with
        | .error m => .error m
        | .ok x => (getPluginsTypes ns resolve b).map (x ++ ·) :=
  getPluginsTypes_append ns resolve a b

/-- (must) … and every hook is applied in that order: the plugins listed later see what the earlier ones produced. -/
theorem hooks_in_config_order {α : Type} (hookOf : Cls → α → α) (p q : List Cls) (x : α) :
    applyHooks hookOf (p ++ q) x = applyHooks hookOf q (applyHooks hookOf p x) :=
  applyHooks_append hookOf p q x

/-- (must) Why that order is part of the output: hooks do not commute, so a plugin list that went through a
    set would make the generated files depend on the enumeration (hash seed). -/
theorem hook_order_observable :
    ∃ (hookOf : Cls → List Cls → List Cls) (ps : List Cls) (e₁ e₂ : EnumOracle), EnumOK e₁ ∧ EnumOK e₂ ∧
      applyHooks hookOf (e₁ ps) [] ≠ applyHooks hookOf (e₂ ps) [] :=
  ⟨fun c x => x ++ [c], ["ShorterResultsPlugin", "ClientForwardRefsPlugin"], id, List.reverse,
    fun _ => List.Perm.refl _, fun s => List.reverse_perm s, by decide⟩

def demoResolve : String → PluginTarget := fun s =>
  if s = "contrib.shorter_results" then .module [("ShorterResultsPlugin", "contrib.shorter_results.ShorterResultsPlugin"), ("Alias", "x.Other")]
  else if s = "nowhere" then .refused "Incorrect plugin path. Use an absolute import path."
  else .cls s

example : getPluginsTypes List.reverse demoResolve ["b.P", "contrib.shorter_results", "a.Q"]
    = .ok ["b.P", "x.Other", "contrib.shorter_results.ShorterResultsPlugin", "a.Q"] := by decide

example : getPluginsTypes id demoResolve ["b.P", "nowhere", "a.Q"] = .error "Incorrect plugin path. Use an absolute import path." := by decide

example : ∀ s ms, demoResolve s = .module ms → AttrsDistinct ms := by
  intro s ms h
  unfold demoResolve at h
  split at h
  · cases h
    intro a b ha hb hab
    simp at ha hb
    rcases ha with rfl | rfl <;> rcases hb with rfl | rfl <;> simp_all
  · split at h <;> cases h

example : runHook id demoResolve (fun c (x : List Cls) => x ++ [c]) ["b.P", "a.Q"] [] = .ok ["b.P", "a.Q"] := by decide

/-! ## 10. the graphqlschema strategy as a whole -/

/-- (must) "The same holds for the graphqlschema strategy": a run of `main.graphql_schema` — load the schema
    files, build, resolve the plugins, `process_schema`, validate, render, write the one target file — gives
    the same write log (hence the same bytes) whatever the order in which the schema directory and the
    plugin modules' namespaces are listed, whatever the target directory already holds and whatever isort saw of it,
    provided the rendering is insensitive to that view (always so for the `.graphql` target; C10-F3 otherwise). -/
theorem graphqlschema_deterministic {S : Type} (dirList₁ dirList₂ : List Entry → List Entry) (entries : List Entry)
    (h₁ : (dirList₁ entries).Perm entries) (h₂ : (dirList₂ entries).Perm entries) (hd : PathsDistinct entries)
    (build : String → S) {ns₁ ns₂ : List (Name × Cls) → List (Name × Cls)} (resolve : String → PluginTarget)
    (hn₁ : ∀ ms, (ns₁ ms).Perm ms) (hn₂ : ∀ ms, (ns₂ ms).Perm ms)
    (hattrs : ∀ s ms, resolve s = .module ms → AttrsDistinct ms)
    (processSchema : Cls → S → S) (pluginsStrs : List String) (valid : S → Bool) (render : Bool → S → String)
    (insens : ∀ s, render true s = render false s) (target : Name) (flag₁ flag₂ : Bool) (dir₁ dir₂ : Dir) :
    graphqlSchemaRun dirList₁ entries build ns₁ resolve processSchema pluginsStrs valid render target flag₁ dir₁
      = graphqlSchemaRun dirList₂ entries build ns₂ resolve processSchema pluginsStrs valid render target flag₂ dir₂ := by
  unfold graphqlSchemaRun runHook
  rw [files_order_independent dirList₁ dirList₂ entries h₁ h₂ hd,
    plugins_listing_independent resolve hn₁ hn₂ hattrs pluginsStrs]
  cases loadGraphqlFiles dirList₂ entries with
  | error e => rfl
  | ok text =>
    cases getPluginsTypes ns₂ resolve pluginsStrs with
    | error m => rfl
    | ok ps =>
      simp only [Except.map]
      split
      · rw [regenerate_idempotent render _ (fun _ => flag₁) (fun _ => flag₂) dir₁ dir₂ (fun p _ => insens p.2)]
      · rfl

/-- (should) and a second run over the first leaves the target exactly as the first run did -/
theorem graphqlschema_regenerate_same {S : Type} (dirList : List Entry → List Entry) (entries : List Entry) (build : String → S)
    (ns : List (Name × Cls) → List (Name × Cls)) (resolve : String → PluginTarget) (processSchema : Cls → S → S)
    (pluginsStrs : List String) (valid : S → Bool) (render : Bool → S → String) (target : Name) (flag : Bool) (dir : Dir) (log : WriteLog)
    (h : graphqlSchemaRun dirList entries build ns resolve processSchema pluginsStrs valid render target flag dir = .ok log) :
    applyLog (applyLog dir log) log = applyLog dir log :=
  regenerate_same_directory log dir

example : graphqlSchemaRun List.reverse [⟨["b.graphql"], false, "type B"⟩, ⟨["a.gql"], false, "type A"⟩] (fun t => [t])
    List.reverse demoResolve (fun c s => s ++ [c]) ["b.P", "a.Q"] (fun _ => true) (fun _ s => ";".intercalate s) "schema_out.py" false (fun _ => none)
    = .ok { written := [("schema_out.py", "type A\ntype B;b.P;a.Q")], printed := ["schema_out.py"] } := by decide

/-! ## 11. the client strategy as a whole -/

/-- (must) The property for the client strategy, in the model, all factors at once: a run of `main.client` —
    load schema files, resolve plugins, load operation files, front end, every set-fed emission point of the
    package and of every result module, assemble (hooks in plugin order), render, write — produces the same
    write log (file names, bytes, printed list) whatever the set enumeration (hash seed), the listing order of
    the schema and operations directories (creation order), the namespace listing of plugin modules, the
    existing target directory and isort's view of it — outside the triggers of C10-F2 (`FrontSupported`, first
    conjunct) and C10-F3 (`insens`). -/
theorem client_deterministic {IR : Type} (e₁ e₂ : EnumOracle) (he₁ : EnumOK e₁) (he₂ : EnumOK e₂)
    (dirS₁ dirS₂ dirQ₁ dirQ₂ : List Entry → List Entry) (schemaEntries queryEntries : List Entry)
    (hs₁ : (dirS₁ schemaEntries).Perm schemaEntries) (hs₂ : (dirS₂ schemaEntries).Perm schemaEntries) (hsd : PathsDistinct schemaEntries)
    (hq₁ : (dirQ₁ queryEntries).Perm queryEntries) (hq₂ : (dirQ₂ queryEntries).Perm queryEntries) (hqd : PathsDistinct queryEntries)
    {ns₁ ns₂ : List (Name × Cls) → List (Name × Cls)} (resolve : String → PluginTarget)
    (hn₁ : ∀ ms, (ns₁ ms).Perm ms) (hn₂ : ∀ ms, (ns₂ ms).Perm ms) (hattrs : ∀ s ms, resolve s = .module ms → AttrsDistinct ms)
    (pluginsStrs : List String) (front : List Cls → String → String → Except String FrontOut)
    (hfront : ∀ ps s q f, front ps s q = .ok f → FrontSupported f)
    (keep : Name → Bool) (assemble : List Cls → PkgIR → List ResultIR → List (Name × IR))
    (render : Bool → IR → String) (insens : ∀ ir, render true ir = render false ir)
    (flag₁ flag₂ : Nat → Bool) (dir₁ dir₂ : Dir) :
    clientRun e₁ dirS₁ dirQ₁ schemaEntries queryEntries ns₁ resolve pluginsStrs front keep assemble render flag₁ dir₁
      = clientRun e₂ dirS₂ dirQ₂ schemaEntries queryEntries ns₂ resolve pluginsStrs front keep assemble render flag₂ dir₂ :=
  clientRun_eq e₁ e₂ he₁ he₂ dirS₁ dirS₂ dirQ₁ dirQ₂ schemaEntries queryEntries hs₁ hs₂ hsd hq₁ hq₂ hqd resolve hn₁ hn₂ hattrs
    pluginsStrs front hfront keep assemble render insens flag₁ flag₂ dir₁ dir₂

/-- `FrontSupported` is `Supported_10` of the package input plus `MixinsDefined` of every result module -/
theorem frontSupported_iff (f : FrontOut) :
    FrontSupported f ↔ Supported_10 f.pkg ∧ ∀ r, r ∈ f.results → MixinsDefined r.mixins f.closure := by
  unfold FrontSupported Supported_10 MixinsDefined MixinsDefinedIn
  simp

def demoFront : List Cls → String → String → Except String FrontOut := fun _ _ _ =>
  .ok { pkg := okInput, results := [demoResult], closure := demoClosure, baseModel := "BaseModel" }

example : ∀ ps s q f, demoFront ps s q = .ok f → FrontSupported f := by
  intro ps s q f h
  cases h
  refine ⟨by decide, ?_⟩
  intro r hr
  simp at hr
  subst hr
  intro g _
  show (demoClosure g).isSome = true
  unfold demoClosure
  split <;> rfl

example : (clientRun List.reverse List.reverse id [⟨["b.graphql"], false, "type B"⟩, ⟨["a.gql"], false, "type A"⟩] [⟨["q.graphql"], false, "query Q"⟩]
    id demoResolve ["b.P", "a.Q"] demoFront (fun _ => true)
    (fun ps pk rs => [("client.py", ps ++ rs.flatMap (·.operationFragments)), ("fragments.py", (pk.fragments.map (·.2.1)).getD [])])
    (fun _ ir => ",".intercalate ir) (fun _ => false) (fun _ => none)).toOption.map (·.written)
    = some [("client.py", "b.P,a.Q,AuditView,ContactView,FullView,UserCore"), ("fragments.py", "Af,Gq")] := by decide

/-! ## 12. the trigger of C10-F2 per call site -/

/-- (must) In an operation module only `from .fragments import …` is fed from a set: the module's import
    summary is oracle independent as soon as no two names imported FROM THE FRAGMENTS MODULE tie on isort's
    key — a tie inside any other import list of the module (`from .enums import OSType, OsType`: a list, in
    selection order) is harmless on the unchanged tree and is NOT part of finding C10-F2.  (Sharper than
    `operation_imports_oracle_independent`, whose hypothesis looks at the whole block.) -/
theorem operation_imports_site_independent (e₁ e₂ : EnumOracle) (he₁ : EnumOK e₁) (he₂ : EnumOK e₂)
    (pascal : Name → Name) (fm : String) (g : DefGen) (keep : Name → Bool) (ht : opSetFedTie pascal fm g = false) :
    summary keep (opImports e₁ pascal fm g) = summary keep (opImports e₂ pascal fm g) :=
  opImports_summary_eq e₁ e₂ he₁ he₂ pascal fm g keep ht

/-- an operation module importing two tied ENUM names and two untied fragments: outside the site trigger,
    inside the whole-block one -/
def tiedEnumsGen : DefGen :=
  { classes := ["Q"], imports := [⟨1, "enums", ["OSType", "OsType"]⟩], publicNames := ["Q"], usedEnums := ["OSType", "OsType"], mixins := ["Af", "Gq"] }

example : opSetFedTie String.capitalize "fragments" tiedEnumsGen = false
    ∧ summaryTie (opImports id String.capitalize "fragments" tiedEnumsGen) = true := by decide

/-- … and the site trigger fires on the witness of C10-F2 -/
example : opSetFedTie String.capitalize "fragments" { classes := ["Q1"], imports := [], publicNames := ["Q1"], usedEnums := [], mixins := ["fooBar", "foobar"] } = true := by decide

end Ariadne.C10
