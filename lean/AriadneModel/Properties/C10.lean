import AriadneModel.Model.Order
import AriadneModel.Spec.Isort
namespace Ariadne.C10
end Ariadne.C10
