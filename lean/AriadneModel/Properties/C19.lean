/-
  C19 — The schema source does not change the generated client.

  "The same schema supplied as one SDL file, as a directory tree of .graphql/.graphqls/.gql files
   in any split, or through introspection of a remote endpoint yields the same client for the same
   operations: identical result models, enums, method signatures and operation strings, and input
   models that agree on which fields are required and on every default value. Introspection
   failures (bad URL, non-2xx, non-JSON, errors, malformed data) surface as the introspection
   error; configured headers, with $ENV substitution, and the TLS verification flag are what is sent."

  Statements and final proofs only.  Models: Model/SchemaLoad.lean (files), Model/IntrospectChain.lean
  (remote + settings), Model/InputGen.lean (the generators that read the schema object),
  Spec/BuildClientSchema.lean (top of graphql-core's builder; modelled, validated, not verified).

  The property is FALSE on the pinned tree in four modelled places, each with its trigger predicate:
    F1  `trigDefaultLost`      input-field defaults are read from `field.ast_node`, absent after introspection
    F2  `trigTransportExc`     exceptions of `httpx.post` other than `InvalidURL` escape untyped
    F3  `trigDataRejected`     a `data` object that `build_client_schema` rejects escapes as TypeError/KeyError
    F4  `trigDeprecatedInput`  the introspection query sent does not ask for deprecated input values
  (F5, repeatable directives, lives entirely in graphql-core's validation and has no model here.)
-/
import AriadneModel.Proofs.SchemaLoad
import AriadneModel.Proofs.InputGen
import AriadneModel.Model.IntrospectChain
import AriadneModel.Spec.BuildClientSchema

set_option linter.unusedSimpArgs false
set_option linter.unusedVariables false

namespace Ariadne.C19
open Ariadne Ariadne.SchemaLoad Ariadne.InputGen Ariadne.Introspect

/-! ## 1. One file or any split into files and sub-directories -/

/-- `kids` is a split of the definition list `ds`: every path with a graphql suffix is a file that
    parses, and together the files hold exactly the definitions `ds` (in any arrangement). -/
def IsSplit {δ : Type} (kids : List (Tree δ)) (ds : List δ) : Prop :=
  (∀ e ∈ walk kids, Readable e) ∧ (graphqlDefs kids).Perm ds

/-- Full strength, file part: whatever the split, the directory loads, and the document handed to
    `build_ast_schema` has the same definitions as the single file's (as a multiset). -/
def C19_split_full : Prop :=
  ∀ (δ : Type) (ds : List δ) (kids : List (Tree δ)), IsSplit kids ds →
    load (.file (some ds)) = .ok ds ∧ ∃ ds', load (.dir kids) = .ok ds' ∧ ds'.Perm ds

theorem split_invariant : C19_split_full := by
  intro δ ds kids ⟨hread, hperm⟩
  refine ⟨rfl, ?_⟩
  obtain ⟨ds', h⟩ := (loadDir_ok_iff kids).mpr hread
  exact ⟨ds', h, (loadDir_perm kids ds' h).trans hperm⟩

/-- The generated enum and input class *sets* are functions of the set of definitions: a split
    gives a permutation of the single file's classes (DESIGN §3.0: class order inside enums.py /
    input_types.py is not compared; each class and its text is). -/
theorem split_invariant_classes (m : Mode) (defs : List TypeDef) (kids : List (Tree TypeDef))
    (hs : IsSplit kids defs) (hu : NamesUnique defs) :
    ∃ defs', load (.dir kids) = .ok defs' ∧
      (inputResults m defs').Perm (inputResults m defs) ∧ (enumResults defs').Perm (enumResults defs) := by
  obtain ⟨_, defs', hl, hp⟩ := split_invariant TypeDef defs kids hs
  exact ⟨defs', hl, inputResults_perm m hp (NamesUnique.perm hp.symm hu), enumResults_perm hp⟩

/-- Every type name resolves to the same kind whatever the order of the definitions. -/
theorem name_resolution_order_independent (d₁ d₂ : List TypeDef) (h : d₁.Perm d₂) (hu : NamesUnique d₁) :
    kindOf d₁ = kindOf d₂ := kindOf_perm h hu

/-- The result does not depend on the order in which `glob` enumerates the directory (creation
    order, os.scandir order): two enumerations of the same distinct paths load the same document. -/
theorem load_order_independent {δ : Type} (k₁ k₂ : List (Tree δ)) (hp : (walk k₁).Perm (walk k₂))
    (hnd : ((walk k₁).map (·.path)).Nodup) : load (.dir k₁) = load (.dir k₂) :=
  loadDir_order_independent k₁ k₂ hp hnd

/-- Files whose suffix is not one of the three are ignored; nothing else is. -/
theorem walk_mem_iff {δ : Type} (kids : List (Tree δ)) (e : Entry δ) :
    e ∈ walk kids ↔ e ∈ entriesList [] kids ∧ Tables.graphqlExtensions.contains (suffix e.name) = true := by
  simp [walk, isGraphqlName]

/-- An unreadable graphql file refuses the whole load with the documented error (or, for a directory
    carrying a graphql suffix, with IsADirectoryError) — never a silently shorter schema. -/
theorem load_refuses_unreadable {δ : Type} (kids : List (Tree δ)) (e : Entry δ) (he : e ∈ walk kids)
    (hbad : ¬ Readable e) : ∃ err, load (.dir kids) = .error err := by
  rcases h : loadDir kids with err | ds
  · exact ⟨err, h⟩
  · exact absurd ((loadDir_ok_iff kids).mp ⟨ds, h⟩ e he) hbad

/-- the three suffixes, as the source has them now -/
theorem extensions_pinned : Tables.graphqlExtensions = [".graphql", ".graphqls", ".gql"] := by decide +kernel

/-- non-vacuity: a nested split with the three extensions, an ignored file, shuffled order -/
def exampleTree : List (Tree Nat) :=
  [.file "z.gql" (some [5]), .file "README.md" none,
   .dir "sub" [.file "b.graphqls" (some [3, 4]), .dir "deep" [.file "a.graphql" (some [1, 2])], .file ".gql" none],
   .file "a.graphql.bak" none]

example : IsSplit exampleTree [1, 2, 3, 4, 5] := by
  refine ⟨?_, ?_⟩
  · intro e he
    have : (walk exampleTree).all (fun e => match e.item with | .file (some _) => true | _ => false) = true := by
      decide +kernel
    have h := List.all_eq_true.mp this e he
    unfold Readable
    rcases hi : e.item with _ | c
    · simp [hi] at h
    · cases c with
      | none => simp [hi] at h
      | some ds => exact ⟨ds, rfl⟩
  · have : graphqlDefs exampleTree = [5, 3, 4, 1, 2] := by decide +kernel
    rw [this]; decide

example : load (.dir exampleTree) = .ok [3, 4, 1, 2, 5] := by decide +kernel
example : suffix "a.graphql" = ".graphql" ∧ suffix ".gql" = "" ∧ suffix "a." = "" ∧ suffix "x.tar.gql" = ".gql" := by
  decide +kernel

/-! ## 2. Introspection failures -/

def isErr {ε α : Type} : Except ε α → Bool
  | .error _ => true
  | .ok _ => false

/-- The classes of failing introspection the property lists (bad URL / unreachable endpoint,
    non-2xx, non-JSON, not an object, no `data`, a non-empty `errors` list, `data` not an object,
    a `data` object the schema builder rejects). -/
def Failure {σ : Type} (build : List (String × J) → Except String σ) : PostResult → Prop
  | .raised _ => True
  | .response status body =>
    ¬ (200 ≤ status ∧ status ≤ 299) ∨
      match body with
      | none => True
      | some (.obj kvs) =>
        (match J.lookup "data" kvs with
          | none => True
          | some (.obj d) => isErr (build d) = true
          | some _ => True) ∨
        (∃ e es, J.lookup "errors" kvs = some (.arr (e :: es)))
      | some _ => True

def IsIntrospectionError {σ : Type} (o : UrlOutcome σ) : Prop := ∃ k, o = .introspectionError k

/-- Full strength, failure part. -/
def C19_failures_full : Prop :=
  ∀ (σ : Type) (build : List (String × J) → Except String σ) (p : PostResult),
    Failure build p → IsIntrospectionError (schemaFromUrl build p)

/-- F2: `httpx.post` raised something that is not `httpx.InvalidURL`. -/
def trigTransportExc : PostResult → Bool
  | .raised exc => exc != "InvalidURL"
  | .response _ _ => false

/-- F3: the checks of `introspect_remote_schema` pass and the builder rejects the `data` object. -/
def trigDataRejected {σ : Type} (build : List (String × J) → Except String σ) (p : PostResult) : Bool :=
  match introspect p with
  | .data d => isErr (build d)
  | _ => false

theorem isSuccess_iff (s : Nat) : isSuccess s = true ↔ (200 ≤ s ∧ s ≤ 299) := by
  simp [isSuccess]

/-- **introspection_failures_typed** — outside the two trigger regions every listed failure is an
    `IntrospectionError`. -/
theorem introspection_failures_typed {σ : Type} (build : List (String × J) → Except String σ) (p : PostResult)
    (hf : Failure build p) (h2 : trigTransportExc p = false) (h3 : trigDataRejected build p = false) :
    IsIntrospectionError (schemaFromUrl build p) := by
  unfold IsIntrospectionError schemaFromUrl
  cases p with
  | raised exc =>
    have : exc = "InvalidURL" := by simpa [trigTransportExc] using h2
    subst this
    exact ⟨.invalidUrl, by simp [introspect]⟩
  | response status body =>
    unfold trigDataRejected at h3
    unfold Failure at hf
    by_cases hs : (200 ≤ status ∧ status ≤ 299)
    · have hsucc : isSuccess status = true := (isSuccess_iff status).mpr hs
      rcases hf with hf | hf
      · exact absurd hs hf
      · rcases body with _ | b
        · exact ⟨.notJson, by simp [introspect, hsucc]⟩
        · cases b with
          | obj kvs =>
            rcases hd : J.lookup "data" kvs with _ | data
            · exact ⟨.badFormat, by simp [introspect, hsucc, hd]⟩
            · by_cases ht : (J.getD "errors" kvs).truthy = true
              · exact ⟨.errors (J.getD "errors" kvs), by simp [introspect, hsucc, hd, ht]⟩
              · have ht' : (J.getD "errors" kvs).truthy = false := by simpa using ht
                simp only [hd] at hf
                rcases hf with hf | ⟨e, es, he⟩
                · cases data with
                  | obj d =>
                    simp only [introspect, hsucc, hd, ht'] at h3
                    simp at hf h3
                    rw [hf] at h3; cases h3
                  | null => exact ⟨.badData, by simp [introspect, hsucc, hd, ht']⟩
                  | bool _ => exact ⟨.badData, by simp [introspect, hsucc, hd, ht']⟩
                  | num _ _ => exact ⟨.badData, by simp [introspect, hsucc, hd, ht']⟩
                  | str _ => exact ⟨.badData, by simp [introspect, hsucc, hd, ht']⟩
                  | arr _ => exact ⟨.badData, by simp [introspect, hsucc, hd, ht']⟩
                · simp [J.getD, he, J.truthy] at ht'
          | null => exact ⟨.badFormat, by simp [introspect, hsucc]⟩
          | bool _ => exact ⟨.badFormat, by simp [introspect, hsucc]⟩
          | num _ _ => exact ⟨.badFormat, by simp [introspect, hsucc]⟩
          | str _ => exact ⟨.badFormat, by simp [introspect, hsucc]⟩
          | arr _ => exact ⟨.badFormat, by simp [introspect, hsucc]⟩
    · have hsucc : isSuccess status = false := by
        cases h : isSuccess status
        · rfl
        · exact absurd ((isSuccess_iff status).mp h) hs
      exact ⟨.httpStatus status, by simp [introspect, hsucc]⟩

/-- `C19_partial`, failure part: theorem region ∪ trigger regions = all responses, by definition. -/
theorem C19_failures_partial : ∀ (σ : Type) (build : List (String × J) → Except String σ) (p : PostResult),
    Failure build p → ¬ (trigTransportExc p = true ∨ trigDataRejected build p = true) →
    IsIntrospectionError (schemaFromUrl build p) := by
  intro σ build p hf hn
  have h2 : trigTransportExc p = false := by
    cases h : trigTransportExc p
    · rfl
    · exact absurd (Or.inl h) hn
  have h3 : trigDataRejected build p = false := by
    cases h : trigDataRejected build p
    · rfl
    · exact absurd (Or.inr h) hn
  exact introspection_failures_typed build p hf h2 h3

/-- the F2 witness (what a URL without scheme produces) and the F3 witness (`{"data": {}}`) -/
def witnessF2 : PostResult := .raised "UnsupportedProtocol"
def witnessF3 : PostResult := .response 200 (some (.obj [("data", .obj [])]))

theorem C19_failures_full_false : ¬ C19_failures_full := by
  intro h
  have := h Unit Spec.BuildClientSchema.build witnessF2 trivial
  obtain ⟨k, hk⟩ := this
  simp [witnessF2, schemaFromUrl, introspect] at hk

/-- F3 on its own witness: a 200 response whose `data` is `{}` ends in a bare `TypeError`. -/
theorem malformed_data_escapes_untyped :
    Failure Spec.BuildClientSchema.build witnessF3 ∧
      schemaFromUrl Spec.BuildClientSchema.build witnessF3 = .other "TypeError" := by
  refine ⟨?_, ?_⟩
  · unfold Failure witnessF3
    right; left
    simp [J.lookup, isErr, Spec.BuildClientSchema.build, Spec.BuildClientSchema.top]
  · rfl

example : trigTransportExc witnessF2 = true := by decide +kernel
example : trigDataRejected Spec.BuildClientSchema.build witnessF3 = true := by decide +kernel
/-- non-vacuity of the partial theorem: a 503 and an `errors` answer are failures outside both triggers -/
example : Failure Spec.BuildClientSchema.build (.response 503 none) ∧
    trigTransportExc (.response 503 none) = false ∧
    trigDataRejected Spec.BuildClientSchema.build (.response 503 none) = false := by
  refine ⟨Or.inl (by omega), rfl, rfl⟩

/-- True at full strength: no failing introspection ever yields a schema (nothing is generated from
    a failed introspection, typed or not). -/
theorem failure_never_yields_schema {σ : Type} (build : List (String × J) → Except String σ) (p : PostResult)
    (hf : Failure build p) (s : σ) : schemaFromUrl build p ≠ .schema s := by
  intro hcontra
  unfold schemaFromUrl at hcontra
  cases p with
  | raised exc =>
    by_cases he : exc = "InvalidURL" <;> simp [introspect, he] at hcontra
  | response status body =>
    unfold Failure at hf
    by_cases hs : (200 ≤ status ∧ status ≤ 299)
    · have hsucc : isSuccess status = true := (isSuccess_iff status).mpr hs
      rcases hf with hf | hf
      · exact hf hs
      · rcases body with _ | b
        · simp [introspect, hsucc] at hcontra
        · cases b with
          | obj kvs =>
            rcases hd : J.lookup "data" kvs with _ | data
            · simp [introspect, hsucc, hd] at hcontra
            · by_cases ht : (J.getD "errors" kvs).truthy = true
              · simp [introspect, hsucc, hd, ht] at hcontra
              · have ht' : (J.getD "errors" kvs).truthy = false := by simpa using ht
                simp only [hd] at hf
                rcases hf with hf | ⟨e, es, he⟩
                · cases data with
                  | obj d =>
                    simp only [introspect, hsucc, hd, ht'] at hcontra
                    simp at hf hcontra
                    rcases hb : build d with x | v
                    · simp [hb] at hcontra
                    · simp [hb, isErr] at hf
                  | null => simp [introspect, hsucc, hd, ht'] at hcontra
                  | bool _ => simp [introspect, hsucc, hd, ht'] at hcontra
                  | num _ _ => simp [introspect, hsucc, hd, ht'] at hcontra
                  | str _ => simp [introspect, hsucc, hd, ht'] at hcontra
                  | arr _ => simp [introspect, hsucc, hd, ht'] at hcontra
                · simp [J.getD, he, J.truthy] at ht'
          | null => simp [introspect, hsucc] at hcontra
          | bool _ => simp [introspect, hsucc] at hcontra
          | num _ _ => simp [introspect, hsucc] at hcontra
          | str _ => simp [introspect, hsucc] at hcontra
          | arr _ => simp [introspect, hsucc] at hcontra
    · have hsucc : isSuccess status = false := by
        cases h : isSuccess status
        · rfl
        · exact absurd ((isSuccess_iff status).mp h) hs
      simp [introspect, hsucc] at hcontra

/-- Exactly when `introspect_remote_schema` returns: 2xx, a JSON object with an object `data`
    and a falsy `errors`. -/
theorem introspect_data_iff (p : PostResult) (d : List (String × J)) :
    introspect p = .data d ↔
      ∃ status kvs, p = .response status (some (.obj kvs)) ∧ (200 ≤ status ∧ status ≤ 299) ∧
        J.lookup "data" kvs = some (.obj d) ∧ (J.getD "errors" kvs).truthy = false := by
  constructor
  · intro h
    cases p with
    | raised exc => simp only [introspect] at h; split at h <;> simp at h
    | response status body =>
      by_cases hs : isSuccess status = true
      · rcases body with _ | b
        · simp [introspect, hs] at h
        · cases b with
          | obj kvs =>
            rcases hd : J.lookup "data" kvs with _ | data
            · simp [introspect, hs, hd] at h
            · by_cases ht : (J.getD "errors" kvs).truthy = true
              · simp [introspect, hs, hd, ht] at h
              · have ht' : (J.getD "errors" kvs).truthy = false := by simpa using ht
                cases data with
                | obj d' =>
                  simp [introspect, hs, hd, ht'] at h
                  subst h
                  exact ⟨status, kvs, rfl, (isSuccess_iff status).mp hs, hd, ht'⟩
                | null => simp [introspect, hs, hd, ht'] at h
                | bool _ => simp [introspect, hs, hd, ht'] at h
                | num _ _ => simp [introspect, hs, hd, ht'] at h
                | str _ => simp [introspect, hs, hd, ht'] at h
                | arr _ => simp [introspect, hs, hd, ht'] at h
          | null => simp [introspect, hs] at h
          | bool _ => simp [introspect, hs] at h
          | num _ _ => simp [introspect, hs] at h
          | str _ => simp [introspect, hs] at h
          | arr _ => simp [introspect, hs] at h
      · have hs' : isSuccess status = false := by simpa using hs
        simp [introspect, hs'] at h
  · rintro ⟨status, kvs, rfl, hs, hd, ht⟩
    have hsucc : isSuccess status = true := (isSuccess_iff status).mpr hs
    simp [introspect, hsucc, hd, ht]

/-- A 3xx answer is not followed (httpx.post does not follow redirects) and is a typed failure. -/
theorem redirect_is_typed_failure {σ : Type} (build : List (String × J) → Except String σ) (status : Nat) (b : Option J)
    (h : 300 ≤ status ∧ status ≤ 399) :
    schemaFromUrl build (.response status b) = .introspectionError (.httpStatus status) := by
  have : isSuccess status = false := by
    simp only [isSuccess, Bool.and_eq_false_iff, decide_eq_false_iff_not]; omega
  simp [schemaFromUrl, introspect, this]

/-! ## 3. What is sent -/

/-- **headers_resolved_and_sent / verify_flag_sent**: when the remote source is used, the one
    `httpx.post` call carries the configured URL, the headers after `$ENV` substitution (same keys,
    same order), the configured TLS flag and the introspection query built with the pinned flags;
    and the remote source is used only when no `schema_path` is configured. -/
theorem headers_resolved_and_sent (env : String → Option String) (pathExists : Bool) (c : SourceCfg) (call : PostCall)
    (h : chooseSource env pathExists c = .ok (.remote call)) :
    c.schemaPath = "" ∧ call.url = c.remoteUrl ∧ resolveHeaders env c.headers = .ok call.headers ∧
      call.queryFlags = Tables.introspectionQueryFlags := by
  unfold chooseSource at h
  split at h
  · cases h
  · split at h
    · cases h
    · rcases hr : resolveHeaders env c.headers with n | hs
      · simp [hr] at h
      · simp only [hr] at h
        split at h
        · cases h
        · rename_i hp
          have hp' : c.schemaPath = "" := by simpa using hp
          simp only [Except.ok.injEq, Chosen.remote.injEq] at h
          subst h
          exact ⟨hp', rfl, rfl, rfl⟩

theorem verify_flag_sent (env : String → Option String) (pathExists : Bool) (c : SourceCfg) (call : PostCall)
    (h : chooseSource env pathExists c = .ok (.remote call)) : call.verify = c.verifySsl := by
  unfold chooseSource at h
  split at h
  · cases h
  · split at h
    · cases h
    · rcases hr : resolveHeaders env c.headers with n | hs
      · simp [hr] at h
      · simp only [hr] at h
        split at h
        · cases h
        · simp only [Except.ok.injEq, Chosen.remote.injEq] at h
          subst h; rfl

/-- conversely: a configured URL without `schema_path` and resolvable headers does lead to the request -/
theorem remote_chosen (env : String → Option String) (pathExists : Bool) (c : SourceCfg) (hs : List (String × String))
    (hp : c.schemaPath = "") (hu : c.remoteUrl ≠ "") (hr : resolveHeaders env c.headers = .ok hs) :
    chooseSource env pathExists c = .ok (.remote ⟨c.remoteUrl, hs, c.verifySsl, Tables.introspectionQueryFlags⟩) := by
  unfold chooseSource
  simp [hp, hu, hr]

/-- a header whose value does not start with `$` is sent verbatim -/
theorem header_plain (env : String → Option String) (v : String) (h : v.toList.head? ≠ some '$') :
    headerValue env v = .ok v := by
  unfold headerValue
  split
  · rename_i rest heq
    simp [heq] at h
  · rfl

/-- `$NAME` is replaced by the non-empty value of the environment variable `NAME` -/
theorem header_env (env : String → Option String) (name : List Char) (x : String)
    (hn : name.head? ≠ some '$') (hx : env (String.ofList name) = some x) (hne : x ≠ "") :
    headerValue env (String.ofList ('$' :: name)) = .ok x := by
  unfold headerValue
  have hdw : name.dropWhile (· == '$') = name := by
    cases name with
    | nil => rfl
    | cons c cs =>
      have : c ≠ '$' := by simpa using hn
      have hb : (c == '$') = false := by simpa using this
      simp [List.dropWhile, hb]
  simp [hdw, hx, hne]

/-- an unset or empty variable is an `InvalidConfiguration`, and then nothing is sent at all -/
theorem header_env_missing (env : String → Option String) (name : List Char)
    (hn : name.head? ≠ some '$') (hx : env (String.ofList name) = none ∨ env (String.ofList name) = some "") :
    headerValue env (String.ofList ('$' :: name)) = .error (String.ofList name) := by
  unfold headerValue
  have hdw : name.dropWhile (· == '$') = name := by
    cases name with
    | nil => rfl
    | cons c cs =>
      have : c ≠ '$' := by simpa using hn
      have hb : (c == '$') = false := by simpa using this
      simp [List.dropWhile, hb]
  rcases hx with hx | hx <;> simp [hdw, hx]

theorem no_request_when_env_missing (env : String → Option String) (pathExists : Bool) (c : SourceCfg) (n : String)
    (hr : resolveHeaders env c.headers = .error n) : ∀ ch, chooseSource env pathExists c ≠ .ok ch := by
  intro ch h
  unfold chooseSource at h
  split at h
  · cases h
  · split at h
    · cases h
    · simp [hr] at h

/-- header names and their order are kept; every value goes through `get_header_value` -/
theorem resolveHeaders_pointwise (env : String → Option String) : ∀ (hs r : List (String × String)),
    resolveHeaders env hs = .ok r →
      r.map Prod.fst = hs.map Prod.fst ∧ ∀ i (hi : i < hs.length), ∃ x, r[i]? = some (hs[i].1, x) ∧ headerValue env hs[i].2 = .ok x
  | [], r, h => by simp [resolveHeaders] at h; subst h; simp
  | (k, v) :: rest, r, h => by
    unfold resolveHeaders at h
    rcases hv : headerValue env v with n | x
    · simp [hv] at h
    · rcases hr : resolveHeaders env rest with n | r'
      · simp [hv, hr] at h
      · simp [hv, hr] at h
        subst h
        have ⟨ih₁, ih₂⟩ := resolveHeaders_pointwise env rest r' hr
        refine ⟨by simp [ih₁], ?_⟩
        intro i hi
        cases i with
        | zero => exact ⟨x, by simp, by simpa using hv⟩
        | succ j =>
          have hj : j < rest.length := by simpa using hi
          obtain ⟨y, hy₁, hy₂⟩ := ih₂ j hj
          exact ⟨y, by simpa using hy₁, by simpa using hy₂⟩

/-! The flags of the query that is sent are NOT pinned by a theorem: the model reads them from the regenerated
    table (`Introspect.queryFlag`), so that repairing finding F4 (`input_value_deprecation=True`) moves the model
    with the code instead of breaking a proof. -/

example : headerValue (fun n => if n = "TOKEN" then some "secret" else none) "$TOKEN" = .ok "secret" := by decide +kernel
example : headerValue (fun _ => none) "Bearer x" = .ok "Bearer x" := by decide +kernel
example : chooseSource (fun n => if n = "T" then some "s" else none) false ⟨"", "http://h/graphql", [("Authorization", "$T"), ("X", "y")], false⟩
    = .ok (.remote ⟨"http://h/graphql", [("Authorization", "s"), ("X", "y")], false, Tables.introspectionQueryFlags⟩) := by
  rfl

/-! ## 4. SDL-built vs introspection-built schema object -/

/-- what the introspection path sees, with the query flags of the source as it is now -/
def introMode : Mode := .intro (queryFlag "input_value_deprecation")

/-- a schema the generator accepts: unique type names, every input field of an input type -/
def ValidInputs (defs : List TypeDef) : Prop :=
  NamesUnique defs ∧ ∀ n fs, TypeDef.input n fs ∈ defs → AnnOk (kindOf defs) fs

/-- Full strength, source part (inputs): the input classes — field sets, annotations, which fields
    are required, every default — do not depend on the builder. -/
def C19_inputs_full : Prop :=
  ∀ defs : List TypeDef, ValidInputs defs → inputResults .sdl defs = inputResults introMode defs

/-- the finding-free region: no effective default (F1), no deprecated input field that the query
    that is sent leaves out (F4) -/
def Supported_19 (defs : List TypeDef) : Prop :=
  ¬ (trigDefaultLost defs = true ∨ trigDeprecatedInput (queryFlag "input_value_deprecation") defs = true)

theorem visible_of_not_trig (d : Bool) (defs : List TypeDef) (h : trigDeprecatedInput d defs = false) :
    ∀ n fs, TypeDef.input n fs ∈ defs → visibleFields (.intro d) fs = fs := by
  intro n fs hm
  apply visibleFields_eq_of_no_deprecated
  rcases (trigDeprecatedInput_false_iff d defs).mp h with h | h
  · exact Or.inl h
  · exact Or.inr (h n fs hm)

/-- **inputs_agree_iff_no_default**: when the query drops nothing, SDL and introspection give the
    same input classes exactly when no field has an effective default — so requiredness and defaults
    disagree precisely on the F1 region. -/
theorem inputs_agree_iff_no_default (defs : List TypeDef) (hv : ValidInputs defs)
    (h4 : trigDeprecatedInput (queryFlag "input_value_deprecation") defs = false) :
    inputResults .sdl defs = inputResults introMode defs ↔ trigDefaultLost defs = false := by
  unfold inputResults introMode
  rw [inputResultsK_agree_iff (kindOf defs) _ defs hv.2 (visible_of_not_trig _ defs h4)]
  exact (trigDefaultLost_false_iff defs).symm

/-- `C19_partial`, source part. -/
theorem C19_inputs_partial : ∀ defs : List TypeDef, ValidInputs defs → Supported_19 defs →
    inputResults .sdl defs = inputResults introMode defs := by
  intro defs hv hs
  have h1 : trigDefaultLost defs = false := by
    cases h : trigDefaultLost defs
    · rfl
    · exact absurd (Or.inl h) hs
  have h4 : trigDeprecatedInput (queryFlag "input_value_deprecation") defs = false := by
    cases h : trigDeprecatedInput (queryFlag "input_value_deprecation") defs
    · rfl
    · exact absurd (Or.inr h) hs
  exact (inputs_agree_iff_no_default defs hv h4).mpr h1

/-- F1 witness: `input In { x: Int = 5 }`. -/
def witnessF1 : List TypeDef := [.input "In" [⟨"x", .named "Int", some (.int 5), false⟩]]

theorem witnessF1_valid : ValidInputs witnessF1 := by
  refine ⟨?_, ?_⟩
  · intro a ha b hb _
    simp [witnessF1] at ha hb
    rw [ha, hb]
  · intro n fs hm f hf
    simp [witnessF1] at hm
    obtain ⟨rfl, rfl⟩ := hm
    simp at hf
    subst hf
    exact ⟨.optional (.name "int"), "", by decide +kernel⟩

theorem C19_inputs_full_false : ¬ C19_inputs_full := by
  intro h
  have h4 : trigDeprecatedInput (queryFlag "input_value_deprecation") witnessF1 = false := by
    unfold trigDeprecatedInput; simp [witnessF1]
  have := (inputs_agree_iff_no_default witnessF1 witnessF1_valid h4).mp (h witnessF1 witnessF1_valid)
  revert this
  decide +kernel

/-- what exactly happens to a default on the introspection path, per nullability -/
theorem default_lost_nullable (ft : String) (f : InputField) (lit : Lit) (d : Bool)
    (hd : f.default = some lit) (hn : f.type.isNonNull = false) :
    fieldDefault .sdl ft f = some (constValue ft lit false false) ∧ fieldDefault (.intro d) ft f = some .none := by
  refine ⟨fieldDefault_sdl_some ft f lit hd, ?_⟩
  rw [fieldDefault_intro_cases]; simp [hn]

/-- `x: T! = v`: optional (with the default) from SDL, *required* after introspection -/
theorem default_lost_required_flip (ft : String) (f : InputField) (lit : Lit) (d : Bool)
    (hd : f.default = some lit) (hn : f.type.isNonNull = true) :
    (fieldDefault .sdl ft f).isSome = true ∧ fieldDefault (.intro d) ft f = none := by
  refine ⟨by rw [fieldDefault_sdl_some ft f lit hd]; rfl, ?_⟩
  rw [fieldDefault_intro_cases]; simp [hn]

/-- F4 (conditional on the flag the source passes): a deprecated input field is missing from the
    introspection-built class. -/
theorem deprecated_field_dropped (kinds : String → Kind) (name : String) (fs : List InputField)
    (h : ∃ f ∈ fs, f.deprecated = true) :
    (genInput (.intro false) kinds name fs).fields.length < (genInput .sdl kinds name fs).fields.length := by
  simp only [genInput, List.length_map]
  exact visibleFields_length_lt fs h

/-- and when the query asks for deprecated input values nothing is dropped -/
theorem nothing_dropped_when_requested (fs : List InputField) : visibleFields (.intro true) fs = visibleFields .sdl fs := rfl

/-! ### everything else does not look at what differs -/

/-- Every read, in the client strategy, of a schema attribute whose value depends on the builder
    (`ast_node`, `extension_ast_nodes`, `default_value`, `description`, `deprecation_reason`,
    `specified_by_url`) — re-extracted from the source on every run — lies on the input-field
    default path modelled by `fieldDefault`. -/
def allowedUses : List (String × String × String) :=
  [("ariadne_codegen/client_generators/input_fields.py", "parse_input_field_default_value", "default_value"),
   ("ariadne_codegen/client_generators/input_types.py", "InputTypesGenerator._parse_input_definition", "ast_node")]

theorem ast_uses_confined : Tables.sourceSensitiveUses.all (fun u => allowedUses.contains u) = true := by
  decide +kernel

/-- A generator that is a function of the source-independent view of the schema object cannot tell
    the two builders apart (`ν` = what only the SDL builder provides: AST nodes). With
    `ast_uses_confined` this is why result models, enums, method signatures and operation strings
    are compared by the oracle as *equal* across sources, with no exception. -/
theorem source_invariant_results {σ ν β : Type} (g : σ → ν → β) (hg : ∀ s a b, g s a = g s b)
    (s₁ s₂ : σ) (a₁ a₂ : ν) (h : s₁ = s₂) : g s₁ a₁ = g s₂ a₂ := by
  subst h; exact hg _ _ _

/-- enums in particular: the generated enum classes are the same function of the definitions on
    both paths (the model has no mode argument), in any order of definitions -/
theorem enums_source_and_order_invariant (d₁ d₂ : List TypeDef) (h : d₁.Perm d₂) :
    (enumResults d₁).Perm (enumResults d₂) := enumResults_perm h

/-! ## 5. The property as a whole -/

/-- C19 at full strength = its three parts. -/
def C19_full : Prop := C19_split_full ∧ C19_inputs_full ∧ C19_failures_full

theorem C19_full_false : ¬ C19_full := fun h => C19_inputs_full_false h.2.1

/-- What holds: the file part at full strength; the source part and the failure part outside the
    trigger regions of the recorded findings. -/
theorem C19_partial :
    C19_split_full ∧
    (∀ defs : List TypeDef, ValidInputs defs → Supported_19 defs → inputResults .sdl defs = inputResults introMode defs) ∧
    (∀ (σ : Type) (build : List (String × J) → Except String σ) (p : PostResult), Failure build p →
        ¬ (trigTransportExc p = true ∨ trigDataRejected build p = true) → IsIntrospectionError (schemaFromUrl build p)) :=
  ⟨split_invariant, C19_inputs_partial, C19_failures_partial⟩

/-- non-vacuity of the source part: a schema with inputs, an enum, a nullable `= null` default, a
    recursive input, inside the supported region -/
def exampleSchema : List TypeDef :=
  [.enum "Color" ["RED", "GREEN"], .scalar "Date", .composite "Query",
   .input "Filter" [⟨"q", .named "String", none, false⟩, ⟨"c", .nonNull (.named "Color"), none, false⟩,
                    ⟨"n", .named "Int", some .null, false⟩, ⟨"sub", .list (.named "Filter"), none, false⟩,
                    ⟨"d", .named "Date", none, false⟩]]

example : trigDefaultLost exampleSchema = false ∧ trigDeprecatedInput false exampleSchema = false := by decide +kernel
example : trigDefaultLost witnessF1 = true := by decide +kernel

end Ariadne.C19
