/-
  C19 — The schema source does not change the generated client.

  "The same schema supplied as one SDL file, as a directory tree of .graphql/.graphqls/.gql files
   in any split, or through introspection of a remote endpoint yields the same client for the same
   operations: identical result models, enums, method signatures and operation strings, and input
   models that agree on which fields are required and on every default value. Introspection
   failures (bad URL, non-2xx, non-JSON, errors, malformed data) surface as the introspection
   error; configured headers, with $ENV substitution, and the TLS verification flag are what is sent."

  Statements and final proofs only.  Models: Model/SchemaLoad.lean (files), Model/IntrospectChain.lean
  (remote + settings, end to end and stage by stage), Model/InputGen.lean (the generators that read the schema object),
  Spec/BuildClientSchema.lean (top of graphql-core's builder) and Spec/GqlLexer.lean (graphql-core's lexer as a
  one-character automaton) - the two Spec files are modelled, validated, not verified.

  What is a theorem and what is not, file part: §1 works on parsed files (a file = the definitions `parse` finds in it)
  and §1b derives that abstraction from the TEXT level as far as the lexer goes: `joined_text_tokens` (for all texts:
  the text handed to `parse` for a directory has the token streams of the files, in order - a property of the
  separator, `join_separator_resets`, which is measured on the real function on every run) and
  `joined_text_definitions` (the same for definitions, under the explicit token-level hypothesis `DefinitionWise`
  about graphql-core's parser, which is validated on every generated tree and is not proved).
  Settings part: §3 states the end-to-end decision (`headers_resolved_and_sent`, `verify_flag_sent`) and, since the
  headers are STATE handed from `__post_init__` through `main` to the request, the pipeline stage by stage
  (`staged_eq_chooseSource`, `url_stage_sends_what_it_is_given`, `headers_resolved_exactly_once`) together with the
  exact region where one `$ENV` resolution and two differ (`second_resolution_identity_iff`).

  The property is FALSE on the pinned tree in four modelled places, each with its trigger predicate:
    F1  `trigDefaultLost`      input-field defaults are read from `field.ast_node`, absent after introspection
    F3  `trigDataRejected`     a `data` object that `build_client_schema` rejects escapes as TypeError/KeyError
    F4  `trigDeprecatedInput`  the introspection query sent does not ask for deprecated input values
    F6  `trigRequestExcUntyped` an `httpx.RequestError` that is not a `TransportError` (in practice `DecodingError`:
                               a body whose Content-Encoding cannot be undone) escapes untyped
  (F5, repeatable directives, lives entirely in graphql-core's validation and has no model here.)
  F2 (every `httpx.TransportError` escaped untyped: URL without / with an unsupported scheme, refused connection,
  timeouts ...) was REPAIRED by /repo commit 23ffd85; its former trigger region `raised e, e not an InvalidURL`
  now belongs to the theorem region except for the F6 sliver: `transport_failures_typed`, `raised_typed_iff`,
  `C19_F2_witness_now_ok`; `F2_witness_escaped_before_repair` keeps the old chain to say what a regression is.

  Which exceptions of `httpx.post` are "introspection failures" in the sense of the property: `httpx.InvalidURL`
  and the `httpx.RequestError` family (httpx: "all exceptions that may occur when issuing a .request()" - the
  TransportError subtree, DecodingError, TooManyRedirects), including any subclass of those. Exceptions outside
  these families (a non-httpx exception raised by a custom transport, `UnicodeEncodeError` for a non-ASCII header
  value raised by httpx before anything is sent, KeyboardInterrupt ...) are NOT claimed by the property; the model
  lets them escape unchanged and `foreign_exception_escapes` says so.
-/
import AriadneModel.Proofs.SchemaLoad
import AriadneModel.Proofs.InputGen
import AriadneModel.Proofs.GqlLexer
import AriadneModel.Generated.SchemaTextTables
import AriadneModel.Model.IntrospectChain
import AriadneModel.Spec.BuildClientSchema

set_option linter.unusedSimpArgs false
set_option linter.unusedVariables false

namespace Ariadne.C19
open Ariadne Ariadne.SchemaLoad Ariadne.InputGen Ariadne.Introspect

/-! ## 1. One file or any split into files and sub-directories -/

/-- `kids` is a split of the definition list `ds`: every path with a graphql suffix is a file that
    parses, and together the files hold exactly the definitions `ds` (in any arrangement). -/
def IsSplit {δ : Type} (kids : List (Tree δ)) (ds : List δ) : Prop :=
  (∀ e ∈ walk kids, Readable e) ∧ (graphqlDefs kids).Perm ds

/-- Full strength, file part: whatever the split, the directory loads, and the document handed to
    `build_ast_schema` has the same definitions as the single file's (as a multiset). -/
def C19_split_full : Prop :=
  ∀ (δ : Type) (ds : List δ) (kids : List (Tree δ)), IsSplit kids ds →
    load (.file (some ds)) = .ok ds ∧ ∃ ds', load (.dir kids) = .ok ds' ∧ ds'.Perm ds

theorem split_invariant : C19_split_full := by
  intro δ ds kids ⟨hread, hperm⟩
  refine ⟨rfl, ?_⟩
  obtain ⟨ds', h⟩ := (loadDir_ok_iff kids).mpr hread
  exact ⟨ds', h, (loadDir_perm kids ds' h).trans hperm⟩

/-- The generated enum and input class *sets* are functions of the set of definitions: a split
    gives a permutation of the single file's classes (DESIGN §3.0: class order inside enums.py /
    input_types.py is not compared; each class and its text is). -/
theorem split_invariant_classes (m : Mode) (defs : List TypeDef) (kids : List (Tree TypeDef))
    (hs : IsSplit kids defs) (hu : NamesUnique defs) :
    ∃ defs', load (.dir kids) = .ok defs' ∧
      (inputResults m defs').Perm (inputResults m defs) ∧ (enumResults defs').Perm (enumResults defs) := by
  obtain ⟨_, defs', hl, hp⟩ := split_invariant TypeDef defs kids hs
  exact ⟨defs', hl, inputResults_perm m hp (NamesUnique.perm hp.symm hu), enumResults_perm hp⟩

/-- Every type name resolves to the same kind whatever the order of the definitions. -/
theorem name_resolution_order_independent (d₁ d₂ : List TypeDef) (h : d₁.Perm d₂) (hu : NamesUnique d₁) :
    kindOf d₁ = kindOf d₂ := kindOf_perm h hu

/-- The result does not depend on the order in which `glob` enumerates the directory (creation
    order, os.scandir order): two enumerations of the same distinct paths load the same document. -/
theorem load_order_independent {δ : Type} (k₁ k₂ : List (Tree δ)) (hp : (walk k₁).Perm (walk k₂))
    (hnd : ((walk k₁).map (·.path)).Nodup) : load (.dir k₁) = load (.dir k₂) :=
  loadDir_order_independent k₁ k₂ hp hnd

/-- Files whose suffix is not one of the three are ignored; nothing else is. -/
theorem walk_mem_iff {δ : Type} (kids : List (Tree δ)) (e : Entry δ) :
    e ∈ walk kids ↔ e ∈ entriesList [] kids ∧ Tables.graphqlExtensions.contains (suffix e.name) = true := by
  simp [walk, isGraphqlName]

/-- An unreadable graphql file refuses the whole load with the documented error (or, for a directory
    carrying a graphql suffix, with IsADirectoryError) — never a silently shorter schema. -/
theorem load_refuses_unreadable {δ : Type} (kids : List (Tree δ)) (e : Entry δ) (he : e ∈ walk kids)
    (hbad : ¬ Readable e) : ∃ err, load (.dir kids) = .error err := by
  rcases h : loadDir kids with err | ds
  · exact ⟨err, h⟩
  · exact absurd ((loadDir_ok_iff kids).mp ⟨ds, h⟩ e he) hbad

/-- the three suffixes, as the source has them now -/
theorem extensions_pinned : Tables.graphqlExtensions = [".graphql", ".graphqls", ".gql"] := by decide +kernel

/-- non-vacuity: a nested split with the three extensions, an ignored file, shuffled order -/
def exampleTree : List (Tree Nat) :=
  [.file "z.gql" (some [5]), .file "README.md" none,
   .dir "sub" [.file "b.graphqls" (some [3, 4]), .dir "deep" [.file "a.graphql" (some [1, 2])], .file ".gql" none],
   .file "a.graphql.bak" none]

example : IsSplit exampleTree [1, 2, 3, 4, 5] := by
  refine ⟨?_, ?_⟩
  · intro e he
    have : (walk exampleTree).all (fun e => match e.item with | .file (some _) => true | _ => false) = true := by
      decide +kernel
    have h := List.all_eq_true.mp this e he
    unfold Readable
    rcases hi : e.item with _ | c
    · simp [hi] at h
    · cases c with
      | none => simp [hi] at h
      | some ds => exact ⟨ds, rfl⟩
  · have : graphqlDefs exampleTree = [5, 3, 4, 1, 2] := by decide +kernel
    rw [this]; decide

example : load (.dir exampleTree) = .ok [3, 4, 1, 2, 5] := by decide +kernel
example : suffix "a.graphql" = ".graphql" ∧ suffix ".gql" = "" ∧ suffix "a." = "" ∧ suffix "x.tar.gql" = ".gql" := by
  decide +kernel

/-- a file at any depth, below directories of any names (dot-directories included), with any name that carries a
    graphql suffix (dot-files included) is walked: `glob("**/*")` has no notion of "hidden" -/
def nest {δ : Type} : List String → Tree δ → Tree δ
  | [], t => t
  | d :: ds, t => .dir d [nest ds t]

theorem nested_entries {δ : Type} (n : String) (c : Option (List δ)) : ∀ (dirs pre : List String),
    (⟨pre ++ dirs ++ [n], n, .file c⟩ : Entry δ) ∈ (nest dirs (.file n c)).entries pre
  | [], pre => by simp [nest, Tree.entries]
  | d :: ds, pre => by
    have ih := nested_entries n c ds (pre ++ [d])
    simp only [nest, Tree.entries, entriesList, List.append_nil, List.mem_cons]
    right
    simpa [List.append_assoc] using ih

theorem nested_file_walked {δ : Type} (dirs : List String) (n : String) (c : Option (List δ)) (kids : List (Tree δ))
    (hn : isGraphqlName n = true) (hk : nest dirs (.file n c) ∈ kids) :
    ∃ e ∈ walk kids, e.name = n ∧ e.item = .file c := by
  have hmem : ∀ (ks : List (Tree δ)) (pre : List String) (t : Tree δ) (e : Entry δ), t ∈ ks → e ∈ t.entries pre → e ∈ entriesList pre ks := by
    intro ks
    induction ks with
    | nil => intro pre t e h; cases h
    | cons k ks ih =>
      intro pre t e ht he
      simp only [entriesList, List.mem_append]
      rcases List.mem_cons.mp ht with rfl | ht'
      · exact Or.inl he
      · exact Or.inr (ih pre t e ht' he)
  refine ⟨⟨[] ++ dirs ++ [n], n, .file c⟩, ?_, rfl, rfl⟩
  simp only [walk, List.mem_filter]
  exact ⟨hmem kids [] _ _ hk (nested_entries n c dirs []), hn⟩

example : isGraphqlName ".legacy.graphqls" = true ∧ isGraphqlName "audit.graphql" = true := by decide +kernel
/-- a dot-file in a dot-directory two levels down is part of the schema -/
example : load (.dir [.file "a.gql" (some [1]), .dir "types" [.dir ".internal" [.file ".audit.graphql" (some [2, 3])]]])
    = .ok [1, 2, 3] := by decide +kernel

/-! ## 1b. The text that is parsed: `sep.join(texts)` at token level

`load_graphql_files_from_path` does not concatenate definitions, it concatenates TEXTS (`"\n".join(schema_list)`) and
`get_graphql_schema_from_path` parses the result.  Section 1 rests on the assumption that the joined text has the
definitions of the parts.  Its lexical half is proved here over the model of graphql-core's lexer
(Spec/GqlLexer.lean, tied to the real `Lexer` text by text): whatever the texts are, if each lexes on its own then the
joined text lexes to the concatenation of their token streams - and that is a property of the SEPARATOR (it must end a
pending name / number / comment), which is measured on the real function on every run (`schemaJoinSeparator`).
What remains assumed is stated at token level (`DefinitionWise`) and validated on every generated tree. -/

open Ariadne.Spec.GqlLexer in
/-- the separator the source uses now brings the lexer back to a token boundary from every state a text may end in -/
theorem join_separator_resets : Resets SchemaTextTables.schemaJoinSeparator.toList :=
  resets_of_sepOk _ (by decide +kernel)

open Ariadne.Spec.GqlLexer in
/-- **joined_text_tokens**: for ANY list of texts that lex on their own (any number of files, any content: names or
    numbers up to the last character, trailing comments without a newline, strings, block strings), the text handed to
    `parse` for the directory lexes, and its token stream is the token streams of the files, in order. -/
theorem joined_text_tokens (texts : List (List Char)) (h : ∀ t ∈ texts, ∃ ks, lexChars t = .ok ks) :
    lexChars (joinWith SchemaTextTables.schemaJoinSeparator.toList texts) = .ok (texts.map tokensOf).flatten :=
  lexChars_joinWith _ join_separator_resets texts h

open Ariadne.Spec.GqlLexer in
/-- ... for two files, spelled out -/
theorem joined_pair_tokens (a b : List Char) (ta tb : List Tok) (ha : lexChars a = .ok ta) (hb : lexChars b = .ok tb) :
    lexChars (a ++ SchemaTextTables.schemaJoinSeparator.toList ++ b) = .ok (ta ++ tb) :=
  lexChars_join _ join_separator_resets a b ta tb ha hb

open Ariadne.Spec.GqlLexer in
/-- What a change of the separator would break (why `join_separator_resets` is an obligation): without a separator the
    last name of one file and the first of the next become ONE name; with a blank, a trailing comment swallows the
    next file's first line.  In both cases every part lexes and the joined text has other tokens. -/
theorem other_separators_change_the_tokens :
    lexChars ("scalar A".toList ++ [] ++ "scalar B".toList)
        = .ok [⟨.name, "scalar".toList⟩, ⟨.name, "Ascalar".toList⟩, ⟨.name, "B".toList⟩] ∧
    lexChars ("scalar A # old".toList ++ [' '] ++ "scalar B".toList) = .ok [⟨.name, "scalar".toList⟩, ⟨.name, "A".toList⟩] ∧
    lexChars ("scalar A # old".toList ++ ['\n'] ++ "scalar B".toList)
        = .ok [⟨.name, "scalar".toList⟩, ⟨.name, "A".toList⟩, ⟨.name, "scalar".toList⟩, ⟨.name, "B".toList⟩] := by
  refine ⟨?_, ?_, ?_⟩ <;> decide +kernel

open Ariadne.Spec.GqlLexer in
/-- The part of the old assumption that stays an assumption, now at token level and explicit: graphql-core's parser,
    which sees only the token stream, parses a stream made of two complete documents definition by definition.
    (True for type-system documents, which is what a schema directory holds and what the generators produce; NOT true
    of the full grammar: `type A` and the query shorthand `{ x: Int }` both parse, and together they are one definition.
    harness/c19.py records that witness on every run and checks the assumption on every generated tree.) -/
def DefinitionWise {δ : Type} (parseToks : List Tok → Option (List δ)) : Prop :=
  ∀ ta tb da db, parseToks ta = some da → parseToks tb = some db → parseToks (ta ++ tb) = some (da ++ db)

open Ariadne.Spec.GqlLexer in
/-- `parse(text).definitions`, for a parser given as a function of the token stream -/
def parseText {δ : Type} (parseToks : List Tok → Option (List δ)) (t : List Char) : Option (List δ) :=
  match lexChars t with
  | .ok ks => parseToks ks
  | .error _ => none

open Ariadne.Spec.GqlLexer in
theorem parse_flatten {δ : Type} (parseToks : List Tok → Option (List δ)) (hp : DefinitionWise parseToks)
    (defs : List Char → List δ) : ∀ texts : List (List Char), texts ≠ [] →
    (∀ t ∈ texts, parseToks (tokensOf t) = some (defs t)) →
    parseToks (texts.map tokensOf).flatten = some (texts.map defs).flatten
  | [], hne, _ => absurd rfl hne
  | [x], _, h => by simpa using h x (by simp)
  | x :: y :: rest, _, h => by
    have ih := parse_flatten parseToks hp defs (y :: rest) (by simp) (fun t ht => h t (by simp [ht]))
    have hx := h x (by simp)
    simpa using hp _ _ _ _ hx ih

open Ariadne.Spec.GqlLexer in
/-- **joined_text_definitions**: under `DefinitionWise`, the document parsed for a directory has the definitions of
    its files, in the order of the files - this is the abstraction `loadDir` uses (`parts.flatten`), derived from the
    text level instead of assumed there. -/
theorem joined_text_definitions {δ : Type} (parseToks : List Tok → Option (List δ)) (hp : DefinitionWise parseToks)
    (defs : List Char → List δ) (texts : List (List Char)) (hne : texts ≠ [])
    (h : ∀ t ∈ texts, parseText parseToks t = some (defs t)) :
    parseText parseToks (joinWith SchemaTextTables.schemaJoinSeparator.toList texts) = some (texts.map defs).flatten := by
  have hlex : ∀ t ∈ texts, ∃ ks, lexChars t = .ok ks := by
    intro t ht
    have := h t ht
    unfold parseText at this
    rcases hl : lexChars t with e | ks
    · simp [hl] at this
    · exact ⟨ks, rfl⟩
  have htok : ∀ t ∈ texts, parseToks (tokensOf t) = some (defs t) := by
    intro t ht
    have := h t ht
    unfold parseText at this
    rcases hl : lexChars t with e | ks
    · simp [hl] at this
    · simpa [tokensOf, hl] using this
  unfold parseText
  rw [joined_text_tokens texts hlex]
  exact parse_flatten parseToks hp defs texts hne htok

/-! non-vacuity of `DefinitionWise`: a parser of documents made of `scalar <Name>` definitions -/

open Ariadne.Spec.GqlLexer in
def parseScalars : List Tok → Option (List (List Char))
  | [] => some []
  | [_] => none
  | k :: n :: rest =>
    if k = ⟨.name, "scalar".toList⟩ ∧ n.kind = .name then
      match parseScalars rest with
      | some ds => some (n.text :: ds)
      | none => none
    else none

open Ariadne.Spec.GqlLexer in
theorem parseScalars_definitionWise : DefinitionWise parseScalars := by
  intro ta
  induction ta using parseScalars.induct with
  | case1 =>
    intro tb da db ha hb
    simp [parseScalars] at ha
    subst ha
    simpa using hb
  | case2 t =>
    intro tb da db ha hb
    simp [parseScalars] at ha
  | case3 k n rest hc ds hrest ih =>
    intro tb da db ha hb
    simp only [parseScalars, hc, and_self, if_true, hrest] at ha
    cases ha
    have := ih tb ds db hrest hb
    simp [parseScalars, hc, this]
  | case4 k n rest hc hrest ih =>
    intro tb da db ha hb
    simp [parseScalars, hc, hrest] at ha
  | case5 k n rest hc =>
    intro tb da db ha hb
    unfold parseScalars at ha
    rw [if_neg hc] at ha
    cases ha

/-- three files (the second ends in a comment without a newline, the third in a name): one document, three definitions -/
example : parseText parseScalars (Ariadne.Spec.GqlLexer.joinWith SchemaTextTables.schemaJoinSeparator.toList
      ["scalar A".toList, "scalar B # trailing".toList, "scalar C".toList])
    = some ["A".toList, "B".toList, "C".toList] := by decide +kernel
/-- ... and without the separator the same files do not even give the same tokens -/
example : parseText parseScalars (Ariadne.Spec.GqlLexer.joinWith [] ["scalar A".toList, "scalar B".toList]) = none := by
  decide +kernel

/-! ## 1c. Extension nodes -/

/-- A node of the parsed document as `build_ast_schema` uses it: the definition of a named type, or an `extend` node
    of it, with the members it contributes (fields, enum values, input fields; `μ` abstract). -/
inductive DefNode (μ : Type) where
  | base (name : String) (members : List μ)
  | ext (name : String) (members : List μ)
  deriving Repr, DecidableEq

def DefNode.name {μ : Type} : DefNode μ → String
  | .base n _ => n
  | .ext n _ => n

def DefNode.members {μ : Type} : DefNode μ → List μ
  | .base _ ms => ms
  | .ext _ ms => ms

/-- the members type `n` has in the built schema: those of its definition and of EVERY extension node of that name,
    wherever in the document they stand (graphql-core `extend_schema_impl`: `type_extensions_map[name]`) -/
def membersOf {μ : Type} (ds : List (DefNode μ)) (n : String) : List μ :=
  (ds.filter (fun d => d.name == n)).flatMap DefNode.members

theorem membersOf_perm {μ : Type} {d₁ d₂ : List (DefNode μ)} (h : d₁.Perm d₂) (n : String) :
    (membersOf d₁ n).Perm (membersOf d₂ n) :=
  (h.filter _).flatMap_right _

/-- **split_invariant_extensions**: definitions AND `extend` nodes may be distributed over the files and
    sub-directories in any way (an extension in another file than, or before, the type it extends): the directory
    loads, and every type has the same members as from the single file. -/
theorem split_invariant_extensions {μ : Type} (ds : List (DefNode μ)) (kids : List (Tree (DefNode μ)))
    (hs : IsSplit kids ds) :
    ∃ ds', load (.dir kids) = .ok ds' ∧ ∀ n, (membersOf ds' n).Perm (membersOf ds n) := by
  obtain ⟨_, ds', hl, hp⟩ := split_invariant (DefNode μ) ds kids hs
  exact ⟨ds', hl, fun n => membersOf_perm hp n⟩

/-- what the document must NOT be reduced to: keeping the first node per name (a "de-duplication" of definitions)
    discards every extension node -/
def keepFirstByName {μ : Type} : List (DefNode μ) → List String → List (DefNode μ)
  | [], _ => []
  | d :: ds, seen => if seen.contains d.name then keepFirstByName ds seen else d :: keepFirstByName ds (d.name :: seen)

theorem keeping_first_by_name_loses_extension_members :
    membersOf [DefNode.base "T" [1], .ext "T" [2]] "T" = [1, 2] ∧
    membersOf (keepFirstByName [DefNode.base "T" [1], .ext "T" [2]] []) "T" = [1] := by
  constructor <;> decide +kernel

/-- non-vacuity: the extension in a dot-directory, sorted before the file that defines the type -/
example : IsSplit [.dir ".ext" [.file "a.graphql" (some [DefNode.ext "T" [2]])], .file "t.gql" (some [DefNode.base "T" [1], .base "E" [7]])]
    [DefNode.base "T" [1], .ext "T" [2], .base "E" [7]] := by
  refine ⟨?_, ?_⟩
  · intro e he
    have hall : (walk [.dir ".ext" [.file "a.graphql" (some [DefNode.ext "T" [2]])], .file "t.gql" (some [DefNode.base "T" [1], .base "E" [7]])]).all
        (fun e => match e.item with | .file (some _) => true | _ => false) = true := by decide +kernel
    have h := List.all_eq_true.mp hall e he
    unfold Readable
    rcases hi : e.item with _ | c
    · simp [hi] at h
    · cases c with
      | none => simp [hi] at h
      | some ds => exact ⟨ds, rfl⟩
  · decide +kernel

/-! ## 2. Introspection failures -/

def isErr {ε α : Type} : Except ε α → Bool
  | .error _ => true
  | .ok _ => false

/-- The classes of failing introspection the property lists: `httpx.post` raised an `httpx.InvalidURL`
    (bad URL), an `httpx.TransportError` (unsupported scheme, unreachable endpoint, timeout, protocol
    error ...) or any other `httpx.RequestError` (DecodingError: the body cannot be decoded); non-2xx,
    non-JSON, not an object, no `data`, a non-empty `errors` list, `data` not an object, a `data`
    object the schema builder rejects.  Exceptions outside the three httpx families are not claimed
    (see the header). -/
def Failure {σ : Type} (build : List (String × J) → Except String σ) : PostResult → Prop
  | .raised e => listedFailureExc e = true
  | .response status body =>
    ¬ (200 ≤ status ∧ status ≤ 299) ∨
      match body with
      | none => True
      | some (.obj kvs) =>
        (match J.lookup "data" kvs with
          | none => True
          | some (.obj d) => isErr (build d) = true
          | some _ => True) ∨
        (∃ e es, J.lookup "errors" kvs = some (.arr (e :: es)))
      | some _ => True

def IsIntrospectionError {σ : Type} (o : UrlOutcome σ) : Prop := ∃ k, o = .introspectionError k

/-- Full strength, failure part. -/
def C19_failures_full : Prop :=
  ∀ (σ : Type) (build : List (String × J) → Except String σ) (p : PostResult),
    Failure build p → IsIntrospectionError (schemaFromUrl build p)

/-! F6's trigger `trigRequestExcUntyped` lives in Model/IntrospectChain.lean (the driver evaluates it). -/

/-- F3: the checks of `introspect_remote_schema` pass and the builder rejects the `data` object. -/
def trigDataRejected {σ : Type} (build : List (String × J) → Except String σ) (p : PostResult) : Bool :=
  match introspect p with
  | .data d => isErr (build d)
  | _ => false

theorem isSuccess_iff (s : Nat) : isSuccess s = true ↔ (200 ≤ s ∧ s ≤ 299) := by
  simp [isSuccess]

/-- What `get_graphql_schema_from_url` does with an exception of `httpx.post`, for every exception. -/
theorem raised_outcome {σ : Type} (build : List (String × J) → Except String σ) (e : Exc) :
    schemaFromUrl build (.raised e) =
      if e.isa clsInvalidURL = true then .introspectionError .invalidUrl
      else if e.isa clsTransportError = true then .introspectionError (.transport e.msg)
      else .escaped e := by
  unfold schemaFromUrl introspect
  by_cases h1 : e.isa clsInvalidURL = true
  · simp [h1]
  · by_cases h2 : e.isa clsTransportError = true <;> simp [h1, h2]

/-- **transport_failures_typed** (the repaired finding F2, for all exceptions): whatever
    `httpx.TransportError` - any class with `httpx.TransportError` in its MRO, any message - `httpx.post`
    raises, the caller sees an `IntrospectionError`. -/
theorem transport_failures_typed {σ : Type} (build : List (String × J) → Except String σ) (e : Exc)
    (h : e.isa clsTransportError = true) : IsIntrospectionError (schemaFromUrl build (.raised e)) := by
  rw [raised_outcome]
  by_cases h1 : e.isa clsInvalidURL = true
  · exact ⟨.invalidUrl, by simp [h1]⟩
  · exact ⟨.transport e.msg, by simp [h1, h]⟩

/-- ... and its message carries `str(exc)` unchanged (unless the `InvalidURL` clause, which comes first, took it). -/
theorem transport_message_kept {σ : Type} (build : List (String × J) → Except String σ) (e : Exc)
    (h0 : e.isa clsInvalidURL = false) (h : e.isa clsTransportError = true) :
    schemaFromUrl build (.raised e) = .introspectionError (.transport e.msg) := by
  rw [raised_outcome]; simp [h0, h]

/-- Exactly which exceptions of `httpx.post` come out typed. -/
theorem raised_typed_iff {σ : Type} (build : List (String × J) → Except String σ) (e : Exc) :
    IsIntrospectionError (schemaFromUrl build (.raised e)) ↔
      (e.isa clsInvalidURL = true ∨ e.isa clsTransportError = true) := by
  rw [raised_outcome]
  by_cases h1 : e.isa clsInvalidURL = true
  · simp [h1, IsIntrospectionError]
  · by_cases h2 : e.isa clsTransportError = true
    · simp [h1, h2, IsIntrospectionError]
    · simp [h1, h2, IsIntrospectionError]

/-- What the property does not claim and the code does not do: an exception that is neither an
    `InvalidURL` nor a `TransportError` leaves `get_graphql_schema_from_url` as it is (for
    `RequestError`s that is finding F6; for anything else - a foreign exception of a custom transport,
    `UnicodeEncodeError` for a header value - it is outside the property). -/
theorem foreign_exception_escapes {σ : Type} (build : List (String × J) → Except String σ) (e : Exc)
    (h0 : e.isa clsInvalidURL = false) (h1 : e.isa clsTransportError = false) :
    schemaFromUrl build (.raised e) = .escaped e := by
  rw [raised_outcome]; simp [h0, h1]

/-- Whatever `httpx.post` raises - listed failure or not, typed or escaping - no schema comes back. -/
theorem raised_never_yields_schema {σ : Type} (build : List (String × J) → Except String σ) (e : Exc) (s : σ) :
    schemaFromUrl build (.raised e) ≠ .schema s := by
  rw [raised_outcome]
  by_cases h1 : e.isa clsInvalidURL = true
  · simp [h1]
  · by_cases h2 : e.isa clsTransportError = true <;> simp [h1, h2]

/-- **introspection_failures_typed** - outside the two trigger regions every listed failure is an
    `IntrospectionError`. -/
theorem introspection_failures_typed {σ : Type} (build : List (String × J) → Except String σ) (p : PostResult)
    (hf : Failure build p) (h6 : trigRequestExcUntyped p = false) (h3 : trigDataRejected build p = false) :
    IsIntrospectionError (schemaFromUrl build p) := by
  cases p with
  | raised e =>
    apply (raised_typed_iff build e).mpr
    by_cases h1 : e.isa clsInvalidURL = true
    · exact Or.inl h1
    · by_cases h2 : e.isa clsTransportError = true
      · exact Or.inr h2
      · exfalso
        have hr : e.isa clsRequestError = true := by
          simpa [Failure, listedFailureExc, h1, h2] using hf
        simp [trigRequestExcUntyped, h1, h2, hr] at h6
  | response status body =>
    unfold IsIntrospectionError schemaFromUrl
    unfold trigDataRejected at h3
    unfold Failure at hf
    by_cases hs : (200 ≤ status ∧ status ≤ 299)
    · have hsucc : isSuccess status = true := (isSuccess_iff status).mpr hs
      rcases hf with hf | hf
      · exact absurd hs hf
      · rcases body with _ | b
        · exact ⟨.notJson, by simp [introspect, hsucc]⟩
        · cases b with
          | obj kvs =>
            rcases hd : J.lookup "data" kvs with _ | data
            · exact ⟨.badFormat, by simp [introspect, hsucc, hd]⟩
            · by_cases ht : (J.getD "errors" kvs).truthy = true
              · exact ⟨.errors (J.getD "errors" kvs), by simp [introspect, hsucc, hd, ht]⟩
              · have ht' : (J.getD "errors" kvs).truthy = false := by simpa using ht
                simp only [hd] at hf
                rcases hf with hf | ⟨e, es, he⟩
                · cases data with
                  | obj d =>
                    simp only [introspect, hsucc, hd, ht'] at h3
                    simp at hf h3
                    rw [hf] at h3; cases h3
                  | null => exact ⟨.badData, by simp [introspect, hsucc, hd, ht']⟩
                  | bool _ => exact ⟨.badData, by simp [introspect, hsucc, hd, ht']⟩
                  | num _ _ => exact ⟨.badData, by simp [introspect, hsucc, hd, ht']⟩
                  | str _ => exact ⟨.badData, by simp [introspect, hsucc, hd, ht']⟩
                  | arr _ => exact ⟨.badData, by simp [introspect, hsucc, hd, ht']⟩
                · simp [J.getD, he, J.truthy] at ht'
          | null => exact ⟨.badFormat, by simp [introspect, hsucc]⟩
          | bool _ => exact ⟨.badFormat, by simp [introspect, hsucc]⟩
          | num _ _ => exact ⟨.badFormat, by simp [introspect, hsucc]⟩
          | str _ => exact ⟨.badFormat, by simp [introspect, hsucc]⟩
          | arr _ => exact ⟨.badFormat, by simp [introspect, hsucc]⟩
    · have hsucc : isSuccess status = false := by
        cases h : isSuccess status
        · rfl
        · exact absurd ((isSuccess_iff status).mp h) hs
      exact ⟨.httpStatus status, by simp [introspect, hsucc]⟩

/-- `C19_partial`, failure part: theorem region ∪ trigger regions = all listed failures, by definition. -/
theorem C19_failures_partial : ∀ (σ : Type) (build : List (String × J) → Except String σ) (p : PostResult),
    Failure build p → ¬ (trigRequestExcUntyped p = true ∨ trigDataRejected build p = true) →
    IsIntrospectionError (schemaFromUrl build p) := by
  intro σ build p hf hn
  have h6 : trigRequestExcUntyped p = false := by
    cases h : trigRequestExcUntyped p
    · rfl
    · exact absurd (Or.inl h) hn
  have h3 : trigDataRejected build p = false := by
    cases h : trigDataRejected build p
    · rfl
    · exact absurd (Or.inr h) hn
  exact introspection_failures_typed build p hf h6 h3

/-! ### witnesses: the repaired F2 (regression theorems), the open F3 and F6 -/

/-- the MRO of an exception class of httpx, as `[c.__module__ + "." + c.__qualname__ for c in type(e).__mro__]` -/
def httpxMro (chain : List String) : List String :=
  chain.map ("httpx." ++ ·) ++ ["builtins.Exception", "builtins.BaseException", "builtins.object"]

/-- what the real transport raises for `example.com/graphql` (URL without scheme) -/
def excUnsupportedProtocol : Exc :=
  ⟨httpxMro ["UnsupportedProtocol", "TransportError", "RequestError", "HTTPError"],
   "Request URL is missing an 'http://' or 'https://' protocol."⟩
/-- ... and for `http://127.0.0.1:1/graphql` (nothing listens) -/
def excConnectError : Exc :=
  ⟨httpxMro ["ConnectError", "NetworkError", "TransportError", "RequestError", "HTTPError"], "[Errno 111] Connection refused"⟩
/-- a 200 answer with `Content-Encoding: gzip` and a body that is not gzip -/
def excDecodingError : Exc :=
  ⟨httpxMro ["DecodingError", "RequestError", "HTTPError"], "Error -3 while decompressing data: incorrect header check"⟩

/-- the two recorded witnesses of the repaired finding F2, the F3 witness (`{"data": {}}`), the F6 witness -/
def witnessF2 : PostResult := .raised excUnsupportedProtocol
def witnessF2b : PostResult := .raised excConnectError
def witnessF3 : PostResult := .response 200 (some (.obj [("data", .obj [])]))
def witnessF6 : PostResult := .raised excDecodingError

theorem excUnsupportedProtocol_isa : excUnsupportedProtocol.isa clsInvalidURL = false ∧
    excUnsupportedProtocol.isa clsTransportError = true := by decide +kernel
theorem excConnectError_isa : excConnectError.isa clsInvalidURL = false ∧
    excConnectError.isa clsTransportError = true := by decide +kernel
theorem excDecodingError_isa : excDecodingError.isa clsInvalidURL = false ∧
    excDecodingError.isa clsTransportError = false ∧ excDecodingError.isa clsRequestError = true := by decide +kernel

/-- **Regression theorem for the repaired finding C19-F2**: its recorded witnesses are failures in the
    sense of the property, lie outside every remaining trigger, and now come out as the
    `IntrospectionError` that carries the message of the transport. -/
theorem C19_F2_witness_now_ok {σ : Type} (build : List (String × J) → Except String σ) :
    (Failure build witnessF2 ∧ trigRequestExcUntyped witnessF2 = false ∧ trigDataRejected build witnessF2 = false ∧
      schemaFromUrl build witnessF2 = .introspectionError (.transport excUnsupportedProtocol.msg)) ∧
    (Failure build witnessF2b ∧ trigRequestExcUntyped witnessF2b = false ∧ trigDataRejected build witnessF2b = false ∧
      schemaFromUrl build witnessF2b = .introspectionError (.transport excConnectError.msg)) := by
  have a := excUnsupportedProtocol_isa
  have b := excConnectError_isa
  refine ⟨⟨by simp [Failure, witnessF2, listedFailureExc, a.2], ?_, ?_, transport_message_kept build _ a.1 a.2⟩,
          ⟨by simp [Failure, witnessF2b, listedFailureExc, b.2], ?_, ?_, transport_message_kept build _ b.1 b.2⟩⟩
  · simp [trigRequestExcUntyped, witnessF2, a.1, a.2]
  · simp [trigDataRejected, witnessF2, introspect, a.1, a.2]
  · simp [trigRequestExcUntyped, witnessF2b, b.1, b.2]
  · simp [trigDataRejected, witnessF2b, introspect, b.1, b.2]

/-- Why a return of F2 must be caught: on the decision chain as it was before 23ffd85 the same
    witnesses are failures that escape as the bare httpx exception - the property is violated there. -/
theorem F2_witness_escaped_before_repair :
    introspectBefore23ffd85 witnessF2 = .escaped excUnsupportedProtocol ∧
    introspectBefore23ffd85 witnessF2b = .escaped excConnectError ∧
    (∀ k, introspectBefore23ffd85 witnessF2 ≠ .introspectionError k) := by
  have a := excUnsupportedProtocol_isa
  have b := excConnectError_isa
  refine ⟨by simp [introspectBefore23ffd85, witnessF2, a.1], by simp [introspectBefore23ffd85, witnessF2b, b.1], ?_⟩
  intro k h
  simp [introspectBefore23ffd85, witnessF2, a.1] at h

/-- the old and the new chain differ only where an exception is a `TransportError` and not an `InvalidURL` -/
theorem repair_changes_only_transport_errors (p : PostResult) :
    introspectBefore23ffd85 p = introspect p ∨
      ∃ e, p = .raised e ∧ e.isa clsInvalidURL = false ∧ e.isa clsTransportError = true := by
  cases p with
  | response s b => exact Or.inl rfl
  | raised e =>
    by_cases h1 : e.isa clsInvalidURL = true
    · exact Or.inl (by simp [introspectBefore23ffd85, introspect, h1])
    · by_cases h2 : e.isa clsTransportError = true
      · exact Or.inr ⟨e, rfl, by simpa using h1, h2⟩
      · exact Or.inl (by simp [introspectBefore23ffd85, introspect, h1, h2])

/-- F3 on its own witness: a 200 response whose `data` is `{}` ends in a bare `TypeError`. -/
theorem malformed_data_escapes_untyped :
    Failure Spec.BuildClientSchema.build witnessF3 ∧
      schemaFromUrl Spec.BuildClientSchema.build witnessF3 = .other "TypeError" := by
  refine ⟨?_, ?_⟩
  · unfold Failure witnessF3
    right; left
    simp [J.lookup, isErr, Spec.BuildClientSchema.build, Spec.BuildClientSchema.top]
  · rfl

/-- F6 on its witness: an undecodable body is a listed failure and escapes as `httpx.DecodingError`. -/
theorem undecodable_body_escapes_untyped {σ : Type} (build : List (String × J) → Except String σ) :
    Failure build witnessF6 ∧ trigRequestExcUntyped witnessF6 = true ∧
      schemaFromUrl build witnessF6 = .escaped excDecodingError := by
  have a := excDecodingError_isa
  refine ⟨by simp [Failure, witnessF6, listedFailureExc, a.2.2], ?_, foreign_exception_escapes build _ a.1 a.2.1⟩
  simp [trigRequestExcUntyped, witnessF6, a.1, a.2.1, a.2.2]

/-- The failure part is false at full strength (witness of F3; F6's would do as well). -/
theorem C19_failures_full_false : ¬ C19_failures_full := by
  intro h
  obtain ⟨hf, ho⟩ := malformed_data_escapes_untyped
  obtain ⟨k, hk⟩ := h Unit Spec.BuildClientSchema.build witnessF3 hf
  rw [ho] at hk
  cases hk

example : trigDataRejected Spec.BuildClientSchema.build witnessF3 = true := by decide +kernel
/-- non-vacuity of the partial theorem: a 503, and (the grown region) a scheme-less URL, are failures outside both triggers -/
example : Failure Spec.BuildClientSchema.build (.response 503 none) ∧
    trigRequestExcUntyped (.response 503 none) = false ∧
    trigDataRejected Spec.BuildClientSchema.build (.response 503 none) = false := by
  refine ⟨Or.inl (by omega), rfl, rfl⟩
example : Failure Spec.BuildClientSchema.build witnessF2 ∧ trigRequestExcUntyped witnessF2 = false ∧
    trigDataRejected Spec.BuildClientSchema.build witnessF2 = false :=
  let h := (C19_F2_witness_now_ok Spec.BuildClientSchema.build).1
  ⟨h.1, h.2.1, h.2.2.1⟩
/-- a user-defined subclass of `httpx.ConnectTimeout` is covered too -/
example : IsIntrospectionError (schemaFromUrl Spec.BuildClientSchema.build
    (.raised ⟨"myapp.Slow" :: httpxMro ["ConnectTimeout", "TimeoutException", "TransportError", "RequestError", "HTTPError"], ""⟩)) :=
  transport_failures_typed _ _ (by decide +kernel)

/-- True at full strength: no failing introspection ever yields a schema (nothing is generated from
    a failed introspection, typed or not). -/
theorem failure_never_yields_schema {σ : Type} (build : List (String × J) → Except String σ) (p : PostResult)
    (hf : Failure build p) (s : σ) : schemaFromUrl build p ≠ .schema s := by
  intro hcontra
  unfold schemaFromUrl at hcontra
  cases p with
  | raised e =>
    by_cases h1 : e.isa clsInvalidURL = true
    · simp [introspect, h1] at hcontra
    · by_cases h2 : e.isa clsTransportError = true <;> simp [introspect, h1, h2] at hcontra
  | response status body =>
    unfold Failure at hf
    by_cases hs : (200 ≤ status ∧ status ≤ 299)
    · have hsucc : isSuccess status = true := (isSuccess_iff status).mpr hs
      rcases hf with hf | hf
      · exact hf hs
      · rcases body with _ | b
        · simp [introspect, hsucc] at hcontra
        · cases b with
          | obj kvs =>
            rcases hd : J.lookup "data" kvs with _ | data
            · simp [introspect, hsucc, hd] at hcontra
            · by_cases ht : (J.getD "errors" kvs).truthy = true
              · simp [introspect, hsucc, hd, ht] at hcontra
              · have ht' : (J.getD "errors" kvs).truthy = false := by simpa using ht
                simp only [hd] at hf
                rcases hf with hf | ⟨e, es, he⟩
                · cases data with
                  | obj d =>
                    simp only [introspect, hsucc, hd, ht'] at hcontra
                    simp at hf hcontra
                    rcases hb : build d with x | v
                    · simp [hb] at hcontra
                    · simp [hb, isErr] at hf
                  | null => simp [introspect, hsucc, hd, ht'] at hcontra
                  | bool _ => simp [introspect, hsucc, hd, ht'] at hcontra
                  | num _ _ => simp [introspect, hsucc, hd, ht'] at hcontra
                  | str _ => simp [introspect, hsucc, hd, ht'] at hcontra
                  | arr _ => simp [introspect, hsucc, hd, ht'] at hcontra
                · simp [J.getD, he, J.truthy] at ht'
          | null => simp [introspect, hsucc] at hcontra
          | bool _ => simp [introspect, hsucc] at hcontra
          | num _ _ => simp [introspect, hsucc] at hcontra
          | str _ => simp [introspect, hsucc] at hcontra
          | arr _ => simp [introspect, hsucc] at hcontra
    · have hsucc : isSuccess status = false := by
        cases h : isSuccess status
        · rfl
        · exact absurd ((isSuccess_iff status).mp h) hs
      simp [introspect, hsucc] at hcontra

/-- Exactly when `introspect_remote_schema` returns: 2xx, a JSON object with an object `data`
    and a falsy `errors`. -/
theorem introspect_data_iff (p : PostResult) (d : List (String × J)) :
    introspect p = .data d ↔
      ∃ status kvs, p = .response status (some (.obj kvs)) ∧ (200 ≤ status ∧ status ≤ 299) ∧
        J.lookup "data" kvs = some (.obj d) ∧ (J.getD "errors" kvs).truthy = false := by
  constructor
  · intro h
    cases p with
    | raised e =>
      by_cases h1 : e.isa clsInvalidURL = true
      · simp [introspect, h1] at h
      · by_cases h2 : e.isa clsTransportError = true <;> simp [introspect, h1, h2] at h
    | response status body =>
      by_cases hs : isSuccess status = true
      · rcases body with _ | b
        · simp [introspect, hs] at h
        · cases b with
          | obj kvs =>
            rcases hd : J.lookup "data" kvs with _ | data
            · simp [introspect, hs, hd] at h
            · by_cases ht : (J.getD "errors" kvs).truthy = true
              · simp [introspect, hs, hd, ht] at h
              · have ht' : (J.getD "errors" kvs).truthy = false := by simpa using ht
                cases data with
                | obj d' =>
                  simp [introspect, hs, hd, ht'] at h
                  subst h
                  exact ⟨status, kvs, rfl, (isSuccess_iff status).mp hs, hd, ht'⟩
                | null => simp [introspect, hs, hd, ht'] at h
                | bool _ => simp [introspect, hs, hd, ht'] at h
                | num _ _ => simp [introspect, hs, hd, ht'] at h
                | str _ => simp [introspect, hs, hd, ht'] at h
                | arr _ => simp [introspect, hs, hd, ht'] at h
          | null => simp [introspect, hs] at h
          | bool _ => simp [introspect, hs] at h
          | num _ _ => simp [introspect, hs] at h
          | str _ => simp [introspect, hs] at h
          | arr _ => simp [introspect, hs] at h
      · have hs' : isSuccess status = false := by simpa using hs
        simp [introspect, hs'] at h
  · rintro ⟨status, kvs, rfl, hs, hd, ht⟩
    have hsucc : isSuccess status = true := (isSuccess_iff status).mpr hs
    simp [introspect, hsucc, hd, ht]

/-- A 3xx answer is not followed (httpx.post does not follow redirects) and is a typed failure. -/
theorem redirect_is_typed_failure {σ : Type} (build : List (String × J) → Except String σ) (status : Nat) (b : Option J)
    (h : 300 ≤ status ∧ status ≤ 399) :
    schemaFromUrl build (.response status b) = .introspectionError (.httpStatus status) := by
  have : isSuccess status = false := by
    simp only [isSuccess, Bool.and_eq_false_iff, decide_eq_false_iff_not]; omega
  simp [schemaFromUrl, introspect, this]

/-! ## 3. What is sent -/

/-- **headers_resolved_and_sent / verify_flag_sent**: when the remote source is used, the one
    `httpx.post` call carries the configured URL, the headers after `$ENV` substitution (same keys,
    same order), the configured TLS flag and the introspection query built with the pinned flags;
    and the remote source is used only when no `schema_path` is configured. -/
theorem headers_resolved_and_sent (env : String → Option String) (pathExists : Bool) (c : SourceCfg) (call : PostCall)
    (h : chooseSource env pathExists c = .ok (.remote call)) :
    c.schemaPath = "" ∧ call.url = c.remoteUrl ∧ resolveHeaders env c.headers = .ok call.headers ∧
      call.queryFlags = Tables.introspectionQueryFlags := by
  unfold chooseSource at h
  split at h
  · cases h
  · split at h
    · cases h
    · rcases hr : resolveHeaders env c.headers with n | hs
      · simp [hr] at h
      · simp only [hr] at h
        split at h
        · cases h
        · rename_i hp
          have hp' : c.schemaPath = "" := by simpa using hp
          simp only [Except.ok.injEq, Chosen.remote.injEq] at h
          subst h
          exact ⟨hp', rfl, rfl, rfl⟩

theorem verify_flag_sent (env : String → Option String) (pathExists : Bool) (c : SourceCfg) (call : PostCall)
    (h : chooseSource env pathExists c = .ok (.remote call)) : call.verify = c.verifySsl := by
  unfold chooseSource at h
  split at h
  · cases h
  · split at h
    · cases h
    · rcases hr : resolveHeaders env c.headers with n | hs
      · simp [hr] at h
      · simp only [hr] at h
        split at h
        · cases h
        · simp only [Except.ok.injEq, Chosen.remote.injEq] at h
          subst h; rfl

/-- conversely: a configured URL without `schema_path` and resolvable headers does lead to the request -/
theorem remote_chosen (env : String → Option String) (pathExists : Bool) (c : SourceCfg) (hs : List (String × String))
    (hp : c.schemaPath = "") (hu : c.remoteUrl ≠ "") (hr : resolveHeaders env c.headers = .ok hs) :
    chooseSource env pathExists c = .ok (.remote ⟨c.remoteUrl, hs, c.verifySsl, Tables.introspectionQueryFlags⟩) := by
  unfold chooseSource
  simp [hp, hu, hr]

/-- a header whose value does not start with `$` is sent verbatim -/
theorem header_plain (env : String → Option String) (v : String) (h : v.toList.head? ≠ some '$') :
    headerValue env v = .ok v := by
  unfold headerValue
  split
  · rename_i rest heq
    simp [heq] at h
  · rfl

/-- `$NAME` is replaced by the non-empty value of the environment variable `NAME` -/
theorem header_env (env : String → Option String) (name : List Char) (x : String)
    (hn : name.head? ≠ some '$') (hx : env (String.ofList name) = some x) (hne : x ≠ "") :
    headerValue env (String.ofList ('$' :: name)) = .ok x := by
  unfold headerValue
  have hdw : name.dropWhile (· == '$') = name := by
    cases name with
    | nil => rfl
    | cons c cs =>
      have : c ≠ '$' := by simpa using hn
      have hb : (c == '$') = false := by simpa using this
      simp [List.dropWhile, hb]
  simp [hdw, hx, hne]

/-- an unset or empty variable is an `InvalidConfiguration`, and then nothing is sent at all -/
theorem header_env_missing (env : String → Option String) (name : List Char)
    (hn : name.head? ≠ some '$') (hx : env (String.ofList name) = none ∨ env (String.ofList name) = some "") :
    headerValue env (String.ofList ('$' :: name)) = .error (String.ofList name) := by
  unfold headerValue
  have hdw : name.dropWhile (· == '$') = name := by
    cases name with
    | nil => rfl
    | cons c cs =>
      have : c ≠ '$' := by simpa using hn
      have hb : (c == '$') = false := by simpa using this
      simp [List.dropWhile, hb]
  rcases hx with hx | hx <;> simp [hdw, hx]

theorem no_request_when_env_missing (env : String → Option String) (pathExists : Bool) (c : SourceCfg) (n : String)
    (hr : resolveHeaders env c.headers = .error n) : ∀ ch, chooseSource env pathExists c ≠ .ok ch := by
  intro ch h
  unfold chooseSource at h
  split at h
  · cases h
  · split at h
    · cases h
    · simp [hr] at h

/-- header names and their order are kept; every value goes through `get_header_value` -/
theorem resolveHeaders_pointwise (env : String → Option String) : ∀ (hs r : List (String × String)),
    resolveHeaders env hs = .ok r →
      r.map Prod.fst = hs.map Prod.fst ∧ ∀ i (hi : i < hs.length), ∃ x, r[i]? = some (hs[i].1, x) ∧ headerValue env hs[i].2 = .ok x
  | [], r, h => by simp [resolveHeaders] at h; subst h; simp
  | (k, v) :: rest, r, h => by
    unfold resolveHeaders at h
    rcases hv : headerValue env v with n | x
    · simp [hv] at h
    · rcases hr : resolveHeaders env rest with n | r'
      · simp [hv, hr] at h
      · simp [hv, hr] at h
        subst h
        have ⟨ih₁, ih₂⟩ := resolveHeaders_pointwise env rest r' hr
        refine ⟨by simp [ih₁], ?_⟩
        intro i hi
        cases i with
        | zero => exact ⟨x, by simp, by simpa using hv⟩
        | succ j =>
          have hj : j < rest.length := by simpa using hi
          obtain ⟨y, hy₁, hy₂⟩ := ih₂ j hj
          exact ⟨y, by simpa using hy₁, by simpa using hy₂⟩

/-! ### where the substitution happens: once, in the settings stage; nothing below `main` touches the headers -/

/-- The four calls in sequence (`__post_init__`, the branch in `main.client` / `main.graphql_schema`,
    `get_graphql_schema_from_url`, `introspect_remote_schema`) compute the end-to-end decision. -/
theorem staged_eq_chooseSource (env : String → Option String) (pathExists : Bool) (c : SourceCfg) :
    chooseSourceStaged env pathExists c = chooseSource env pathExists c := by
  unfold chooseSourceStaged postInit chooseSource mainSource urlCall introspectCall
  by_cases h1 : c.schemaPath = "" ∧ c.remoteUrl = ""
  · rw [if_pos h1, if_pos h1]
  · rw [if_neg h1, if_neg h1]
    by_cases h2 : c.schemaPath ≠ "" ∧ (!pathExists) = true
    · rw [if_pos h2, if_pos h2]
    · rw [if_neg h2, if_neg h2]
      rcases hr : resolveHeaders env c.headers with n | hs
      · rfl
      · by_cases hp : c.schemaPath = ""
        · have hu : c.remoteUrl ≠ "" := fun hu => h1 ⟨hp, hu⟩
          simp [hp]
        · have hpe : pathExists = true := by
            cases pathExists
            · exact absurd ⟨hp, rfl⟩ h2
            · rfl
          simp [hp]

/-- `get_graphql_schema_from_url` / `introspect_remote_schema` send exactly what they are given - for every URL,
    every header list (values starting with `$` included: there is no environment at this level) and both TLS flags. -/
theorem url_stage_sends_what_it_is_given (url : String) (hs : List (String × String)) (v : Bool) :
    urlCall url hs v = ⟨url, hs, v, Tables.introspectionQueryFlags⟩ ∧ introspectCall url hs v = urlCall url hs v :=
  ⟨rfl, rfl⟩

/-- What the request of the staged pipeline carries is what the settings stage stored - the state handed from
    `__post_init__` to the request is not transformed again on the way. -/
theorem request_carries_settings_state (env : String → Option String) (pathExists : Bool) (c : SourceCfg) (call : PostCall)
    (h : chooseSourceStaged env pathExists c = .ok (.remote call)) :
    ∃ s, postInit env pathExists c = .ok s ∧ s.schemaPath = "" ∧
      call.url = s.remoteUrl ∧ call.headers = s.headers ∧ call.verify = s.verifySsl := by
  unfold chooseSourceStaged at h
  rcases hs : postInit env pathExists c with e | s
  · simp [hs] at h
  · simp only [hs, Except.ok.injEq] at h
    unfold mainSource at h
    by_cases hp : s.schemaPath = ""
    · simp only [hp, ne_eq, not_true_eq_false, if_false, Chosen.remote.injEq] at h
      subst h
      exact ⟨s, rfl, hp, rfl, rfl, rfl⟩
    · simp [hp] at h

/-- **headers_resolved_exactly_once**: the headers of the request are `resolve_headers` of the configured ones -
    one application, whatever the environment values look like. -/
theorem headers_resolved_exactly_once (env : String → Option String) (pathExists : Bool) (c : SourceCfg) (call : PostCall)
    (h : chooseSourceStaged env pathExists c = .ok (.remote call)) :
    resolveHeaders env c.headers = .ok call.headers := by
  rw [staged_eq_chooseSource] at h
  exact (headers_resolved_and_sent env pathExists c call h).2.2.1

/-- `value.lstrip("$")` -/
def lstripDollar (v : String) : String := String.ofList (v.toList.dropWhile (· == '$'))

/-- Exactly which values `get_header_value` returns unchanged: those that do not start with `$`, and the
    self-referential ones (`NAME=$NAME` in the environment). -/
theorem headerValue_fixed_iff (env : String → Option String) (v : String) :
    headerValue env v = .ok v ↔ (startsWithDollar v = false ∨ env (lstripDollar v) = some v) := by
  unfold headerValue
  split
  · rename_i rest heq
    have hd : startsWithDollar v = true := by simp [startsWithDollar, heq]
    have hn : lstripDollar v = String.ofList (rest.dropWhile (· == '$')) := by
      simp [lstripDollar, heq, List.dropWhile]
    have hne : v ≠ "" := by
      intro hv; rw [hv] at heq; simp at heq
    rw [hn]
    rcases hx : env (String.ofList (rest.dropWhile (· == '$'))) with _ | x
    · simp only [hx, hd, Bool.true_eq_false, false_or]
      constructor
      · intro h; cases h
      · intro h; cases h
    · simp only [hx, hd, Bool.true_eq_false, false_or, Option.some.injEq]
      by_cases hxe : x = ""
      · subst hxe
        simp only [if_true]
        constructor
        · intro h; cases h
        · intro h; exact absurd h.symm hne
      · simp only [hxe, if_false, Except.ok.injEq]
  · rename_i hno
    have hd : startsWithDollar v = false := by
      unfold startsWithDollar
      rcases hl : v.toList with _ | ⟨c, cs⟩
      · simp
      · by_cases hc : c = '$'
        · subst hc; exact absurd hl (hno cs)
        · simp [hc]
    simp [hd]

/-- **second_resolution_identity_iff**: resolving an (already resolved) header list again gives the same list
    exactly when every value is one that `get_header_value` leaves alone.  So a pipeline that resolves in two
    places agrees with this one on plain values and on nothing else. -/
theorem second_resolution_identity_iff (env : String → Option String) : ∀ r : List (String × String),
    resolveHeaders env r = .ok r ↔ ∀ kv ∈ r, (startsWithDollar kv.2 = false ∨ env (lstripDollar kv.2) = some kv.2)
  | [] => by simp [resolveHeaders]
  | (k, v) :: rest => by
    have ih := second_resolution_identity_iff env rest
    unfold resolveHeaders
    rcases hv : headerValue env v with n | x
    · have hnf : ¬ (startsWithDollar v = false ∨ env (lstripDollar v) = some v) := by
        intro hfix
        rw [(headerValue_fixed_iff env v).mpr hfix] at hv
        cases hv
      constructor
      · intro h; cases h
      · intro h; exact absurd (h (k, v) (by simp)) hnf
    · rcases hr : resolveHeaders env rest with n | r'
      · constructor
        · intro h; cases h
        · intro h
          have : resolveHeaders env rest = .ok rest := ih.mpr (fun kv hkv => h kv (by simp [hkv]))
          rw [this] at hr; cases hr
      · constructor
        · intro h
          simp only [Except.ok.injEq, List.cons.injEq, Prod.mk.injEq, true_and] at h
          obtain ⟨hx, hr'⟩ := h
          subst hx; subst hr'
          intro kv hkv
          rcases List.mem_cons.mp hkv with rfl | hm
          · exact (headerValue_fixed_iff env _).mp hv
          · exact ih.mp hr kv hm
        · intro h
          have h1 : headerValue env v = .ok v := (headerValue_fixed_iff env v).mpr (h (k, v) (by simp))
          have h2 : resolveHeaders env rest = .ok rest := ih.mpr (fun kv hkv => h kv (by simp [hkv]))
          rw [h1] at hv; rw [h2] at hr
          cases hv; cases hr
          rfl

/-- in particular a second resolution is harmless on values that do not start with `$` ... -/
theorem second_resolution_plain (env : String → Option String) (r : List (String × String))
    (h : ∀ kv ∈ r, startsWithDollar kv.2 = false) : resolveHeaders env r = .ok r :=
  (second_resolution_identity_iff env r).mpr (fun kv hkv => Or.inl (h kv hkv))

/-- ... and is NOT the identity in general: the documented `Authorization = "$TOKEN"` with a crypt-style secret in
    `TOKEN` resolves to the secret once, and a second pass looks for a variable named after the secret. -/
def cryptEnv : String → Option String := fun n => if n = "TOKEN" then some "$2y$10$abc" else none

theorem second_resolution_not_identity :
    resolveHeaders cryptEnv [("Authorization", "$TOKEN")] = .ok [("Authorization", "$2y$10$abc")] ∧
    resolveHeaders cryptEnv [("Authorization", "$2y$10$abc")] = .error "2y$10$abc" := by
  constructor <;> decide +kernel

/-- and on that configuration the modelled pipeline sends the secret (non-vacuity of `headers_resolved_exactly_once`) -/
example : chooseSourceStaged cryptEnv false ⟨"", "http://h/graphql", [("Authorization", "$TOKEN")], true⟩
    = .ok (.remote ⟨"http://h/graphql", [("Authorization", "$2y$10$abc")], true, Tables.introspectionQueryFlags⟩) := by
  rfl
example : startsWithDollar "$2y$10$abc" = true ∧ startsWithDollar "Bearer $x" = false ∧ startsWithDollar "" = false ∧
    lstripDollar "$$A$b" = "A$b" := by decide +kernel

/-- Full strength, last sentence of the property: when the remote source is used, the one request carries the
    configured URL, the configured headers after one `$ENV` substitution (same names, same order) and the configured
    TLS verification flag - through the pipeline as the code runs it, stage by stage. -/
def C19_sent_full : Prop :=
  ∀ (env : String → Option String) (pathExists : Bool) (c : SourceCfg) (call : PostCall),
    chooseSourceStaged env pathExists c = .ok (.remote call) →
      c.schemaPath = "" ∧ call.url = c.remoteUrl ∧ resolveHeaders env c.headers = .ok call.headers ∧
        call.verify = c.verifySsl ∧ call.queryFlags = Tables.introspectionQueryFlags

theorem sent_as_configured : C19_sent_full := by
  intro env pathExists c call h
  rw [staged_eq_chooseSource] at h
  have h1 := headers_resolved_and_sent env pathExists c call h
  exact ⟨h1.1, h1.2.1, h1.2.2.1, verify_flag_sent env pathExists c call h, h1.2.2.2⟩

/-- ... and it is used: only the remote source configured, every variable set -/
theorem remote_request_goes_out (env : String → Option String) (pathExists : Bool) (c : SourceCfg) (hs : List (String × String))
    (hp : c.schemaPath = "") (hu : c.remoteUrl ≠ "") (hr : resolveHeaders env c.headers = .ok hs) :
    chooseSourceStaged env pathExists c = .ok (.remote ⟨c.remoteUrl, hs, c.verifySsl, Tables.introspectionQueryFlags⟩) := by
  rw [staged_eq_chooseSource]
  exact remote_chosen env pathExists c hs hp hu hr

/-! The flags of the query that is sent are NOT pinned by a theorem: the model reads them from the regenerated
    table (`Introspect.queryFlag`), so that repairing finding F4 (`input_value_deprecation=True`) moves the model
    with the code instead of breaking a proof. -/

example : headerValue (fun n => if n = "TOKEN" then some "secret" else none) "$TOKEN" = .ok "secret" := by decide +kernel
example : headerValue (fun _ => none) "Bearer x" = .ok "Bearer x" := by decide +kernel
example : chooseSource (fun n => if n = "T" then some "s" else none) false ⟨"", "http://h/graphql", [("Authorization", "$T"), ("X", "y")], false⟩
    = .ok (.remote ⟨"http://h/graphql", [("Authorization", "s"), ("X", "y")], false, Tables.introspectionQueryFlags⟩) := by
  rfl

/-! ## 4. SDL-built vs introspection-built schema object -/

/-- what the introspection path sees, with the query flags of the source as it is now -/
def introMode : Mode := .intro (queryFlag "input_value_deprecation")

/-- a schema the generator accepts: unique type names, every input field of an input type -/
def ValidInputs (defs : List TypeDef) : Prop :=
  NamesUnique defs ∧ ∀ n fs, TypeDef.input n fs ∈ defs → AnnOk (kindOf defs) fs

/-- Full strength, source part (inputs): the input classes — field sets, annotations, which fields
    are required, every default — do not depend on the builder. -/
def C19_inputs_full : Prop :=
  ∀ defs : List TypeDef, ValidInputs defs → inputResults .sdl defs = inputResults introMode defs

/-- the finding-free region: no effective default (F1), no deprecated input field that the query
    that is sent leaves out (F4) -/
def Supported_19 (defs : List TypeDef) : Prop :=
  ¬ (trigDefaultLost defs = true ∨ trigDeprecatedInput (queryFlag "input_value_deprecation") defs = true)

theorem visible_of_not_trig (d : Bool) (defs : List TypeDef) (h : trigDeprecatedInput d defs = false) :
    ∀ n fs, TypeDef.input n fs ∈ defs → visibleFields (.intro d) fs = fs := by
  intro n fs hm
  apply visibleFields_eq_of_no_deprecated
  rcases (trigDeprecatedInput_false_iff d defs).mp h with h | h
  · exact Or.inl h
  · exact Or.inr (h n fs hm)

/-- **inputs_agree_iff_no_default**: when the query drops nothing, SDL and introspection give the
    same input classes exactly when no field has an effective default — so requiredness and defaults
    disagree precisely on the F1 region. -/
theorem inputs_agree_iff_no_default (defs : List TypeDef) (hv : ValidInputs defs)
    (h4 : trigDeprecatedInput (queryFlag "input_value_deprecation") defs = false) :
    inputResults .sdl defs = inputResults introMode defs ↔ trigDefaultLost defs = false := by
  unfold inputResults introMode
  rw [inputResultsK_agree_iff (kindOf defs) _ defs hv.2 (visible_of_not_trig _ defs h4)]
  exact (trigDefaultLost_false_iff defs).symm

/-- `C19_partial`, source part. -/
theorem C19_inputs_partial : ∀ defs : List TypeDef, ValidInputs defs → Supported_19 defs →
    inputResults .sdl defs = inputResults introMode defs := by
  intro defs hv hs
  have h1 : trigDefaultLost defs = false := by
    cases h : trigDefaultLost defs
    · rfl
    · exact absurd (Or.inl h) hs
  have h4 : trigDeprecatedInput (queryFlag "input_value_deprecation") defs = false := by
    cases h : trigDeprecatedInput (queryFlag "input_value_deprecation") defs
    · rfl
    · exact absurd (Or.inr h) hs
  exact (inputs_agree_iff_no_default defs hv h4).mpr h1

/-- F1 witness: `input In { x: Int = 5 }`. -/
def witnessF1 : List TypeDef := [.input "In" [⟨"x", .named "Int", some (.int 5), false⟩]]

theorem witnessF1_valid : ValidInputs witnessF1 := by
  refine ⟨?_, ?_⟩
  · intro a ha b hb _
    simp [witnessF1] at ha hb
    rw [ha, hb]
  · intro n fs hm f hf
    simp [witnessF1] at hm
    obtain ⟨rfl, rfl⟩ := hm
    simp at hf
    subst hf
    exact ⟨.optional (.name "int"), "", by decide +kernel⟩

theorem C19_inputs_full_false : ¬ C19_inputs_full := by
  intro h
  have h4 : trigDeprecatedInput (queryFlag "input_value_deprecation") witnessF1 = false := by
    unfold trigDeprecatedInput; simp [witnessF1]
  have := (inputs_agree_iff_no_default witnessF1 witnessF1_valid h4).mp (h witnessF1 witnessF1_valid)
  revert this
  decide +kernel

/-- what exactly happens to a default on the introspection path, per nullability -/
theorem default_lost_nullable (ft : String) (f : InputField) (lit : Lit) (d : Bool)
    (hd : f.default = some lit) (hn : f.type.isNonNull = false) :
    fieldDefault .sdl ft f = some (constValue ft lit false false) ∧ fieldDefault (.intro d) ft f = some .none := by
  refine ⟨fieldDefault_sdl_some ft f lit hd, ?_⟩
  rw [fieldDefault_intro_cases]; simp [hn]

/-- `x: T! = v`: optional (with the default) from SDL, *required* after introspection -/
theorem default_lost_required_flip (ft : String) (f : InputField) (lit : Lit) (d : Bool)
    (hd : f.default = some lit) (hn : f.type.isNonNull = true) :
    (fieldDefault .sdl ft f).isSome = true ∧ fieldDefault (.intro d) ft f = none := by
  refine ⟨by rw [fieldDefault_sdl_some ft f lit hd]; rfl, ?_⟩
  rw [fieldDefault_intro_cases]; simp [hn]

/-- F4 (conditional on the flag the source passes): a deprecated input field is missing from the
    introspection-built class. -/
theorem deprecated_field_dropped (kinds : String → Kind) (name : String) (fs : List InputField)
    (h : ∃ f ∈ fs, f.deprecated = true) :
    (genInput (.intro false) kinds name fs).fields.length < (genInput .sdl kinds name fs).fields.length := by
  simp only [genInput, List.length_map]
  exact visibleFields_length_lt fs h

/-- and when the query asks for deprecated input values nothing is dropped -/
theorem nothing_dropped_when_requested (fs : List InputField) : visibleFields (.intro true) fs = visibleFields .sdl fs := rfl

/-! ### everything else does not look at what differs -/

/-- Every read, in the client strategy, of a schema attribute whose value depends on the builder
    (`ast_node`, `extension_ast_nodes`, `default_value`, `description`, `deprecation_reason`,
    `specified_by_url`) — re-extracted from the source on every run — lies on the input-field
    default path modelled by `fieldDefault`. -/
def allowedUses : List (String × String × String) :=
  [("ariadne_codegen/client_generators/input_fields.py", "parse_input_field_default_value", "default_value"),
   ("ariadne_codegen/client_generators/input_types.py", "InputTypesGenerator._parse_input_definition", "ast_node")]

theorem ast_uses_confined : Tables.sourceSensitiveUses.all (fun u => allowedUses.contains u) = true := by
  decide +kernel

/-- A generator that is a function of the source-independent view of the schema object cannot tell
    the two builders apart (`ν` = what only the SDL builder provides: AST nodes). With
    `ast_uses_confined` this is why result models, enums, method signatures and operation strings
    are compared by the oracle as *equal* across sources, with no exception. -/
theorem source_invariant_results {σ ν β : Type} (g : σ → ν → β) (hg : ∀ s a b, g s a = g s b)
    (s₁ s₂ : σ) (a₁ a₂ : ν) (h : s₁ = s₂) : g s₁ a₁ = g s₂ a₂ := by
  subst h; exact hg _ _ _

/-- enums in particular: the generated enum classes are the same function of the definitions on
    both paths (the model has no mode argument), in any order of definitions -/
theorem enums_source_and_order_invariant (d₁ d₂ : List TypeDef) (h : d₁.Perm d₂) :
    (enumResults d₁).Perm (enumResults d₂) := enumResults_perm h

/-! ## 5. The property as a whole -/

/-- C19 at full strength = its four parts (files, sources, failures, what is sent). -/
def C19_full : Prop := C19_split_full ∧ C19_inputs_full ∧ C19_failures_full ∧ C19_sent_full

theorem C19_full_false : ¬ C19_full := fun h => C19_inputs_full_false h.2.1

/-- What holds: the file part and the what-is-sent part at full strength; the source part and the failure part
    outside the trigger regions of the recorded findings. -/
theorem C19_partial :
    C19_split_full ∧
    (∀ defs : List TypeDef, ValidInputs defs → Supported_19 defs → inputResults .sdl defs = inputResults introMode defs) ∧
    (∀ (σ : Type) (build : List (String × J) → Except String σ) (p : PostResult), Failure build p →
        ¬ (trigRequestExcUntyped p = true ∨ trigDataRejected build p = true) → IsIntrospectionError (schemaFromUrl build p)) ∧
    C19_sent_full :=
  ⟨split_invariant, C19_inputs_partial, C19_failures_partial, sent_as_configured⟩

/-- non-vacuity of the source part: a schema with inputs, an enum, a nullable `= null` default, a
    recursive input, inside the supported region -/
def exampleSchema : List TypeDef :=
  [.enum "Color" ["RED", "GREEN"], .scalar "Date", .composite "Query",
   .input "Filter" [⟨"q", .named "String", none, false⟩, ⟨"c", .nonNull (.named "Color"), none, false⟩,
                    ⟨"n", .named "Int", some .null, false⟩, ⟨"sub", .list (.named "Filter"), none, false⟩,
                    ⟨"d", .named "Date", none, false⟩]]

example : trigDefaultLost exampleSchema = false ∧ trigDeprecatedInput false exampleSchema = false := by decide +kernel
example : trigDefaultLost witnessF1 = true := by decide +kernel

end Ariadne.C19
