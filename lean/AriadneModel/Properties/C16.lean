/-
  C16 — The graphqlschema strategy reproduces the schema.

  "For every valid schema, executing the generated Python module defines a schema object equal to
   the source — same types, fields, arguments, default values, descriptions, deprecations,
   interfaces, union members, enum values, directives with locations/repeatability, root operation
   types and schema description […]. The chosen variable names are used and the module is valid,
   importable Python."

  Model: Model/SchemaGen.lean (`gen`, `dispatch`).  Reference semantics of CPython + graphql-core:
  Spec/PySchemaEval.lean (`evalSchemaModule`; modelled, validated, not verified).  Hypothesis:
  the explicit decidable predicate `SchemaWF.wf`.  Quantification: every `SchemaIR` (type lists,
  field lists, argument lists, wrapper nesting and default value trees of any size), every pair of
  variable names.

  Two findings make the full statement false on the pinned tree:
    C16-F1 `trigOneOf`  — `generate_input_object_type` does not emit `is_one_of`;
    C16-F2 `trigShadow` — a type-map variable name equal to an imported helper the module still
                          needs after the assignment breaks the module (or silently changes it).
  `eval_gen` says exactly what is lost in the first region (nothing but `is_one_of`);
  `schema_roundtrip` (= `C16_partial`) is the property on the complement of both regions.

  Constants ("defaults of every literal kind incl. nested objects/enums/null/large floats/quotes,
  multi-line descriptions", embedded via `repr`): the IR carries a constant as its VALUE; that the
  TEXT `ast.unparse` writes for it (`repr`, Model/PyRepr.lean) denotes that value again is
  `literal_roundtrip` — for every value tree of any size and depth, every string (every quote
  choice, every escape), every `str.isprintable` table — against the reader of Spec/PyLiteral.lean
  (CPython's literal syntax: modelled, validated on every written file, not verified).
  `default_text_roundtrip` adds `Undefined`, which is written as a NAME, and
  `gen_constants_read_back` says it of every constant position of the module emitted for a
  well-formed schema.  What black does to that text afterwards is outside the model (the reader is
  validated on black's output; black's own AST-equivalence is assumed).

  Order of `schema.type_map` (= the order `print_schema` prints the types in): the evaluator lists
  the types in type-map-dict order; that graphql-core's type collection (Spec/GqlCollect.lean:
  modelled, validated against `list(schema.type_map)` of the source and of the generated schema on
  every case) keeps the user's types in the order of the `types=` argument is `type_map_order`.
-/
import AriadneModel.Proofs.SchemaRoundtrip
import AriadneModel.Proofs.SchemaPrune
import AriadneModel.Proofs.PyLiteral
import AriadneModel.Proofs.SchemaConsts
import AriadneModel.Proofs.GqlCollect

set_option linter.unusedSimpArgs false
set_option linter.unusedVariables false

namespace Ariadne.C16
open Ariadne.Schema Ariadne.SchemaGen Ariadne.PySchemaEval Ariadne.SchemaWF Ariadne.SchemaRoundtrip

/-! ### table facts (re-checked against the regenerated tables on every run) -/

/-- every key of ariadne's `STANDARD_SCALARS` maps to the graphql-core export that IS that scalar,
    and all five export names are shadow-sensitive -/
theorem standard_scalars_table :
    ∀ p ∈ Tables.schemaStandardScalars,
      graphqlExport p.2 = some (.std p.1) ∧ shadowSensitive.contains p.2 = true := by decide

/-- everything `generate_type_map` skips is a name graphql-core reserves, and vice versa -/
theorem standard_types_are_reserved :
    (∀ n ∈ Tables.schemaStandardTypes, Tables.gqlReservedTypes.contains n = true) ∧
    (∀ n ∈ Tables.gqlReservedTypes, Tables.schemaStandardTypes.contains n = true) := by decide

/-- every specified scalar object exported by graphql-core has a `STANDARD_SCALARS` entry
    (otherwise a reference to it would be emitted as a lookup of a key the type map never has) -/
theorem specified_scalars_covered :
    ∀ p ∈ Tables.gqlStdScalarExports, stdScalarPy p.2 = some p.1 := by decide

/-! ### the name space of the emitted module -/

/-- the bindings made by the three import statements `gen` emits -/
def genBindings : List (Name × Builtin) :=
  match bindImports genImports with
  | .ok bs => bs
  | .error _ => []

theorem bindImports_gen : bindImports genImports = .ok genBindings := by rfl

def ρ₁ : Env := envOfImports genBindings

theorem env1Good : Env1Good ρ₁ := by
  constructor <;> decide

def ρ₂ (tm : Name) : Env := fun n => if n = tm then .typeMap else ρ₁ n

theorem ne_of_not_shadow {tm n : Name} (h : trigShadow tm = false) (hn : shadowSensitive.contains n = true) : n ≠ tm := by
  intro e
  subst e
  unfold trigShadow at h
  rw [h] at hn
  exact absurd hn (by simp)

theorem ρ₂_of_sensitive {tm n : Name} (h : trigShadow tm = false) (hn : shadowSensitive.contains n = true) :
    ρ₂ tm n = ρ₁ n := by
  unfold ρ₂
  simp [ne_of_not_shadow h hn]

theorem ρ₂_bound {tm n : Name} (h1 : ρ₁ n ≠ .unbound) : ρ₂ tm n ≠ .unbound := by
  unfold ρ₂
  by_cases e : n = tm
  · simp [e]
  · simp [e, h1]

theorem envGood (tm : Name) (h : trigShadow tm = false) : EnvGood (ρ₂ tm) tm where
  field := by rw [ρ₂_of_sensitive h (by decide)]; decide
  argument := by rw [ρ₂_of_sensitive h (by decide)]; decide
  inputField := by rw [ρ₂_of_sensitive h (by decide)]; decide
  list := by rw [ρ₂_of_sensitive h (by decide)]; decide
  nonNull := by rw [ρ₂_of_sensitive h (by decide)]; decide
  cast := by rw [ρ₂_of_sensitive h (by decide)]; decide
  tlist := by rw [ρ₂_of_sensitive h (by decide)]; decide
  undefined := by rw [ρ₂_of_sensitive h (by decide)]; decide
  directive := by rw [ρ₂_of_sensitive h (by decide)]; decide
  schema := by rw [ρ₂_of_sensitive h (by decide)]; decide
  dirLoc := by rw [ρ₂_of_sensitive h (by decide)]; decide
  std := by
    intro n py hpy
    have hm := alookup_mem n py _ hpy
    have key : ∀ p ∈ Tables.schemaStandardScalars,
        shadowSensitive.contains p.2 = true ∧ ρ₁ p.2 = .builtin (.std p.1) := by decide
    have ⟨k1, k2⟩ := key (n, py) hm
    rw [ρ₂_of_sensitive h k1]
    exact k2
  clsBound := by
    intro k
    cases k <;> exact ρ₂_bound (by decide)
  tmAnn := ρ₂_bound (by decide)
  tm := by simp [ρ₂]

/-! ### the round trip -/

/-- what the emitted module can carry of a schema: everything except `is_one_of` -/
def eraseOneOf (S : SchemaIR) : SchemaIR := { S with types := S.types.map clearOneOf }

theorem wf_split (S : SchemaIR) (h : wf S = true) :
    nodupB (S.types.map TypeDef.name) = true ∧ (∀ t ∈ S.types, typeNameOK t = true) ∧
    (∀ t ∈ S.types, typeOK (headsS S.types) t = true) ∧ rootOK (headsS S.types) S.query = true ∧
    rootOK (headsS S.types) S.mutation = true ∧ rootOK (headsS S.types) S.subscription = true ∧
    (∀ d ∈ S.directives, directiveOK (headsS S.types) d = true) := by
  unfold wf at h
  have ⟨h16, h7⟩ := and_true_split h
  have ⟨h15, h6⟩ := and_true_split h16
  have ⟨h14, h5⟩ := and_true_split h15
  have ⟨h13, h4⟩ := and_true_split h14
  have ⟨h12, h3⟩ := and_true_split h13
  have ⟨h1, h2⟩ := and_true_split h12
  exact ⟨h1, by simpa using h2, by simpa using h3, h4, h5, h6, by simpa using h7⟩

/-- **Main theorem.**  For every well-formed schema and every type-map variable name that does
    not shadow a needed import, executing the emitted module yields the source schema with — at
    most — the `is_one_of` flags cleared.  (Induction over the type list, field lists, argument
    lists, TypeRef wrappers; default value trees pass through the assumed law.) -/
theorem eval_gen (S : SchemaIR) (tm sv : Name) (hwf : wf S = true) (hsh : trigShadow tm = false) :
    evalSchemaModule (gen S tm sv) sv = .ok (eraseOneOf S) := by
  have ⟨hnd, hnames, htypes, hq, hm, hs, hds⟩ := wf_split S hwf
  have hρ := envGood tm hsh
  have hkeys : (S.types.map fun t => (t.name, genType tm t)).map (·.1) = S.types.map TypeDef.name := by
    simp [List.map_map, Function.comp_def]
  have h1 : evalTypeMap ρ₁ (genTypeMap tm S.types) = .ok (S.types.map fun t => (t.name, objOf tm t)) := by
    unfold evalTypeMap
    rw [genTypeMap_eq tm S.types hnames, constructAll_gen env1Good tm (headsS S.types) S.types hnames htypes, hkeys]
    simp [hnd, require]
  have hnd' : nodupB ((S.types.map clearOneOf).map TypeDef.name) = true := by
    have : (S.types.map clearOneOf).map TypeDef.name = S.types.map TypeDef.name := by
      simp [List.map_map, Function.comp_def, clearOneOf_name]
    rw [this]; exact hnd
  have h2 : evalSchema (ρ₂ tm) (S.types.map fun t => (t.name, objOf tm t)) (genSchema tm S) = .ok (eraseOneOf S) := by
    unfold evalSchema genSchema
    simp only [headsOf_objs]
    rw [callee_eq hρ.schema (by simp)]
    simp only [bind_ok, evalRoot_gen hρ _ S.query hq, evalRoot_gen hρ _ S.mutation hm,
      evalRoot_gen hρ _ S.subscription hs, callee_eq hρ.tm (by simp),
      evalDirectives_gen hρ _ S.directives hds, evalOptStr_gen, forceAll_gen hρ _ S.types htypes, hnd']
    simp [require, eraseOneOf]
  unfold evalSchemaModule
  simp only [gen, bindImports_gen, bind_ok]
  have eρ₁ : envOfImports genBindings = ρ₁ := rfl
  simp only [eρ₁]
  have eρ₂ : (fun n => if n = tm then Binding.typeMap else ρ₁ n) = ρ₂ tm := rfl
  simp only [eρ₂]
  rw [h1]
  simp only [bind_ok, callee_bound hρ.tmAnn, h2]
  by_cases e : "GraphQLSchema" = sv
  · simp [e]
  · simp [e, callee_eq hρ.schema]

theorem eraseOneOf_of_not (S : SchemaIR) (h : trigOneOf S = false) : eraseOneOf S = S := by
  unfold eraseOneOf
  have : S.types.map clearOneOf = S.types := by
    have hall : ∀ t ∈ S.types, isOneOf t = false := by
      unfold trigOneOf at h
      simpa using h
    calc S.types.map clearOneOf = S.types.map id :=
          List.map_congr_left (fun t ht => clearOneOf_of_not t (hall t ht))
      _ = S.types := List.map_id _
  rw [this]

/-- the property for one input -/
def Roundtrip (S : SchemaIR) (tm sv : Name) : Prop := evalSchemaModule (gen S tm sv) sv = .ok S

/-- **schema_roundtrip** (must tier, = `C16_partial`): outside the two finding regions the emitted
    module evaluates to exactly the source schema. -/
theorem schema_roundtrip (S : SchemaIR) (tm sv : Name) (hwf : wf S = true)
    (h1 : trigOneOf S = false) (h2 : trigShadow tm = false) : Roundtrip S tm sv := by
  unfold Roundtrip
  rw [eval_gen S tm sv hwf h2, eraseOneOf_of_not S h1]

/-- The same for the module as `ast_to_str` WRITES it — unused imports removed (`written`, the
    model of the autoflake pass; the harness compares it with the import lists of the real file):
    the evaluator consults only names the body mentions, and those stay imported. -/
theorem schema_roundtrip_written (S : SchemaIR) (tm sv : Name) (hwf : wf S = true)
    (h1 : trigOneOf S = false) (h2 : trigShadow tm = false) :
    evalSchemaModule (written (gen S tm sv)) sv = .ok S := by
  have h := SchemaPrune.eval_written (gen S tm sv) genBindings bindImports_gen
  have e : (gen S tm sv).svName = sv := rfl
  rw [e] at h
  rw [h]
  exact schema_roundtrip S tm sv hwf h1 h2

/-- every name the written module imports is mentioned (or re-bound) by its two statements -/
theorem written_imports_only_needed (m : PyModuleIR) :
    ∀ i ∈ (written m).imports, i.names ≠ [] ∧ ∀ n ∈ i.names, keepName m n = true := by
  intro i hi
  have hi' : i ∈ pruneWith (keepName m) m.imports := hi
  unfold pruneWith at hi'
  rw [List.mem_filter] at hi'
  obtain ⟨hmem, hne⟩ := hi'
  rw [List.mem_map] at hmem
  obtain ⟨j, _, hj⟩ := hmem
  subst hj
  refine ⟨by simpa using hne, ?_⟩
  intro n hn
  exact (List.mem_filter.mp hn).2

/-- The property at full strength (all well-formed schemas × all variable names). -/
def C16_full : Prop := ∀ (S : SchemaIR) (tm sv : Name), wf S = true → Roundtrip S tm sv

/-- `Supported_16 := ¬ (trigOneOf ∨ trigShadow)` — theorem region ∪ finding regions = all inputs -/
def Supported_16 (S : SchemaIR) (tm : Name) : Prop := ¬ (trigOneOf S = true ∨ trigShadow tm = true)

theorem C16_partial (S : SchemaIR) (tm sv : Name) (hwf : wf S = true) (hsup : Supported_16 S tm) : Roundtrip S tm sv := by
  unfold Supported_16 at hsup
  have h1 : trigOneOf S = false := by
    cases h : trigOneOf S with
    | false => rfl
    | true => exact absurd (Or.inl h) hsup
  have h2 : trigShadow tm = false := by
    cases h : trigShadow tm with
    | false => rfl
    | true => exact absurd (Or.inr h) hsup
  exact schema_roundtrip S tm sv hwf h1 h2

/-! ### witnesses -/

def intRef : TypeRef := .named "Int" .scalar

/-- C16-F1 witness: `input Pick @oneOf { a: Int  b: Int }  type Query { f(p: Pick): Int }` -/
def witnessOneOf : SchemaIR :=
  { types := [.input "Pick" none [⟨"a", intRef, .undefined, none, none⟩, ⟨"b", intRef, .undefined, none, none⟩] true,
              .object "Query" none [] [⟨"f", intRef, [⟨"p", .named "Pick" .input, .undefined, none, none⟩], none, none⟩]],
    query := some ("Query", .object), mutation := none, subscription := none, directives := [], description := none }

/-- C16-F2 witness: `type Query { f: Int }` with `type_map_variable_name = "cast"` -/
def witnessPlain : SchemaIR :=
  { types := [.object "Query" none [] [⟨"f", intRef, [], none, none⟩]],
    query := some ("Query", .object), mutation := none, subscription := none, directives := [], description := none }

theorem witnessOneOf_wf : wf witnessOneOf = true := by decide
theorem witnessPlain_wf : wf witnessPlain = true := by decide

/-- the full-strength property fails on the pinned tree (finding C16-F1: `is_one_of` is lost) -/
theorem C16_full_false : ¬ C16_full := by
  intro h
  have h1 := h witnessOneOf "type_map" "schema" witnessOneOf_wf
  unfold Roundtrip at h1
  rw [eval_gen witnessOneOf "type_map" "schema" witnessOneOf_wf (by decide)] at h1
  have h2 : (eraseOneOf witnessOneOf).types = witnessOneOf.types := by
    have := Except.ok.inj h1
    rw [this]
  simp [eraseOneOf, witnessOneOf, clearOneOf] at h2

def isOk {ε α : Type} : Except ε α → Bool
  | .ok _ => true
  | .error _ => false

/-- … and it still fails when `@oneOf` inputs are excluded (finding C16-F2: the type-map variable
    shadows `typing.cast`, the module raises) -/
theorem C16_full_false_shadow :
    ¬ (∀ (S : SchemaIR) (tm sv : Name), wf S = true → trigOneOf S = false → Roundtrip S tm sv) := by
  intro h
  have h1 := h witnessPlain "cast" "schema" witnessPlain_wf (by decide)
  unfold Roundtrip at h1
  have h2 : isOk (evalSchemaModule (gen witnessPlain "cast" "schema") "schema") = false := by decide
  rw [h1] at h2
  simp [isOk] at h2

/-- non-vacuity of `schema_roundtrip`: a schema with every kind of named type, an interface
    implementing an interface, custom root names, nested defaults, a repeatable directive -/
def sample : SchemaIR :=
  { types :=
      [.scalar "Date" (some "d") (some "https://example.com"),
       .enum "Color" none [⟨"RED", .str "RED", some "r", none⟩, ⟨"BLUE", .str "BLUE", none, some "old"⟩],
       .input "Filter" none
         [⟨"color", .named "Color" .enum, .value (.str "RED"), none, some "dep"⟩,
          ⟨"ids", .nonNull (.list (.nonNull (.named "ID" .scalar))), .value (.list [.str "a"]), none, none⟩,
          ⟨"sub", .named "Filter" .input, .undefined, none, none⟩] false,
       .interface "Node" none [] [⟨"id", .nonNull (.named "ID" .scalar), [], none, none⟩],
       .interface "Named" none ["Node"] [⟨"id", .nonNull (.named "ID" .scalar), [], none, none⟩,
          ⟨"name", .named "String" .scalar, [], some "multi\nline \"q\"", some "No longer supported"⟩],
       .object "User" (some "u") ["Named", "Node"]
         [⟨"id", .nonNull (.named "ID" .scalar), [], none, none⟩, ⟨"name", .named "String" .scalar, [], none, none⟩,
          ⟨"since", .named "Date" .scalar,
            [⟨"f", .named "Filter" .input, .value (.dict [("color", .str "BLUE"), ("ids", .list []), ("x", .dict [("y", .float "1e+300")])]), none, none⟩,
             ⟨"n", .named "Int" .scalar, .value (.int (-3)), some "arg", some "gone"⟩,
             ⟨"z", .named "Float" .scalar, .value .none, none, none⟩], none, none⟩],
       .union "Result" none ["User"],
       .object "RootQ" none [] [⟨"me", .named "Result" .union, [], none, none⟩, ⟨"node", .named "Node" .interface, [], none, none⟩]],
    query := some ("RootQ", .object), mutation := none, subscription := some ("User", .object),
    directives := [⟨"tag", some "t", true, ["FIELD_DEFINITION", "OBJECT"], [⟨"name", .nonNull (.named "String" .scalar), .value (.str "x"), none, none⟩]⟩,
                   ⟨"skip", none, false, ["FIELD"], [⟨"if", .nonNull (.named "Boolean" .scalar), .undefined, none, none⟩]⟩],
    description := some "schema" }

example : wf sample = true ∧ trigOneOf sample = false ∧ trigShadow "type_map" = false := by decide
example : Roundtrip sample "type_map" "schema" := schema_roundtrip _ _ _ (by decide) (by decide) (by decide)
example : Supported_16 sample "GraphQLEnumValue" := by unfold Supported_16; decide

/-! ### corollaries: what is reproduced, feature by feature -/

/-- Even inside the `@oneOf` region nothing else is lost: the evaluated schema agrees with the
    source on every type up to `is_one_of`, on the root types, the directives and the description. -/
theorem only_oneOf_lost (S : SchemaIR) (tm sv : Name) (hwf : wf S = true) (hsh : trigShadow tm = false) :
    ∃ S', evalSchemaModule (gen S tm sv) sv = .ok S' ∧ S'.types = S.types.map clearOneOf ∧
      S'.query = S.query ∧ S'.mutation = S.mutation ∧ S'.subscription = S.subscription ∧
      S'.directives = S.directives ∧ S'.description = S.description :=
  ⟨eraseOneOf S, eval_gen S tm sv hwf hsh, rfl, rfl, rfl, rfl, rfl, rfl⟩

/-- same type names in the same order; root operation types (custom names included) -/
theorem same_type_names_and_roots (S : SchemaIR) (tm sv : Name) (hwf : wf S = true) (hsh : trigShadow tm = false) :
    ∃ S', evalSchemaModule (gen S tm sv) sv = .ok S' ∧ S'.types.map TypeDef.name = S.types.map TypeDef.name ∧
      S'.types.map TypeDef.kind = S.types.map TypeDef.kind ∧
      S'.query = S.query ∧ S'.mutation = S.mutation ∧ S'.subscription = S.subscription := by
  refine ⟨eraseOneOf S, eval_gen S tm sv hwf hsh, ?_, ?_, rfl, rfl, rfl⟩
  · simp [eraseOneOf, List.map_map, Function.comp_def, clearOneOf_name]
  · have : ∀ t, (clearOneOf t).kind = t.kind := by intro t; cases t <;> rfl
    simp [eraseOneOf, List.map_map, Function.comp_def, this]

/-- directives: names, descriptions, locations, repeatability, arguments with their defaults -/
theorem same_directives (S : SchemaIR) (tm sv : Name) (hwf : wf S = true) (hsh : trigShadow tm = false) :
    ∃ S', evalSchemaModule (gen S tm sv) sv = .ok S' ∧ S'.directives = S.directives ∧ S'.description = S.description :=
  ⟨eraseOneOf S, eval_gen S tm sv hwf hsh, rfl, rfl⟩

/-- every type that is not an input object comes back identical: descriptions, `specifiedBy`,
    interfaces (incl. interface-implements-interface), fields, arguments, default values,
    deprecation reasons, union members, enum values with their `value` -/
theorem non_input_types_identical (S : SchemaIR) (tm sv : Name) (hwf : wf S = true) (hsh : trigShadow tm = false)
    (i : Nat) (t : TypeDef) (ht : S.types[i]? = some t) (hk : t.kind ≠ .input) :
    ∃ S', evalSchemaModule (gen S tm sv) sv = .ok S' ∧ S'.types[i]? = some t := by
  refine ⟨eraseOneOf S, eval_gen S tm sv hwf hsh, ?_⟩
  have : clearOneOf t = t := by
    cases t <;> first | rfl | exact absurd rfl hk
  simp [eraseOneOf, ht, this]

/-- input objects come back with identical fields, defaults, descriptions, deprecations -/
theorem input_types_up_to_oneOf (S : SchemaIR) (tm sv : Name) (hwf : wf S = true) (hsh : trigShadow tm = false)
    (i : Nat) (n : Name) (d : Option String) (fs : List ArgDef) (o : Bool) (ht : S.types[i]? = some (.input n d fs o)) :
    ∃ S', evalSchemaModule (gen S tm sv) sv = .ok S' ∧ S'.types[i]? = some (.input n d fs false) := by
  refine ⟨eraseOneOf S, eval_gen S tm sv hwf hsh, ?_⟩
  simp [eraseOneOf, ht, clearOneOf]

/-! ### constants: the text `repr` writes denotes the value again -/

open Ariadne.PyRepr Ariadne.PyLiteral in
/-- **literal_roundtrip**: reading the `repr` text of a constant gives the constant — for every
    value tree (no bound on size, depth, string length), whatever `str.isprintable` says of any
    code point.  `finitePV`: every float is a finite float's `repr`. -/
theorem literal_roundtrip (printable : Char → Bool) (v : PyVal) (h : finitePV v = true) :
    readLiteral (reprPV printable v) = some v :=
  PyLiteralProofs.readLiteral_reprPV printable v h

open Ariadne.PyRepr Ariadne.PyLiteral in
/-- the same for the installed interpreter's table and `String`s -/
theorem pyRepr_roundtrip (v : PyVal) (h : finitePV v = true) : readLiteral (pyRepr v).toList = some v := by
  unfold pyRepr
  rw [String.toList_ofList]
  exact literal_roundtrip pyPrintable v h

open Ariadne.PyRepr Ariadne.PyLiteral in
/-- every string — description, deprecation reason, `specifiedBy` URL, type / field / argument
    name — reads back, with no hypothesis at all -/
theorem string_roundtrip (printable : Char → Bool) (s : String) :
    readLiteral (reprString printable s.toList) = some (.str s) :=
  literal_roundtrip printable (.str s) rfl

open Ariadne.SchemaConsts (cexprOK)

open Ariadne.PyRepr Ariadne.PyLiteral in
/-- a constant position reads back as what was generated: constants as their value, graphql-core's
    `Undefined` as the NAME (never as a string, never as a constant) -/
theorem cexpr_text_roundtrip (printable : Char → Bool) (c : CExpr) (h : cexprOK c = true) :
    readCExpr (renderCExpr printable c) = some c := by
  cases c with
  | const v =>
    simp only [renderCExpr, readCExpr, literal_roundtrip printable v h]
  | name n =>
    have hn : n = "Undefined" := by simpa [cexprOK] using h
    subst hn
    rfl

open Ariadne.PyRepr Ariadne.PyLiteral in
/-- **default_text_roundtrip**: `generate_constant(arg.default_value)` for every default value —
    absent (`Undefined`), `None`, or any finite constant -/
theorem default_text_roundtrip (printable : Char → Bool) (d : Default) (h : finiteDefault d = true) :
    readCExpr (renderCExpr printable (genDefault d)) = some (genDefault d) := by
  apply cexpr_text_roundtrip
  cases d with
  | undefined => rfl
  | value v => exact h

open Ariadne.PyRepr Ariadne.PyLiteral in
theorem optstr_text_roundtrip (printable : Char → Bool) (o : Option String) :
    readCExpr (renderCExpr printable (genOptStr o)) = some (genOptStr o) := by
  apply cexpr_text_roundtrip
  cases o <;> rfl

open Ariadne.PyRepr Ariadne.PyLiteral in
/-- **gen_constants_read_back**: in the module emitted for a well-formed schema EVERY constant
    position — type names, descriptions, `specified_by_url`s, deprecation reasons, default values of
    arguments / input fields / directive arguments, enum values, `is_repeatable`, the schema
    description — carries a text that reads back as exactly what the generator put there. -/
theorem gen_constants_read_back (printable : Char → Bool) (S : SchemaIR) (tm sv : Name) (hwf : wf S = true) :
    ∀ c ∈ (gen S tm sv).consts, readCExpr (renderCExpr printable c) = some c :=
  fun c hc => cexpr_text_roundtrip printable c (SchemaConsts.gen_consts_ok S tm sv hwf c hc)

/-- non-vacuity: `sample` is well-formed and its module has 70 constant positions (names, `None`
    and string descriptions, `Undefined` and nested dict / list / float / `None` defaults, enum values) -/
example : wf sample = true ∧ (gen sample "type_map" "schema").consts.length = 70 := by decide

/-- a string default `"Undefined"` / `"None"` is not confused with the name / the constant -/
example : PyLiteral.readCExpr (PyLiteral.renderCExpr PyRepr.pyPrintable (.const (.str "Undefined"))) = some (.const (.str "Undefined")) :=
  cexpr_text_roundtrip _ _ rfl
example : PyRepr.pyRepr (.str "Undefined") = "'Undefined'" ∧ PyRepr.pyRepr (.str "it's") = "\"it's\"" ∧
    PyRepr.pyRepr (.str "a'b\"c\\\n\x7fé ") = "'a\\'b\"c\\\\\\n\\x7fé\\u2028'" := by
  refine ⟨by decide, by decide, by decide +kernel⟩

/-- non-vacuity of `literal_roundtrip`: a nested object default with an explicit `null` key, a list
    with a `null` item, quotes of both kinds, control and non-printable characters, a negative
    integer beyond 2^64, large / small / negative-zero floats -/
def sampleConst : PyVal :=
  .dict [("name", .none), ("limit", .int 10), ("tags", .list [.str "a", .none, .str "it's \"q\" \\ \n\t\x00\x7f é   😀"]),
         ("nested", .dict [("x", .float "1e+300"), ("y", .float "-0.0"), ("z", .float "5e-324"), ("b", .bool false)]),
         ("big", .int (-36893488147419103233)), ("", .dict []), ("'", .list [])]

example : finitePV sampleConst = true := by decide
example : PyLiteral.readLiteral (PyRepr.reprPV PyRepr.pyPrintable sampleConst) = some sampleConst :=
  literal_roundtrip _ _ (by decide)
example : finitePV (.float "inf") = false ∧ finitePV (.float "nan") = false ∧ finitePV (.list [.float "-inf"]) = false := by decide

/-! ### the order of `schema.type_map` -/

theorem nodup_of_nodupB : ∀ xs : List String, nodupB xs = true → xs.Nodup := by
  intro xs
  induction xs with
  | nil => intro _; exact List.nodup_nil
  | cons x xs ih =>
    intro h
    simp only [nodupB, Bool.and_eq_true, Bool.not_eq_true', List.contains_eq_mem, decide_eq_false_iff_not] at h
    exact List.nodup_cons.mpr ⟨h.1, ih h.2⟩

open Ariadne.GqlCollect in
/-- **type_map_order**: graphql-core's type collection, given the user's types in some order as
    `types=` (the generated module passes `<type_map>.values()`, i.e. the source's order), yields a
    `type_map` that lists them in exactly that order — whatever they reference, wherever the built-in
    scalars and the introspection types end up in between. -/
theorem type_map_order (S : SchemaIR) (hwf : wf S = true) :
    (typeMapOrder S).filter (fun n => (S.types.map TypeDef.name).contains n) = S.types.map TypeDef.name :=
  GqlCollectProofs.typeMapOrder_user S (nodup_of_nodupB _ (wf_split S hwf).1)

open Ariadne.GqlCollect in
/-- the same for any `types=` list of distinct names that contains the user's types (what
    `build_client_schema` hands over for an introspected source: built-in types in between) -/
theorem type_map_order_from (S : SchemaIR) (ts : List Name) (hnd : ts.Nodup)
    (hU : ∀ u ∈ S.types.map TypeDef.name, u ∈ ts) :
    (typeMapOrderFrom ts S).filter (fun n => (S.types.map TypeDef.name).contains n) =
      ts.filter (fun n => (S.types.map TypeDef.name).contains n) :=
  GqlCollectProofs.typeMapOrderFrom_user S ts hnd hU

open Ariadne.GqlCollect in
/-- … hence the schema the emitted module defines has the source's type order (same statement about
    the evaluated schema, outside the finding regions) -/
theorem roundtrip_type_order (S : SchemaIR) (tm sv : Name) (hwf : wf S = true)
    (h1 : trigOneOf S = false) (h2 : trigShadow tm = false) :
    ∃ S', evalSchemaModule (gen S tm sv) sv = .ok S' ∧
      (typeMapOrder S').filter (fun n => (S.types.map TypeDef.name).contains n) = S.types.map TypeDef.name :=
  ⟨S, schema_roundtrip S tm sv hwf h1 h2, type_map_order S hwf⟩

/-- non-vacuity: in `sample` the built-in scalars land between the user's types, `Filter` references
    itself, `User` is referenced before it is defined -/
example : GqlCollect.typeMapOrder sample =
    ["Date", "Color", "Filter", "ID", "Node", "Named", "String", "User", "Int", "Float", "Result", "RootQ",
     "Boolean", "__Schema", "__Type", "__TypeKind", "__Field", "__InputValue", "__EnumValue", "__Directive",
     "__DirectiveLocation"] := by decide

/-! ### the chosen variable names -/

/-- The module binds the configured schema variable to the schema; the configured type-map
    variable to the type map unless both names coincide (then the schema wins: observed on the
    real code, the module still works); and nothing but those two names and the imports. -/
theorem chosen_names_bound (S : SchemaIR) (tm sv : Name) :
    finalBinding (gen S tm sv) sv = .schema ∧
    (tm ≠ sv → finalBinding (gen S tm sv) tm = .typeMap) ∧
    (∀ n, finalBinding (gen S tm sv) n ≠ .unbound ↔ (n = sv ∨ n = tm ∨ n ∈ importNames)) := by
  refine ⟨by simp [finalBinding, gen], ?_, ?_⟩
  · intro h
    simp [finalBinding, gen, h]
  · intro n
    unfold finalBinding
    simp only [gen]
    constructor
    · intro h
      by_cases h1 : n = sv
      · exact Or.inl h1
      · by_cases h2 : n = tm
        · exact Or.inr (Or.inl h2)
        · right; right
          cases hc : (genImports.flatMap (·.names)).contains n with
          | true => exact List.contains_iff_mem.mp hc
          | false =>
            simp only [h1, h2, if_false, hc, Bool.false_eq_true] at h
            exact absurd rfl h
    · intro h
      by_cases h1 : n = sv
      · simp [h1]
      · by_cases h2 : n = tm
        · by_cases h4 : tm = sv <;> simp [h1, h2, h4]
        · have h3 : n ∈ importNames := by
            rcases h with h | h | h
            · exact absurd h h1
            · exact absurd h h2
            · exact h
          have h3' : (genImports.flatMap (·.names)).contains n = true := List.contains_iff_mem.mpr h3
          simp only [h1, h2, if_false, h3', if_true]
          simp

/-- the emitted module mentions the configured names and no other variable of its own -/
theorem chosen_names_used (S : SchemaIR) (tm sv : Name) :
    (gen S tm sv).tmName = tm ∧ (gen S tm sv).svName = sv ∧ (gen S tm sv).schema.typesTm = tm := ⟨rfl, rfl, rfl⟩

/-! ### target dispatch -/

/-- the Python emitter runs exactly for a (case-insensitive) `.py` suffix -/
theorem suffix_dispatch_py (p : String) : dispatch p = .ok .py ↔ (suffixOf p ≠ [] ∧ targetFileFormat p = "py") := by
  unfold dispatch assertValidTarget
  by_cases h1 : suffixOf p = []
  · simp [h1]
  · by_cases h2 : targetFileFormat p = "py"
    · simp [h1, h2]
    · by_cases h3 : targetFileFormat p ∈ ["py", "graphql", "gql"]
      · simp [h1, h2, h3]
      · simp [h1, h2, h3]

/-- the SDL printer runs exactly for `.graphql` / `.gql`: the `else` branch of `main.graphql_schema`
    is never reached with any other suffix, because the settings rejected it first -/
theorem suffix_dispatch_sdl (p : String) :
    dispatch p = .ok .sdl ↔ (suffixOf p ≠ [] ∧ (targetFileFormat p = "graphql" ∨ targetFileFormat p = "gql")) := by
  unfold dispatch assertValidTarget
  by_cases h1 : suffixOf p = []
  · simp [h1]
  · by_cases h2 : targetFileFormat p = "py"
    · simp [h1, h2]
    · by_cases h3 : targetFileFormat p = "graphql"
      · simp [h1, h2, h3]
      · by_cases h4 : targetFileFormat p = "gql"
        · simp [h1, h2, h3, h4]
        · simp [h1, h2, h3, h4]

/-- anything else is rejected by the settings, before anything is generated -/
theorem suffix_dispatch_rejects (p : String) :
    (∃ e, dispatch p = .error e) ↔ (suffixOf p = [] ∨ targetFileFormat p ∉ ["py", "graphql", "gql"]) := by
  unfold dispatch assertValidTarget
  by_cases h1 : suffixOf p = []
  · simp [h1]
  · by_cases h3 : targetFileFormat p ∈ ["py", "graphql", "gql"]
    · by_cases h2 : targetFileFormat p = "py" <;> simp [h1, h2, h3]
    · simp [h1, h3]

example : dispatch "out/schema.PY" = .ok .py := by rfl
example : dispatch "schema.py.graphql" = .ok .sdl := by rfl
example : dispatch "dir.py/schema" = .error .missingFileType := by rfl
example : dispatch ".py" = .error .missingFileType := by rfl
example : dispatch "schema.graphqls" = .error .invalidFileType := by rfl

end Ariadne.C16
