/-
  C01 — Result models accept and preserve every conformant response.

  Model: Model/ResultTypes.lean (generator), Spec/Pyd.lean (pydantic), Spec/Exec.lean (executor).
  This file holds statements and final proofs; lemmas are in Proofs/ResultLeaf.lean.

  Tiers (DESIGN.md §3 C01):
    * `ann_accepts_conformant`  (proved, unbounded): leaf-based field types, every wrapper nesting.
    * class level / selections: see the bottom of this file for what is stated, what is proved and
      what is still covered by correspondence + oracle only.
-/
import AriadneModel.Proofs.ResultLeaf
import AriadneModel.Model.Triggers01
import AriadneModel.Model.Marks
import AriadneModel.Spec.Validate
import AriadneModel.Proofs.C01Plain

set_option linter.unusedVariables false

namespace Ariadne.C01
open Ariadne Ariadne.Gql Ariadne.ResultTypes Ariadne.ResultLeaf Ariadne.Pyd

/-- The generator emits, for a field of leaf-based type `T` (scalar or enum under any nesting of
    list / non-null wrappers), an annotation that accepts every value a conformant executor can
    return at that position and dumps it back unchanged — for all types, values, list lengths. -/
theorem ann_accepts_conformant (genv : ResultTypes.Env) (penv : Pyd.Env) (ha : EnvAgrees genv penv)
    (T : TypeRef) (hl : LeafName genv T.base) (fuel : Nat) (sel : List Selection) (cn : String) (add : Bool) (ctx : Ctx)
    (j : J) (vfuel : Nat) (hf : need T ≤ vfuel) (hc : Exec.conforms genv.schema true T j = true) :
    ∃ a ctx', parseType genv fuel sel T true cn add ctx = .ok (a, ctx') ∧
      ∃ v, validate penv vfuel a j = .ok v ∧ dump v = j := by
  obtain ⟨ctx', h⟩ := parseType_leaf genv fuel sel T hl true cn add ctx
  exact ⟨_, ctx', h, validate_leaf_dump genv penv ha T hl true j vfuel hf hc⟩

/-- non-vacuity: a concrete schema, type and value meeting the hypotheses -/
def exSchema : Schema := { types := [{ name := "Color", kind := .enum, values := ["RED", "GREEN"] }], query := some "Query" }
def exGenv : ResultTypes.Env := { schema := exSchema, frags := [] }
example : Exec.conforms exSchema true (.list (.nonNull (.named "Color"))) (.arr [.str "RED", .str "GREEN"]) = true := by
  decide
example : LeafName exGenv "Color" := by
  refine ⟨Or.inr (Or.inr ?_), ?_⟩ <;> decide


/-! ### The property at full strength, on the whole model pipeline

`generate` (Model/ResultTypes) → classes; `Marks.applyMarks` → the document as sent; `Exec.respOK` →
what a conformant server may answer for it; `Pyd.validate`/`dump` → what the generated models do
with the answer. -/

open Ariadne.Triggers01

/-- pydantic environment of operation number `k`: its own classes plus every generated fragment class -/
def pydEnvOf (inp : Input) (r : Run) (out : ModuleOut) : Pyd.Env :=
  -- the fragments module holds the classes of every fragment that no OPERATION unpacked (package.py)
  let unpacked := (okOuts r.ops).foldl (fun acc o => Util.setUnion acc o.st.unpacked) []
  let fragClasses := r.frags.foldl (fun acc (n, x) => match x with
    | .ok o => if unpacked.contains n then acc else acc ++ o.classes
    | .error _ => acc) []
  { classes := out.classes ++ fragClasses,
    enums := (inp.env.schema.types.filter (·.kind == .enum)).map fun t => (t.name, t.values) }

def execFuel : Nat := 1000

/-- C01 for one operation of one input and one payload, as a Boolean:
    generation succeeded and, IF `j` is an answer a conformant server can give for the sent document,
    THEN the root model accepts it and dumps it back (up to member order). -/
def claimB (inp : Input) (k : Nat) (j : J) : Bool :=
  let r := run inp
  match r.ops[k]?, inp.ops[k]? with
  | some (.ok out), some o =>
    match out.classes.head?, Validate.rootOf inp.env.schema o with
    | some root, some rt =>
      let marks := marksAfter (r.ops.take (k + 1))
      let sentFrags := inp.env.frags.map (Marks.applyFrag marks)
      let sent := Marks.applyOp marks o
      !(Exec.respOK inp.env.schema sentFrags execFuel rt sent.sel j)
      || (match Pyd.validate (pydEnvOf inp r out) execFuel (.cls root.name) j with
          | .ok v => J.eqv (Pyd.dump v) j
          | .error _ => false)
    | _, _ => false
  | some (.error _), some _ => false        -- generation refused / crashed on a valid operation
  | _, _ => true                            -- no such operation

def ValidInput (inp : Input) : Prop :=
  Validate.validDoc inp.env.schema inp.env.frags inp.ops execFuel = true

instance (inp : Input) : Decidable (ValidInput inp) := by unfold ValidInput; infer_instance

/-- C01 at full strength (acceptance + serialising back; the attribute-exposure and
    class-per-runtime-type clauses are consequences checked by the oracle). -/
def C01_full : Prop := ∀ (inp : Input) (k : Nat) (j : J), ValidInput inp → claimB inp k j = true

/-- C01 outside the finding regions (`Supported_01` = no trigger predicate of Model/Triggers01.lean holds). -/
def C01_partial_statement : Prop :=
  ∀ (inp : Input) (k : Nat) (j : J), ValidInput inp → Supported_01 inp → claimB inp k j = true

/-! Witness of finding C01-F2: `query Q { me { id } me { friends { id } } }` -/

def wSchema : Schema :=
  { types := [
      { name := "Query", kind := .object, fields := [{ name := "me", type := .named "User" }] },
      { name := "User", kind := .object,
        fields := [{ name := "id", type := .nonNull (.named "ID") },
                   { name := "friends", type := .nonNull (.list (.nonNull (.named "User"))) }] }],
    query := some "Query" }

def wOp : Operation :=
  { kind := .query, name := some "Q", sid := 1,
    sel := [ .field none "me" [] 2 [.field none "id" [] 0 []],
             .field none "me" [] 3 [.field none "friends" [] 4 [.field none "id" [] 0 []]] ] }

def wInp : Input := { env := { schema := wSchema, frags := [] }, ops := [wOp] }

def wResp : J :=
  .obj [("me", .obj [("id", .str "1"), ("friends", .arr [.obj [("id", .str "2")]])])]

theorem witness_valid : ValidInput wInp := by decide +kernel
theorem witness_in_region : trigDupCompositeKey wInp = true := by decide +kernel
theorem witness_conformant :
    Exec.respOK wSchema [] execFuel "Query" wOp.sel wResp = true := by decide +kernel
theorem witness_fails : claimB wInp 0 wResp = false := by decide +kernel

/-- The property is false on the pinned tree (finding C01-F2; replayed on the real code by
    corpus/C01/F2-duplicate-composite-key.json on every run). -/
theorem C01_full_false : ¬ C01_full := by
  intro h
  have := h wInp 0 wResp witness_valid
  rw [witness_fails] at this
  exact absurd this (by decide)


/-! Model-level witnesses of the other recorded findings (each is replayed on the REAL code from
    corpus/C01/ on every run; here: the model reproduces the defect and the input lies in the trigger region). -/

def w2Schema : Schema :=
  { types := [
      { name := "Query", kind := .object,
        fields := [{ name := "me", type := .named "User" }, { name := "node", type := .named "Node" }] },
      { name := "Node", kind := .interface, fields := [{ name := "id", type := .nonNull (.named "ID") }] },
      { name := "Named", kind := .interface, fields := [{ name := "name", type := .named "String" }] },
      { name := "User", kind := .object, interfaces := ["Node", "Named"],
        fields := [{ name := "id", type := .nonNull (.named "ID") }, { name := "name", type := .named "String" },
                   { name := "friends", type := .nonNull (.list (.nonNull (.named "User"))) },
                   { name := "pet", type := .named "Node" }] },
      { name := "Post", kind := .object, interfaces := ["Node"],
        fields := [{ name := "id", type := .nonNull (.named "ID") }, { name := "title", type := .nonNull (.named "String") }] }],
    query := some "Query" }

def fld (name : String) (sid : Nat := 0) (sub : List Selection := []) : Selection := .field none name [] sid sub
def inc : Directive := { name := "include", args := [("if", none)] }
def mkQ (sel : List Selection) : Operation := { kind := .query, name := some "Q", sid := 1, sel := sel }
def mkInp (frags : List Fragment) (sel : List Selection) : Input :=
  { env := { schema := w2Schema, frags := frags }, ops := [mkQ sel] }
def mkF (name on : String) (sid : Nat) (sel : List Selection) : Fragment := { name := name, on := on, sid := sid, sel := sel }

/-- F3: `query Q($f: Boolean!) { me { id ... on User @include(if: $f) { friends { id } } } }`, answered with `$f = false` -/
def w3 : Input := mkInp []
  ([fld "me" 2 [fld "id", .inline (some "User") [inc] 3 [fld "friends" 4 [fld "id"]]]])
def w3Resp : J := .obj [("me", .obj [("id", .str "1")])]
theorem F3_in_region : trigDirOnFragment w3 = true := by decide +kernel
theorem F3_fails_in_model : ValidInput w3 ∧ claimB w3 0 w3Resp = false := by decide +kernel

/-- F4: `query Q { me { ...UF } }  fragment UF on User { id pet { id } }` — the fragment is inherited, its text is sent
    without `__typename`, its class demands it -/
def w4 : Input := mkInp [mkF "UF" "User" 5 [fld "id", fld "pet" 6 [fld "id"]]]
  ([fld "me" 2 [.spread "UF" []]])
def w4Resp : J := .obj [("me", .obj [("id", .str "1"), ("pet", .obj [("id", .str "2")])])]
theorem F4_in_region : trigMixinAbstractField w4 (run w4) = true := by decide +kernel
theorem F4_fails_in_model : ValidInput w4 ∧ claimB w4 0 w4Resp = false := by decide +kernel

/-- F5: `query Q { node { ... on Named { name } } }` — the inline fragment on the other interface is ignored -/
def w5 : Input := mkInp []
  ([fld "node" 2 [.inline (some "Named") [] 3 [fld "name"]]])
def w5Resp : J := .obj [("node", .obj [("__typename", .str "User"), ("name", .str "n")])]
theorem F5_in_region : trigDroppedSelection w5.env.schema (run w5) = true := by decide +kernel
theorem F5_fails_in_model : ValidInput w5 ∧ claimB w5 0 w5Resp = false := by decide +kernel

/-- F7: `query Q { me { ... { id } } }` — AttributeError in the generator -/
def w7 : Input := mkInp []
  ([fld "me" 2 [.inline none [] 3 [fld "id"]]])
theorem F7_in_region : trigInlineNoType w7 = true := by decide +kernel
theorem F7_fails_in_model : ValidInput w7 ∧ claimB w7 0 (.obj [("me", .null)]) = false := by decide +kernel

/-- F9 (= C08-F1): `query Q { node { ...NF ... on User { name } } }  fragment NF on Node { id }` — `NF` is a base of the
    interface class and unpacked into the `User` class, hence excluded from the fragments module -/
def w9 : Input := mkInp [mkF "NF" "Node" 5 [fld "id"]]
  ([fld "node" 2 [.spread "NF" [], .inline (some "User") [] 3 [fld "name"]]])
def w9Resp : J := .obj [("node", .obj [("__typename", .str "Post"), ("id", .str "7")])]
theorem F9_in_region : trigMixinAndUnpacked (run w9) = true := by decide +kernel
theorem F9_fails_in_model : ValidInput w9 ∧ claimB w9 0 w9Resp = false := by decide +kernel

/-! Non-vacuity of the partial statement: a supported input on which the claim holds for a non-trivial answer
    (interface position, inline fragments on two members, nullable list of non-null objects). -/
def wOk : Input := mkInp []
  ([fld "node" 2 [fld "id", .inline (some "User") [] 3 [fld "name", fld "friends" 4 [fld "id"]],
                                  .inline (some "Post") [] 5 [fld "title"]]])
def wOkResp : J := .obj [("node", .obj [("__typename", .str "User"), ("id", .str "1"), ("name", .null),
  ("friends", .arr [.obj [("id", .str "2")], .obj [("id", .str "3")]])])]
example : ValidInput wOk ∧ Supported_01 wOk ∧ claimB wOk 0 wOkResp = true
    ∧ Exec.respOK w2Schema [] execFuel "Query" (Marks.applySels (marksAfter (run wOk).ops) ((wOk.ops.map (·.sel)).flatten)) wOkResp = true := by
  decide +kernel


/-! ### The plain-selection tier, proved (Proofs/C01Plain*.lean)

For every selection set made of fields only (aliases, `@skip/@include`, any nesting depth, every wrapper
nesting, leaf- or object-typed fields), evaluated on an object type, under the decidable well-formedness
predicate `PlainOK` (distinct response keys / Python names / class names, fields exist, no `@mixin`):
the generator model succeeds for all sufficiently large fuel, and EVERY answer a conformant executor can
give (`Exec.respOK`, objects without repeated keys) is accepted by the root class and dumped back
(order-insensitively).  No bound on depth, width, list lengths. -/

open Ariadne.C01Plain in
theorem object_selection_roundtrip (env : ResultTypes.Env) (cn tn : String) (sid : Nat) (sel : List Selection) (st : St)
    (h : PlainOK env cn tn sid sel st = true) :
    ∃ classes : List ClassDecl,
      (∀ fuel, gfuel sel ≤ fuel →
        ∃ st', parseTypeDefinition env fuel cn tn sid sel false [] [] st = .ok (classes, st')) ∧
      classes.head?.map (·.name) = some cn ∧
      (∀ (penv : Pyd.Env), PenvOK env penv classes →
        ∀ (efuel : Nat) (j : J), Exec.respOK env.schema [] efuel tn sel j = true → nodupKeys j = true →
        ∀ vfuel, vneed env tn sel + 1 ≤ vfuel →
          ∃ v, Pyd.validate penv vfuel (.cls cn) j = .ok v ∧ J.eqv (Pyd.dump v) j = true) :=
  C01_plain env cn tn sid sel st h


end Ariadne.C01
