/-
  C01 — Result models accept and preserve every conformant response.

  Model: Model/ResultTypes.lean (generator), Model/Marks.lean (document as sent), Spec/Pyd.lean (pydantic),
  Spec/Exec.lean (executor), Spec/Validate.lean (validity); the Boolean pipeline statement `claimB` is in Model/Claim01.lean.
  This file holds statements and final proofs; lemmas are in Proofs/ResultLeaf.lean, Proofs/C01Plain*.lean,
  Proofs/C01Abs*.lean, Proofs/C01Mix*.lean, Proofs/C01Unp*.lean, Proofs/C01Bridge*.lean; the decidable region predicates of the pipeline theorems
  are collected in Proofs/C01Regions.lean, C01RegionsUnp.lean (the compiled driver evaluates them on every sampled case: op `regions`).

  WHAT IS PROVED (kernel-checked, every input of the class, no bound on depth / width / list lengths):
    * `ann_accepts_conformant`: leaf-based field types, every wrapper nesting.
    * `object_selection_roundtrip` (class level) and `C01_partial_plain` (pipeline, `claimB`): PLAIN documents — fields only
      (leaf- or object-typed, aliases, `@skip/@include`), no fragments, no `__typename`; region = `PlainInput`.
    * `abstract_position_roundtrip` (class level; `_nofrags`: the statement without fragment definitions),
      `interface_position_partition`, `union_position_partition`, and `C01_partial_abstract` (pipeline, `claimB`): documents
      WITHOUT NAMED FRAGMENTS whose fields may be of object, INTERFACE or UNION type, with typed inline fragments (content =
      fields) and `__typename`; one class per variant, typename literals that partition the possible types, automatic
      `__typename` marks threaded over the operations; region = `AbsInput`.
    * `mixin_fragments_roundtrip` (class level) and `C01_partial_mixin` (pipeline, `claimB`): plain documents WITH NAMED
      FRAGMENTS USED AS MIXINS (a fragment on exactly the object type of the selection set, no inline fragment inside):
      inheritance from the fragment classes, fragments module, to any nesting depth; region = `MixInput`.
    * `C01_partial_mixabs` (pipeline, `claimB`; class level = `abstract_position_roundtrip`, whose region `C01Abs.AbsOK` was
      generalised): MIXINS COMBINED WITH ABSTRACT POSITIONS in one document — the abstract tier extended by spreads of named
      fragments wherever the class the spread lands in is on exactly the OBJECT type the fragment is defined on: directly in
      an object-typed selection set, or inside an inline fragment on that object type at an interface / union position
      (`node { id ... on User { ...UF } }`); fragment definitions as in the mixin tier; region = `MixAbsInput` ⊇ `AbsInput`.
    * `unpacked_fragments_roundtrip` (class level) and `C01_partial_unpacked` (pipeline, `claimB`): plain documents with named
      fragments ON AN INTERFACE spread in selection sets on OBJECT types implementing it — the generator UNPACKS them (their
      fields, and those of the fragments they spread, are merged into the class); by reduction to the plain tier on the inlined
      document (`C01Unp.inl`, `C01Unp.respOK_inl`); region = `UnpInput`.
    * `C01_full_false`, `F3…F9_fails_in_model`, `F12_fails_in_model`: the property is false on the pinned tree inside the
      finding regions.
  WHAT IS STATED BUT NOT PROVED (`C01_partial_statement`; covered by correspondence + oracle only):
    * unpacked fragments COMBINED with mixins or abstract positions (`UnpInput` is a tier over the plain one), fragments that
      are unpacked because they contain inline fragments, fragments used as mixins of a class on an INTERFACE, spreads at the top
      level of an abstract position (`node { ...UserFrag }`: a variant class per fragment type);
    * inside the tiers, what their predicates exclude: the same response key reached twice in one class — proved in the
      abstract / mixabs tiers for LEAF selections of the same field (`node { id ... on User { id } }`, `{ ...F id }` with `id` in
      `F`: `C01Abs.dupOK`), still excluded in the plain / mixin / unpacked tiers and inside ONE fragment definition —,
      `__typename` inside an inline fragment or a fragment definition, nested inline fragments, configured custom scalars,
      `@mixin`, covariant field types in implementing objects;
    * inputs outside the explicit decidable side conditions `schemaOK`, `NoShadowedImport` (finding C01-F11 region) and, for the
      fragment definitions of `MixAbsInput`, selection-set ids not shared with a marked operation position (`sidFree`; ids are
      unique in a parsed document).
  FOUND BY THE PROOFS (hypotheses the proofs forced, run against the real code, which violates the property there):
    C01-F10 (`__typename @skip/@include`), C01-F11 (a name bound twice in a result module), C01-F12 (a fragment on an object type
    met while the generator's root is an abstract type — forced by `C01_partial_mixabs`, whose region demands that a spread inside an
    inline fragment is on that inline fragment's own type).
-/
import AriadneModel.Proofs.ResultLeaf
import AriadneModel.Model.Triggers01
import AriadneModel.Model.Marks
import AriadneModel.Spec.Validate
import AriadneModel.Proofs.C01Plain
import AriadneModel.Model.Claim01
import AriadneModel.Proofs.C01BridgePlain
import AriadneModel.Proofs.C01Abs
import AriadneModel.Proofs.C01BridgeAbs
import AriadneModel.Proofs.C01AbsPartition
import AriadneModel.Proofs.C01BridgeMix
import AriadneModel.Proofs.C01BridgeMA
import AriadneModel.Proofs.C01BridgeUnp

set_option linter.unusedVariables false

namespace Ariadne.C01
open Ariadne Ariadne.Gql Ariadne.ResultTypes Ariadne.ResultLeaf Ariadne.Pyd

/-- The generator emits, for a field of leaf-based type `T` (scalar or enum under any nesting of
    list / non-null wrappers), an annotation that accepts every value a conformant executor can
    return at that position and dumps it back unchanged — for all types, values, list lengths. -/
theorem ann_accepts_conformant (genv : ResultTypes.Env) (penv : Pyd.Env) (ha : EnvAgrees genv penv)
    (T : TypeRef) (hl : LeafName genv T.base) (fuel : Nat) (sel : List Selection) (cn : String) (add : Bool) (ctx : Ctx)
    (j : J) (vfuel : Nat) (hf : need T ≤ vfuel) (hc : Exec.conforms genv.schema true T j = true) :
    ∃ a ctx', parseType genv fuel sel T true cn add ctx = .ok (a, ctx') ∧
      ∃ v, validate penv vfuel a j = .ok v ∧ dump v = j := by
  obtain ⟨ctx', h⟩ := parseType_leaf genv fuel sel T hl true cn add ctx
  exact ⟨_, ctx', h, validate_leaf_dump genv penv ha T hl true j vfuel hf hc⟩

/-- non-vacuity: a concrete schema, type and value meeting the hypotheses -/
def exSchema : Schema := { types := [{ name := "Color", kind := .enum, values := ["RED", "GREEN"] }], query := some "Query" }
def exGenv : ResultTypes.Env := { schema := exSchema, frags := [] }
example : Exec.conforms exSchema true (.list (.nonNull (.named "Color"))) (.arr [.str "RED", .str "GREEN"]) = true := by
  decide
example : LeafName exGenv "Color" := by
  refine ⟨Or.inr (Or.inr ?_), ?_⟩ <;> decide


/-! ### The property at full strength, on the whole model pipeline

`generate` (Model/ResultTypes) → classes; `Marks.applyMarks` → the document as sent; `Exec.respOK` →
what a conformant server may answer for it; `Pyd.validate`/`dump` → what the generated models do
with the answer. -/

open Ariadne.Triggers01

/-! `pydEnvOf`, `execFuel`, `claimB`, `ValidInput` are defined in Model/Claim01.lean (same namespace):
    `claimB inp k j` = generation of operation `k` succeeded and, IF `j` is an answer a conformant server can give
    for the document as SENT (`Exec.respOK` on `Marks.applyOp`), THEN the root model accepts it and dumps it back
    (`J.eqv`, i.e. up to member order).  `ValidInput inp` = `Validate.validDoc … = true`.

    A response is a decoded JSON object (a Python `dict`): its objects have no repeated keys, hereditarily
    (`C01Plain.nodupKeys`).  This is part of what "a response" means and therefore a hypothesis of every statement
    below; `old_literal_statement_false` records why it cannot be dropped in this model. -/

open Ariadne.C01Plain (nodupKeys)

/-- C01 at full strength (acceptance + serialising back; the attribute-exposure and
    class-per-runtime-type clauses are consequences checked by the oracle). -/
def C01_full : Prop := ∀ (inp : Input) (k : Nat) (j : J), ValidInput inp → nodupKeys j = true → claimB inp k j = true

/-- C01 outside the finding regions (`Supported_01` = no trigger predicate of Model/Triggers01.lean holds). -/
def C01_partial_statement : Prop :=
  ∀ (inp : Input) (k : Nat) (j : J), ValidInput inp → Supported_01 inp → nodupKeys j = true → claimB inp k j = true

/-! Witness of finding C01-F2: `query Q { me { id } me { friends { id } } }` -/

def wSchema : Schema :=
  { types := [
      { name := "Query", kind := .object, fields := [{ name := "me", type := .named "User" }] },
      { name := "User", kind := .object,
        fields := [{ name := "id", type := .nonNull (.named "ID") },
                   { name := "friends", type := .nonNull (.list (.nonNull (.named "User"))) }] }],
    query := some "Query" }

def wOp : Operation :=
  { kind := .query, name := some "Q", sid := 1,
    sel := [ .field none "me" [] 2 [.field none "id" [] 0 []],
             .field none "me" [] 3 [.field none "friends" [] 4 [.field none "id" [] 0 []]] ] }

def wInp : Input := { env := { schema := wSchema, frags := [] }, ops := [wOp] }

def wResp : J :=
  .obj [("me", .obj [("id", .str "1"), ("friends", .arr [.obj [("id", .str "2")]])])]

theorem witness_valid : ValidInput wInp := by decide +kernel
theorem witness_in_region : trigDupCompositeKey wInp = true := by decide +kernel
theorem witness_conformant :
    Exec.respOK wSchema [] execFuel "Query" wOp.sel wResp = true := by decide +kernel
theorem witness_fails : claimB wInp 0 wResp = false := by decide +kernel
theorem witness_nodup : nodupKeys wResp = true := by decide +kernel

/-- The property is false on the pinned tree (finding C01-F2; replayed on the real code by
    corpus/C01/F2-duplicate-composite-key.json on every run). -/
theorem C01_full_false : ¬ C01_full := by
  intro h
  have := h wInp 0 wResp witness_valid witness_nodup
  rw [witness_fails] at this
  exact absurd this (by decide)


def dupInp : Input :=
  { env := { schema := wSchema, frags := [] },
    ops := [{ kind := .query, name := some "Q", sid := 1, sel := [.field none "me" [] 2 [.field none "id" [] 0 []]] }] }
def dupResp : J := .obj [("me", .obj [("id", .str "1"), ("id", .str "2")])]

/-- MODELLING ARTEFACT, not a defect of the code: the statement WITHOUT `nodupKeys j` (as it read before) is false
    already on `query Q { me { id } }`, because `J` association lists may repeat a key — `Exec.respOK` judges the first
    binding, the dump has one member, `J.eqv` compares lengths.  A decoded response (a `dict`) cannot look like that. -/
theorem old_literal_statement_false :
    ¬ (∀ (inp : Input) (k : Nat) (j : J), ValidInput inp → Supported_01 inp → claimB inp k j = true) := by
  intro h
  have h1 : ValidInput dupInp := by decide +kernel
  have h2 : Supported_01 dupInp := by decide +kernel
  have h3 : claimB dupInp 0 dupResp = false := by decide +kernel
  have := h dupInp 0 dupResp h1 h2
  rw [h3] at this
  exact absurd this (by decide)


/-! Model-level witnesses of the other recorded findings (each is replayed on the REAL code from
    corpus/C01/ on every run; here: the model reproduces the defect and the input lies in the trigger region). -/

def w2Schema : Schema :=
  { types := [
      { name := "Query", kind := .object,
        fields := [{ name := "me", type := .named "User" }, { name := "node", type := .named "Node" }] },
      { name := "Node", kind := .interface, fields := [{ name := "id", type := .nonNull (.named "ID") }] },
      { name := "Named", kind := .interface, fields := [{ name := "name", type := .named "String" }] },
      { name := "User", kind := .object, interfaces := ["Node", "Named"],
        fields := [{ name := "id", type := .nonNull (.named "ID") }, { name := "name", type := .named "String" },
                   { name := "friends", type := .nonNull (.list (.nonNull (.named "User"))) },
                   { name := "pet", type := .named "Node" }] },
      { name := "Post", kind := .object, interfaces := ["Node"],
        fields := [{ name := "id", type := .nonNull (.named "ID") }, { name := "title", type := .nonNull (.named "String") }] }],
    query := some "Query" }

def fld (name : String) (sid : Nat := 0) (sub : List Selection := []) : Selection := .field none name [] sid sub
def inc : Directive := { name := "include", args := [("if", none)] }
def mkQ (sel : List Selection) : Operation := { kind := .query, name := some "Q", sid := 1, sel := sel }
def mkInp (frags : List Fragment) (sel : List Selection) : Input :=
  { env := { schema := w2Schema, frags := frags }, ops := [mkQ sel] }
def mkF (name on : String) (sid : Nat) (sel : List Selection) : Fragment := { name := name, on := on, sid := sid, sel := sel }

/-- F3: `query Q($f: Boolean!) { me { id ... on User @include(if: $f) { friends { id } } } }`, answered with `$f = false` -/
def w3 : Input := mkInp []
  ([fld "me" 2 [fld "id", .inline (some "User") [inc] 3 [fld "friends" 4 [fld "id"]]]])
def w3Resp : J := .obj [("me", .obj [("id", .str "1")])]
theorem F3_in_region : trigDirOnFragment w3 = true := by decide +kernel
theorem F3_fails_in_model : ValidInput w3 ∧ nodupKeys w3Resp = true ∧ claimB w3 0 w3Resp = false := by decide +kernel

/-- F4: `query Q { me { ...UF } }  fragment UF on User { id pet { id } }` — the fragment is inherited, its text is sent
    without `__typename`, its class demands it -/
def w4 : Input := mkInp [mkF "UF" "User" 5 [fld "id", fld "pet" 6 [fld "id"]]]
  ([fld "me" 2 [.spread "UF" []]])
def w4Resp : J := .obj [("me", .obj [("id", .str "1"), ("pet", .obj [("id", .str "2")])])]
theorem F4_in_region : trigMixinAbstractField w4 (run w4) = true := by decide +kernel
theorem F4_fails_in_model : ValidInput w4 ∧ nodupKeys w4Resp = true ∧ claimB w4 0 w4Resp = false := by decide +kernel

/-- F5: `query Q { node { ... on Named { name } } }` — the inline fragment on the other interface is ignored -/
def w5 : Input := mkInp []
  ([fld "node" 2 [.inline (some "Named") [] 3 [fld "name"]]])
def w5Resp : J := .obj [("node", .obj [("__typename", .str "User"), ("name", .str "n")])]
theorem F5_in_region : trigDroppedSelection w5.env.schema (run w5) = true := by decide +kernel
theorem F5_fails_in_model : ValidInput w5 ∧ nodupKeys w5Resp = true ∧ claimB w5 0 w5Resp = false := by decide +kernel

/-- F7: `query Q { me { ... { id } } }` — AttributeError in the generator -/
def w7 : Input := mkInp []
  ([fld "me" 2 [.inline none [] 3 [fld "id"]]])
theorem F7_in_region : trigInlineNoType w7 = true := by decide +kernel
theorem F7_fails_in_model : ValidInput w7 ∧ claimB w7 0 (.obj [("me", .null)]) = false := by decide +kernel

/-- F9 (= C08-F1): `query Q { node { ...NF ... on User { name } } }  fragment NF on Node { id }` — `NF` is a base of the
    interface class and unpacked into the `User` class, hence excluded from the fragments module -/
def w9 : Input := mkInp [mkF "NF" "Node" 5 [fld "id"]]
  ([fld "node" 2 [.spread "NF" [], .inline (some "User") [] 3 [fld "name"]]])
def w9Resp : J := .obj [("node", .obj [("__typename", .str "Post"), ("id", .str "7")])]
theorem F9_in_region : trigMixinAndUnpacked (run w9) = true := by decide +kernel
theorem F9_fails_in_model : ValidInput w9 ∧ nodupKeys w9Resp = true ∧ claimB w9 0 w9Resp = false := by decide +kernel

/-- F12 (found by the proof of `C01_partial_mixabs`, whose region demands that a spread inside an inline fragment is on the very
    type of that inline fragment): `query Q { me { ... on Node { ...UF } } }  fragment UF on User { name }` — below the inline
    fragment the generator resolves with root `Node`, where the fragment on the object type `User` is dropped -/
def w12 : Input := mkInp [mkF "UF" "User" 5 [fld "name"]]
  ([fld "me" 2 [.inline (some "Node") [] 3 [.spread "UF" []]]])
def w12Resp : J := .obj [("me", .obj [("name", .str "n")])]
theorem F12_in_region : trigObjectInAbstract w12 (run w12) = true := by decide +kernel
theorem F12_fails_in_model : ValidInput w12 ∧ nodupKeys w12Resp = true ∧ claimB w12 0 w12Resp = false := by decide +kernel

/-! Non-vacuity of the partial statement: a supported input on which the claim holds for a non-trivial answer
    (interface position, inline fragments on two members, nullable list of non-null objects). -/
def wOk : Input := mkInp []
  ([fld "node" 2 [fld "id", .inline (some "User") [] 3 [fld "name", fld "friends" 4 [fld "id"]],
                                  .inline (some "Post") [] 5 [fld "title"]]])
def wOkResp : J := .obj [("node", .obj [("__typename", .str "User"), ("id", .str "1"), ("name", .null),
  ("friends", .arr [.obj [("id", .str "2")], .obj [("id", .str "3")]])])]
example : ValidInput wOk ∧ Supported_01 wOk ∧ claimB wOk 0 wOkResp = true
    ∧ Exec.respOK w2Schema [] execFuel "Query" (Marks.applySels (marksAfter (run wOk).ops) ((wOk.ops.map (·.sel)).flatten)) wOkResp = true := by
  decide +kernel


/-! ### The plain-selection tier, proved (Proofs/C01Plain*.lean)

For every selection set made of fields only (aliases, `@skip/@include`, any nesting depth, every wrapper
nesting, leaf- or object-typed fields), evaluated on an object type, under the decidable well-formedness
predicate `PlainOK` (distinct response keys / Python names / class names, fields exist, no `@mixin`):
the generator model succeeds for all sufficiently large fuel, and EVERY answer a conformant executor can
give (`Exec.respOK`, objects without repeated keys) is accepted by the root class and dumped back
(order-insensitively).  No bound on depth, width, list lengths. -/

open Ariadne.C01Plain in
theorem object_selection_roundtrip (env : ResultTypes.Env) (cn tn : String) (sid : Nat) (sel : List Selection) (st : St)
    (h : PlainOK env cn tn sid sel st = true) :
    ∃ classes : List ClassDecl,
      (∀ fuel, gfuel sel ≤ fuel →
        ∃ st', parseTypeDefinition env fuel cn tn sid sel false [] [] st = .ok (classes, st')) ∧
      classes.head?.map (·.name) = some cn ∧
      (∀ (penv : Pyd.Env), PenvOK env penv classes →
        ∀ (efuel : Nat) (j : J), Exec.respOK env.schema [] efuel tn sel j = true → nodupKeys j = true →
        ∀ vfuel, vneed env tn sel + 1 ≤ vfuel →
          ∃ v, Pyd.validate penv vfuel (.cls cn) j = .ok v ∧ J.eqv (Pyd.dump v) j = true) :=
  C01_plain env cn tn sid sel st h


/-! ### The abstract-positions tier, proved (Proofs/C01Abs*.lean)

Extends the plain tier by fields of INTERFACE and UNION type (any wrappers), typed inline fragments (content = fields) in
every selection set, and `__typename` — nested to any depth, ONE induction over selections and variants.
At every composite position the generator emits one class per VARIANT (`C01Abs.relatedOf`: the object type; the interface
plus one class per inline-fragment type condition; every union member); an abstract position gets the automatic `__typename`
unless it selects one (`C01Abs.needSids` = exactly the selection sets the generator marks); every answer `Exec.respOK` allows
for the document AS SENT (`Marks.applySels` with those marks) is validated by the first variant whose `typename__` literal
contains the runtime type, and dumped back.  Hypothesis: the decidable `C01Abs.AbsOK` (what it demands and why: header of
Proofs/C01Abs.lean).  Non-vacuity: `C01Abs.axSel` (interface with two fragments, list of union, plain-in-abstract-in-plain). -/

open Ariadne.C01Abs in
theorem abstract_position_roundtrip (env : ResultTypes.Env) (K F : Nat) (hfr : C01Mix.FragsOK env K) (cn tn : String) (sid : Nat)
    (sel : List Selection) (st : St)
    (h : AbsOK env cn tn sid sel st = true) :
    ∃ classes : List ClassDecl,
      (∀ fuel, agfuel sel ≤ fuel →
        ∃ st', parseTypeDefinition env fuel cn tn sid sel false [] [] st = .ok (classes, st') ∧
          ∀ m, m ∈ st'.marks ↔ m ∈ sentMarks env cn tn sel st) ∧
      classes.head?.map (·.name) = some cn ∧
      (∀ (penv : Pyd.Env), GH env penv K F → (∀ c ∈ classes, penv.class? c.name = some c) →
        ∀ (efuel : Nat), agfuel sel + K ≤ efuel →
        ∀ (j : J), Exec.respOK env.schema env.frags efuel tn (Marks.applySels (sentMarks env cn tn sel st) sel) j = true →
        nodupKeys j = true →
        ∀ vfuel, avneed env cn tn sel + 4 + F ≤ vfuel →
          ∃ v, Pyd.validate penv vfuel (.cls cn) j = .ok v ∧ J.eqv (Pyd.dump v) j = true) :=
  C01_abs env K F hfr cn tn sid sel st h

/-- the same without fragment definitions (the statement as it read before the tier was extended by mixin spreads):
    `PenvOK` = the environment agrees with the schema on enums, knows the classes, has no class `BaseModel` -/
theorem abstract_position_roundtrip_nofrags (env : ResultTypes.Env) (hfr0 : env.frags = []) (cn tn : String) (sid : Nat)
    (sel : List Selection) (st : St) (h : C01Abs.AbsOK env cn tn sid sel st = true) :
    ∃ classes : List ClassDecl,
      (∀ fuel, C01Abs.agfuel sel ≤ fuel →
        ∃ st', parseTypeDefinition env fuel cn tn sid sel false [] [] st = .ok (classes, st') ∧
          ∀ m, m ∈ st'.marks ↔ m ∈ C01Abs.sentMarks env cn tn sel st) ∧
      classes.head?.map (·.name) = some cn ∧
      (∀ (penv : Pyd.Env), C01Plain.PenvOK env penv classes →
        ∀ (efuel : Nat), C01Abs.agfuel sel ≤ efuel →
        ∀ (j : J), Exec.respOK env.schema [] efuel tn (Marks.applySels (C01Abs.sentMarks env cn tn sel st) sel) j = true →
        nodupKeys j = true →
        ∀ vfuel, C01Abs.avneed env cn tn sel + 4 ≤ vfuel →
          ∃ v, Pyd.validate penv vfuel (.cls cn) j = .ok v ∧ J.eqv (Pyd.dump v) j = true) := by
  have hfr : C01Mix.FragsOK env 0 := by intro f hf; rw [hfr0] at hf; cases hf
  obtain ⟨classes, h1, h2, h3⟩ := C01Abs.C01_abs env 0 0 hfr cn tn sid sel st h
  refine ⟨classes, h1, h2, fun penv hp efuel hef j hresp hj vfuel hv => ?_⟩
  have hne : penv.classes ≠ [] := by
    intro hc
    cases hcl : classes with
    | nil => rw [hcl] at h2; simp at h2
    | cons c cs =>
      have := hp.has c (by rw [hcl]; exact List.mem_cons_self)
      simp [Pyd.Env.class?, hc] at this
  exact h3 penv (C01Abs.GH.of_nofrags env penv hfr0 hp.agrees hp.noBaseModel hne) hp.has efuel (by omega) j
    (by rw [hfr0]; exact hresp) hj vfuel (by omega)

/-- `abstract_position_discriminates`, part "the literals partition the possible types" — interface position `n` (classes
    prefixed `C`) whose sub-selection has inline fragments on OBJECT types: a possible type `rt` is in the `typename__` literal
    of the fragment class on `rt` and of no other fragment class, and it is in the literal of the base class ("the rest") iff no
    inline fragment names it.  (That the answer of runtime type `rt` is validated by the first variant whose literal contains
    `rt` is part of `abstract_position_roundtrip`: Proofs/C01AbsVal.lean `tagged_rt`.) -/
theorem interface_position_partition (env : ResultTypes.Env) (C n : String) (sub : List Selection)
    (hk : env.schema.kindOf? n = some .interface) (hne : (C01Abs.inlConds sub).isEmpty = false)
    (hobj : ∀ c ∈ C01Abs.inlConds sub, env.schema.kindOf? c = some .object)
    (rt : String) (hrt : rt ∈ env.schema.possibleTypes n) (hrn : rt ≠ n) :
    (rt ∈ C01Abs.tvOf env (C01Abs.relatedOf env C n sub) n ↔ rt ∉ C01Abs.inlConds sub) ∧
    (∀ c ∈ Util.sortedSet (C01Abs.inlConds sub), (rt ∈ C01Abs.tvOf env (C01Abs.relatedOf env C n sub) c ↔ rt = c)) :=
  C01Abs.interface_literals_partition env C n sub hk hne hobj rt hrt hrn

/-- … and at a union position: one variant per member `m`, with literal `["m"]` -/
theorem union_position_partition (env : ResultTypes.Env) (C n : String) (sub : List Selection) (t : TypeDef)
    (hg : env.schema.get? n = some t) (hk : t.kind = .union) (hobj : ∀ m ∈ t.members, env.schema.isAbstract m = false) :
    C01Abs.relatedOf env C n sub = t.members.map (fun m => (C ++ m, m)) ∧
    ∀ m ∈ t.members, C01Abs.tvOf env (C01Abs.relatedOf env C n sub) m = [m] :=
  C01Abs.union_literals env C n sub t hg hk hobj

/-- non-vacuity of both: the interface position `node { id ... on User {..} ... on Post {..} }` and the union position `search`
    of `C01Abs.axSel` -/
example : C01Abs.axEnv.schema.kindOf? "Node" = some .interface
    ∧ C01Abs.inlConds [.inline (some "User") [] 3 [], .inline (some "Post") [] 5 []] = ["User", "Post"]
    ∧ C01Abs.axEnv.schema.possibleTypes "Node" = ["User", "Post"]
    ∧ (C01Abs.axEnv.schema.get? "SearchResult").map (·.members) = some ["User", "Post"] := by decide +kernel

/-! ### The plain tier on the whole pipeline, proved (Proofs/C01Bridge.lean, C01BridgePlain.lean)

`PlainInput inp` (decidable, Proofs/C01BridgePlain.lean): no fragment definitions; `schemaOK` (type names pairwise
distinct, no enum called `str`/`int`/`float`/`bool`/`Any`, built-in scalar names not redefined); every operation has a
name and a root type, no `@mixin`, satisfies `PlainOK` for its root class in the empty generator state, generates no
class called `BaseModel`, and meets the two fuel bounds `gfuel sel ≤ 100000` (generator) and `vneed … + 1 ≤ execFuel`
(validation).  `ValidInput` is kept as a hypothesis for uniformity; `PlainInput` alone implies what the proof uses.
In this region the generator inserts no automatic `__typename` (the marks stay empty for every operation), the document is
sent as written, and `claimB` holds for EVERY operation index and EVERY duplicate-free payload. -/

theorem C01_partial_plain : ∀ (inp : Input) (k : Nat) (j : J),
    ValidInput inp → PlainInput inp → nodupKeys j = true → claimB inp k j = true :=
  fun inp k j _ hp hj => claimB_plain inp k j hp hj

/-- non-vacuity (`plInp`, Proofs/C01BridgePlain.lean): two operations over the schema of Proofs/C01Plain.lean; the answer of
    the first has a nested list with a `null` element, aliases, an enum leaf and an absent conditional field -/
example : ValidInput plInp ∧ PlainInput plInp ∧ nodupKeys C01Plain.exResp = true
    ∧ Exec.respOK plInp.env.schema [] execFuel "Query" C01Plain.exSel C01Plain.exResp = true
    ∧ claimB plInp 0 C01Plain.exResp = true := plInp_nonvacuous

/-! ### The abstract-positions tier on the whole pipeline, proved (Proofs/C01BridgeAbs.lean)

`AbsInput inp` (decidable): no fragment definitions; `schemaOK`; `NoCondTypename` (no `__typename @skip/@include` — the trigger of
the new finding; implied for operations by `AbsOK`, named so that it can be replaced by `Supported_01` once the trigger exists);
the operations IN ORDER with the marks threaded as the package generator does (`absOpsOK`): each has a name and a root type, no
`@mixin`, satisfies `C01Abs.AbsOK` in the generator state left by its predecessors, `NoShadowedImport`, and the fuel bounds
(`agfuel ≤ 100000` generator, `agfuel ≤ execFuel` executor, `avneed + 4 ≤ execFuel` validation).  The answer is judged against the
document AS SENT after operations `0..k` (the accumulated `__typename` marks).  `PlainInput ⊆ AbsInput` in spirit (the plain tier
is the marks-free special case); both theorems are kept. -/

theorem C01_partial_abstract : ∀ (inp : Input) (k : Nat) (j : J),
    ValidInput inp → AbsInput inp → nodupKeys j = true → claimB inp k j = true :=
  fun inp k j _ hp hj => claimB_abs inp k j hp hj

/-- non-vacuity (`abInp`, Proofs/C01BridgeAbs.lean): two operations, both with abstract positions (interface with inline
    fragments, list of union, interface below an object below an interface); the marks accumulate over the operations; the answer
    of the first is conformant for the document as sent -/
example : ValidInput abInp ∧ AbsInput abInp ∧ nodupKeys C01Abs.axResp = true
    ∧ marksAfter ((run abInp).ops.take 1) = [2, 7] ∧ marksAfter ((run abInp).ops.take 2) = [2, 7, 21, 24]
    ∧ Exec.respOK abInp.env.schema [] execFuel "Query" (Marks.applySels [2, 7] C01Abs.axSel) C01Abs.axResp = true
    ∧ claimB abInp 0 C01Abs.axResp = true := abInp_nonvacuous

/-! ### Named fragments used as mixins, proved (Proofs/C01Mix*.lean, C01BridgeMix.lean)

The plain tier extended by spreads `...F` of a fragment defined on exactly the (object) type of the selection set and free of
inline fragments: the generator does not unpack such a fragment, the class of the selection set INHERITS from the class
generated for `F` in the fragments module and declares only its own fields; fragments spread fragments, and their composite
fields spread fragments again, to any depth.  `mixin_fragments_roundtrip` (class level): generation returns `C01Mix.mClass`
(bases = the spread fragments, sorted), nothing is unpacked, no mark is added; every answer a conformant executor gives — it
resolves the spreads with the fragment definitions — is accepted by the class, whose fields pydantic gathers along the
inheritance chain, and dumped back.  `C01_partial_mixin`: the same on `claimB` (all operations, the fragments module =
classes of ALL fragment definitions, `pydEnvOf`).  Regions: `C01Mix.MixOK` / `C01Mix.FragsOK`, `MixInput` (decidable; what they
demand and why: headers of Proofs/C01Mix.lean, C01BridgeMix.lean; notably per class the response keys / Python names of ALL
field nodes, own and inherited, are pairwise distinct). -/

open Ariadne.C01Mix in
theorem mixin_fragments_roundtrip (env : ResultTypes.Env) (K : Nat) (hfr : FragsOK env K) (cn tn : String) (sid : Nat)
    (sel : List Selection) (st : St) (h : MixOK env K cn tn sel = true) (hmarks : st.marks = [])
    (hnd : ((mClass env cn tn sel).map (·.name)).Nodup)
    (hfresh : ∀ n ∈ (mClass env cn tn sel).map (·.name), n ∉ st.publicNames) :
    (∀ fuel, C01Plain.gfuel sel ≤ fuel →
      ∃ st', parseTypeDefinition env fuel cn tn sid sel false [] [] st = .ok (mClass env cn tn sel, st') ∧
        st'.marks = [] ∧ st'.unpacked = st.unpacked) ∧
    (∀ (penv : Pyd.Env), ResultLeaf.EnvAgrees env penv → penv.class? "BaseModel" = none →
      (∀ c ∈ mClass env cn tn sel, penv.class? c.name = some c) → FragsIn env penv → fragDepth env ≤ penv.clsFuel →
      ∀ (efuel : Nat), K ≤ efuel →
      ∀ (j : J), Exec.respOK env.schema env.frags efuel tn sel j = true → nodupKeys j = true →
      ∀ vfuel, mneed env K tn sel + 1 ≤ vfuel →
        ∃ v, Pyd.validate penv vfuel (.cls cn) j = .ok v ∧ J.eqv (Pyd.dump v) j = true) := by
  refine ⟨fun fuel hf => ?_, fun penv ha hbm hcls hF hK efuel hef j hresp hj vfuel hv =>
    mix_roundtrip env K hfr cn tn sel h penv ha hbm hcls hF hK efuel hef j hresp hj vfuel hv⟩
  obtain ⟨st', h1, _, h3, h4⟩ := mix_generation env K hfr cn tn sid sel st h (by rw [hmarks]; rfl)
    (by rw [hmarks]; exact sidFree_nil _) hnd hfresh fuel hf
  exact ⟨st', h1, by rw [h3, hmarks], h4⟩

theorem C01_partial_mixin : ∀ (inp : Input) (k : Nat) (j : J),
    ValidInput inp → MixInput inp → nodupKeys j = true → claimB inp k j = true :=
  fun inp k j _ hp hj => claimB_mix inp k j hp hj

/-- non-vacuity (`mxInp`, Proofs/C01BridgeMix.lean): `fragment UG on User { ...UF friends { ...UF } }`, `fragment UF on User
    { id name }`, `query Q { me { ...UG } }`, `query R { again: me { ...UF } }` -/
example : ValidInput mxInp ∧ MixInput mxInp ∧ nodupKeys mxResp = true
    ∧ (fragModule mxInp.env).map (fun c => (c.name, c.bases)) = [("UF", ["BaseModel"]), ("UG", ["UF"]), ("UGFriends", ["UF"])]
    ∧ Exec.respOK mxSchema mxInp.env.frags execFuel "Query" [.field none "me" [] 2 [.spread "UG" []]] mxResp = true
    ∧ claimB mxInp 0 mxResp = true := mxInp_nonvacuous


/-! ### Mixins COMBINED with abstract positions, proved (Proofs/C01Abs*.lean generalised, Proofs/C01BridgeMA.lean)

The abstract-positions tier and the mixin tier compose: the region of the abstract tier (`C01Abs.aSel1`) now also admits a spread
`...G` of a named fragment `G` wherever the class it lands in is on exactly the OBJECT type `G` is defined on — directly in an
object-typed selection set (`me { ...UF pet { id } }`, `author { ...UG }` below an inline fragment), or inside an inline fragment
on that object type at an interface / union position (`node { id ... on User { ...UF } }`) — while the fragment definitions are
those of the mixin tier (`C01Mix.fragOK`: plain content, further mixin spreads, any depth).  The class then INHERITS from the
fragment's class and declares its own fields, among them `typename__: Literal[..]` and the discriminated unions of its abstract
fields.  The class-level theorem is `abstract_position_roundtrip` above (one induction over selections, variants and — through
`C01Mix.val_spec` — fragment classes); on the pipeline: the operations in order with the marks threaded, the fragments module
= classes of ALL fragment definitions generated with the accumulated marks (which never touch a fragment: `C01Mix.sidFree`),
nothing unpacked, the fragments sent as written.  Region `MixAbsInput` (decidable; header of Proofs/C01BridgeMA.lean).
`AbsInput` is the special case without fragment definitions; `MixInput` documents whose operations satisfy `AbsOK` are covered too. -/

theorem C01_partial_mixabs : ∀ (inp : Input) (k : Nat) (j : J),
    ValidInput inp → MixAbsInput inp → nodupKeys j = true → claimB inp k j = true :=
  fun inp k j _ hp hj => claimB_mixabs inp k j hp hj

/-- non-vacuity (`maInp`, Proofs/C01BridgeMA.lean):
    `query Q { node { id ... on User { ...UF } ... on Post { title author { ...UG } } } me { ...UF pet { __typename id } } }`,
    `query R { again: node { ... on Post { author { ...UG pet { id } } } } }`,
    `fragment UF on User { name friends { ...UG } }`, `fragment UG on User { id }` — outside every finding region -/
example : ValidInput maInp ∧ MixAbsInput maInp ∧ Supported_01 maInp ∧ nodupKeys maResp = true
    ∧ marksAfter ((run maInp).ops.take 2) = [2, 21, 24]
    ∧ Exec.respOK maSchema maInp.env.frags execFuel "Query" (Marks.applySels [2] maSel) maResp = true
    ∧ claimB maInp 0 maResp = true :=
  ⟨maInp_nonvacuous.1, maInp_nonvacuous.2.1, maInp_nonvacuous.2.2.1, maInp_nonvacuous.2.2.2.1,
   maInp_nonvacuous.2.2.2.2.2.2.2.1, maInp_nonvacuous.2.2.2.2.2.2.2.2.1, maInp_nonvacuous.2.2.2.2.2.2.2.2.2⟩



/-- non-vacuity with response keys reached SEVERAL times (`maDupInp`): `query Q { node { id ... on User { id ...UF } } me { ...UF name } }`,
    `fragment UF on User { id name }` — the class `QNodeUser(UF)` declares `id` twice and inherits it a third time -/
example : ValidInput maDupInp ∧ MixAbsInput maDupInp ∧ Supported_01 maDupInp ∧ nodupKeys maDupResp = true
    ∧ claimB maDupInp 0 maDupResp = true :=
  ⟨maDupInp_nonvacuous.1, maDupInp_nonvacuous.2.1, maDupInp_nonvacuous.2.2.1, maDupInp_nonvacuous.2.2.2.1,
   maDupInp_nonvacuous.2.2.2.2.2.2⟩

/-! ### Named fragments that the generator UNPACKS, proved (Proofs/C01Unp*.lean, C01BridgeUnp.lean)

The plain tier extended by spreads `...F` of a fragment defined on an INTERFACE, in a selection set evaluated on an OBJECT type that
implements the interface: `_unpack_fragment` answers "unpack", `_resolve_selection_set` resolves `F`'s selections with the SAME
root, and the fields of `F` — and of the fragments `F` spreads, to any depth — are merged into the class of the selection set.
`unpacked_fragments_roundtrip` (class level): generation returns the plain tier's classes of the INLINED document (`C01Unp.inl`),
adds no mark, records every fragment met in `_unpacked_fragments`; every answer a conformant executor gives for the document WITH
the spreads is an answer for the inlined document (`C01Unp.respOK_inl`: CollectFields applies the interface fragment to the
implementing object), hence accepted and dumped back by the plain tier's theorem.  `C01_partial_unpacked`: the same on `claimB`
(every fragment definition is unpacked by some operation, so `package.py` leaves its classes out of the fragments module; the
document is sent as written).  Regions: `C01Unp.UnpOK`, `UnpInput` (decidable; headers of Proofs/C01Unp.lean, C01RegionsUnp.lean). -/

open Ariadne.C01Unp in
theorem unpacked_fragments_roundtrip (env : ResultTypes.Env) (k : Nat) (cn tn : String) (sid : Nat) (sel : List Selection) (st : St)
    (h : UnpOK env k cn tn sid sel st = true) :
    (∀ fuel, 2 * k + 2 ≤ fuel →
      ∃ st', parseTypeDefinition env fuel cn tn sid sel false [] [] st = .ok (C01Plain.plainClasses env cn tn (inl env k sel), st') ∧
        st'.marks = st.marks ∧ (∀ n ∈ reach env k sel, n ∈ st'.unpacked)) ∧
    (∀ (penv : Pyd.Env), C01Plain.PenvOK env penv (C01Plain.plainClasses env cn tn (inl env k sel)) →
      ∀ (efuel : Nat), k ≤ efuel →
      ∀ (j : J), Exec.respOK env.schema env.frags efuel tn sel j = true → nodupKeys j = true →
      ∀ vfuel, C01Plain.vneed env tn (inl env k sel) + 1 ≤ vfuel →
        ∃ v, Pyd.validate penv vfuel (.cls cn) j = .ok v ∧ J.eqv (Pyd.dump v) j = true) := by
  refine ⟨fun fuel hf => ?_, fun penv hp efuel hk j hresp hj vfuel hv =>
    unp_roundtrip env k cn tn sid sel st h penv hp efuel hk j hresp hj vfuel hv⟩
  obtain ⟨st', h1, _, h3, _, h5⟩ := unp_generation env k cn tn sid sel st h [] fuel hf
  exact ⟨st', h1, h3, h5⟩

theorem C01_partial_unpacked : ∀ (inp : Input) (k : Nat) (j : J),
    ValidInput inp → UnpInput inp → nodupKeys j = true → claimB inp k j = true :=
  fun inp k j _ hp hj => claimB_unp inp k j hp hj

/-- non-vacuity (`uxInp`, Proofs/C01BridgeUnp.lean): `query Q { me { ...NF name bestFriend { ...NM ...NG } } }`,
    `query R { again: me { ...NM } }`, `fragment NF on Node { id ...NG }`, `fragment NG on Node { rev }`,
    `fragment NM on Named { nick }` — outside every finding region; all three fragments are unpacked -/
example : ValidInput uxInp ∧ UnpInput uxInp ∧ Supported_01 uxInp ∧ nodupKeys uxResp = true
    ∧ Exec.respOK uxInp.env.schema uxInp.env.frags execFuel "Query" C01Unp.uxSel uxResp = true
    ∧ claimB uxInp 0 uxResp = true :=
  ⟨uxInp_nonvacuous.1, uxInp_nonvacuous.2.1, uxInp_nonvacuous.2.2.1, uxInp_nonvacuous.2.2.2.1,
   uxInp_nonvacuous.2.2.2.2.2.1, uxInp_nonvacuous.2.2.2.2.2.2⟩


end Ariadne.C01
