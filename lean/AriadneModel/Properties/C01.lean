/-
  C01 — Result models accept and preserve every conformant response.

  Model: Model/ResultTypes.lean (generator), Spec/Pyd.lean (pydantic), Spec/Exec.lean (executor).
  This file holds statements and final proofs; lemmas are in Proofs/ResultLeaf.lean.

  Tiers (DESIGN.md §3 C01):
    * `ann_accepts_conformant`  (proved, unbounded): leaf-based field types, every wrapper nesting.
    * class level / selections: see the bottom of this file for what is stated, what is proved and
      what is still covered by correspondence + oracle only.
-/
import AriadneModel.Proofs.ResultLeaf
import AriadneModel.Model.Triggers01

set_option linter.unusedVariables false

namespace Ariadne.C01
open Ariadne Ariadne.Gql Ariadne.ResultTypes Ariadne.ResultLeaf Ariadne.Pyd

/-- The generator emits, for a field of leaf-based type `T` (scalar or enum under any nesting of
    list / non-null wrappers), an annotation that accepts every value a conformant executor can
    return at that position and dumps it back unchanged — for all types, values, list lengths. -/
theorem ann_accepts_conformant (genv : ResultTypes.Env) (penv : Pyd.Env) (ha : EnvAgrees genv penv)
    (T : TypeRef) (hl : LeafName genv T.base) (fuel : Nat) (sel : List Selection) (cn : String) (add : Bool) (ctx : Ctx)
    (j : J) (vfuel : Nat) (hf : need T ≤ vfuel) (hc : Exec.conforms genv.schema true T j = true) :
    ∃ a ctx', parseType genv fuel sel T true cn add ctx = .ok (a, ctx') ∧
      ∃ v, validate penv vfuel a j = .ok v ∧ dump v = j := by
  obtain ⟨ctx', h⟩ := parseType_leaf genv fuel sel T hl true cn add ctx
  exact ⟨_, ctx', h, validate_leaf_dump genv penv ha T hl true j vfuel hf hc⟩

/-- non-vacuity: a concrete schema, type and value meeting the hypotheses -/
def exSchema : Schema := { types := [{ name := "Color", kind := .enum, values := ["RED", "GREEN"] }], query := some "Query" }
def exGenv : ResultTypes.Env := { schema := exSchema, frags := [] }
example : Exec.conforms exSchema true (.list (.nonNull (.named "Color"))) (.arr [.str "RED", .str "GREEN"]) = true := by
  decide
example : LeafName exGenv "Color" := by
  refine ⟨Or.inr (Or.inr ?_), ?_⟩ <;> decide

end Ariadne.C01
