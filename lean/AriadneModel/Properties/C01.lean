/-
  C01 — Result models accept and preserve every conformant response.

  Model: Model/ResultTypes.lean (generator), Model/Marks.lean (document as sent), Spec/Pyd.lean (pydantic),
  Spec/Exec.lean (executor), Spec/Validate.lean (validity); the Boolean pipeline statement `claimB` is in Model/Claim01.lean.
  This file holds statements and final proofs; lemmas are in Proofs/ResultLeaf.lean, Proofs/C01Plain*.lean,
  Proofs/C01Abs*.lean, Proofs/C01Mix*.lean, Proofs/C01Bridge*.lean.

  WHAT IS PROVED (kernel-checked, every input of the class, no bound on depth / width / list lengths):
    * `ann_accepts_conformant`: leaf-based field types, every wrapper nesting.
    * `object_selection_roundtrip` (class level) and `C01_partial_plain` (pipeline, `claimB`): PLAIN documents — fields only
      (leaf- or object-typed, aliases, `@skip/@include`), no fragments, no `__typename`; region = `PlainInput`.
    * `abstract_position_roundtrip` (class level), `interface_position_partition`, `union_position_partition`, and
      `C01_partial_abstract` (pipeline, `claimB`): documents WITHOUT NAMED FRAGMENTS whose fields may be of object, INTERFACE or
      UNION type, with typed inline fragments (content = fields) and `__typename`; one class per variant, typename literals that
      partition the possible types, automatic `__typename` marks threaded over the operations; region = `AbsInput`.
    * `mixin_fragments_roundtrip` (class level) and `C01_partial_mixin` (pipeline, `claimB`): plain documents WITH NAMED
      FRAGMENTS USED AS MIXINS (a fragment on exactly the object type of the selection set, no inline fragment inside):
      inheritance from the fragment classes, fragments module, to any nesting depth; region = `MixInput`.
    * `C01_full_false`, `F3…F9_fails_in_model`: the property is false on the pinned tree inside the finding regions.
  WHAT IS STATED BUT NOT PROVED (`C01_partial_statement`; covered by correspondence + oracle only):
    * named fragments that the generator UNPACKS (a fragment on another type than the position: on an interface at an object
      position, on an object at an abstract position, a fragment containing inline fragments), and mixins COMBINED with
      abstract positions or inline fragments in one document (the two tiers are separate regions);
    * inside the tiers, what their predicates exclude: the same response key reached twice in one class
      (`node { id ... on User { id } }`, `{ ...F id }` with `id` in `F`), `__typename` inside an inline fragment, nested inline
      fragments, configured custom scalars, `@mixin`, covariant field types in implementing objects;
    * inputs outside the explicit decidable side conditions `schemaOK`, `NoShadowedImport`, `NoCondTypename` — each of these is
      a DEFECT REGION found while proving (see the comments at their definitions in Proofs/C01Bridge*.lean), not yet a trigger
      of Model/Triggers01.lean; until it is, `C01_partial_statement` is false as stated (witness reported to the owner).
-/
import AriadneModel.Proofs.ResultLeaf
import AriadneModel.Model.Triggers01
import AriadneModel.Model.Marks
import AriadneModel.Spec.Validate
import AriadneModel.Proofs.C01Plain
import AriadneModel.Model.Claim01
import AriadneModel.Proofs.C01BridgePlain
import AriadneModel.Proofs.C01Abs
import AriadneModel.Proofs.C01BridgeAbs
import AriadneModel.Proofs.C01AbsPartition
import AriadneModel.Proofs.C01BridgeMix

set_option linter.unusedVariables false

namespace Ariadne.C01
open Ariadne Ariadne.Gql Ariadne.ResultTypes Ariadne.ResultLeaf Ariadne.Pyd

/-- The generator emits, for a field of leaf-based type `T` (scalar or enum under any nesting of
    list / non-null wrappers), an annotation that accepts every value a conformant executor can
    return at that position and dumps it back unchanged — for all types, values, list lengths. -/
theorem ann_accepts_conformant (genv : ResultTypes.Env) (penv : Pyd.Env) (ha : EnvAgrees genv penv)
    (T : TypeRef) (hl : LeafName genv T.base) (fuel : Nat) (sel : List Selection) (cn : String) (add : Bool) (ctx : Ctx)
    (j : J) (vfuel : Nat) (hf : need T ≤ vfuel) (hc : Exec.conforms genv.schema true T j = true) :
    ∃ a ctx', parseType genv fuel sel T true cn add ctx = .ok (a, ctx') ∧
      ∃ v, validate penv vfuel a j = .ok v ∧ dump v = j := by
  obtain ⟨ctx', h⟩ := parseType_leaf genv fuel sel T hl true cn add ctx
  exact ⟨_, ctx', h, validate_leaf_dump genv penv ha T hl true j vfuel hf hc⟩

/-- non-vacuity: a concrete schema, type and value meeting the hypotheses -/
def exSchema : Schema := { types := [{ name := "Color", kind := .enum, values := ["RED", "GREEN"] }], query := some "Query" }
def exGenv : ResultTypes.Env := { schema := exSchema, frags := [] }
example : Exec.conforms exSchema true (.list (.nonNull (.named "Color"))) (.arr [.str "RED", .str "GREEN"]) = true := by
  decide
example : LeafName exGenv "Color" := by
  refine ⟨Or.inr (Or.inr ?_), ?_⟩ <;> decide


/-! ### The property at full strength, on the whole model pipeline

`generate` (Model/ResultTypes) → classes; `Marks.applyMarks` → the document as sent; `Exec.respOK` →
what a conformant server may answer for it; `Pyd.validate`/`dump` → what the generated models do
with the answer. -/

open Ariadne.Triggers01

/-! `pydEnvOf`, `execFuel`, `claimB`, `ValidInput` are defined in Model/Claim01.lean (same namespace):
    `claimB inp k j` = generation of operation `k` succeeded and, IF `j` is an answer a conformant server can give
    for the document as SENT (`Exec.respOK` on `Marks.applyOp`), THEN the root model accepts it and dumps it back
    (`J.eqv`, i.e. up to member order).  `ValidInput inp` = `Validate.validDoc … = true`.

    A response is a decoded JSON object (a Python `dict`): its objects have no repeated keys, hereditarily
    (`C01Plain.nodupKeys`).  This is part of what "a response" means and therefore a hypothesis of every statement
    below; `old_literal_statement_false` records why it cannot be dropped in this model. -/

open Ariadne.C01Plain (nodupKeys)

/-- C01 at full strength (acceptance + serialising back; the attribute-exposure and
    class-per-runtime-type clauses are consequences checked by the oracle). -/
def C01_full : Prop := ∀ (inp : Input) (k : Nat) (j : J), ValidInput inp → nodupKeys j = true → claimB inp k j = true

/-- C01 outside the finding regions (`Supported_01` = no trigger predicate of Model/Triggers01.lean holds). -/
def C01_partial_statement : Prop :=
  ∀ (inp : Input) (k : Nat) (j : J), ValidInput inp → Supported_01 inp → nodupKeys j = true → claimB inp k j = true

/-! Witness of finding C01-F2: `query Q { me { id } me { friends { id } } }` -/

def wSchema : Schema :=
  { types := [
      { name := "Query", kind := .object, fields := [{ name := "me", type := .named "User" }] },
      { name := "User", kind := .object,
        fields := [{ name := "id", type := .nonNull (.named "ID") },
                   { name := "friends", type := .nonNull (.list (.nonNull (.named "User"))) }] }],
    query := some "Query" }

def wOp : Operation :=
  { kind := .query, name := some "Q", sid := 1,
    sel := [ .field none "me" [] 2 [.field none "id" [] 0 []],
             .field none "me" [] 3 [.field none "friends" [] 4 [.field none "id" [] 0 []]] ] }

def wInp : Input := { env := { schema := wSchema, frags := [] }, ops := [wOp] }

def wResp : J :=
  .obj [("me", .obj [("id", .str "1"), ("friends", .arr [.obj [("id", .str "2")]])])]

theorem witness_valid : ValidInput wInp := by decide +kernel
theorem witness_in_region : trigDupCompositeKey wInp = true := by decide +kernel
theorem witness_conformant :
    Exec.respOK wSchema [] execFuel "Query" wOp.sel wResp = true := by decide +kernel
theorem witness_fails : claimB wInp 0 wResp = false := by decide +kernel
theorem witness_nodup : nodupKeys wResp = true := by decide +kernel

/-- The property is false on the pinned tree (finding C01-F2; replayed on the real code by
    corpus/C01/F2-duplicate-composite-key.json on every run). -/
theorem C01_full_false : ¬ C01_full := by
  intro h
  have := h wInp 0 wResp witness_valid witness_nodup
  rw [witness_fails] at this
  exact absurd this (by decide)


def dupInp : Input :=
  { env := { schema := wSchema, frags := [] },
    ops := [{ kind := .query, name := some "Q", sid := 1, sel := [.field none "me" [] 2 [.field none "id" [] 0 []]] }] }
def dupResp : J := .obj [("me", .obj [("id", .str "1"), ("id", .str "2")])]

/-- MODELLING ARTEFACT, not a defect of the code: the statement WITHOUT `nodupKeys j` (as it read before) is false
    already on `query Q { me { id } }`, because `J` association lists may repeat a key — `Exec.respOK` judges the first
    binding, the dump has one member, `J.eqv` compares lengths.  A decoded response (a `dict`) cannot look like that. -/
theorem old_literal_statement_false :
    ¬ (∀ (inp : Input) (k : Nat) (j : J), ValidInput inp → Supported_01 inp → claimB inp k j = true) := by
  intro h
  have h1 : ValidInput dupInp := by decide +kernel
  have h2 : Supported_01 dupInp := by decide +kernel
  have h3 : claimB dupInp 0 dupResp = false := by decide +kernel
  have := h dupInp 0 dupResp h1 h2
  rw [h3] at this
  exact absurd this (by decide)


/-! Model-level witnesses of the other recorded findings (each is replayed on the REAL code from
    corpus/C01/ on every run; here: the model reproduces the defect and the input lies in the trigger region). -/

def w2Schema : Schema :=
  { types := [
      { name := "Query", kind := .object,
        fields := [{ name := "me", type := .named "User" }, { name := "node", type := .named "Node" }] },
      { name := "Node", kind := .interface, fields := [{ name := "id", type := .nonNull (.named "ID") }] },
      { name := "Named", kind := .interface, fields := [{ name := "name", type := .named "String" }] },
      { name := "User", kind := .object, interfaces := ["Node", "Named"],
        fields := [{ name := "id", type := .nonNull (.named "ID") }, { name := "name", type := .named "String" },
                   { name := "friends", type := .nonNull (.list (.nonNull (.named "User"))) },
                   { name := "pet", type := .named "Node" }] },
      { name := "Post", kind := .object, interfaces := ["Node"],
        fields := [{ name := "id", type := .nonNull (.named "ID") }, { name := "title", type := .nonNull (.named "String") }] }],
    query := some "Query" }

def fld (name : String) (sid : Nat := 0) (sub : List Selection := []) : Selection := .field none name [] sid sub
def inc : Directive := { name := "include", args := [("if", none)] }
def mkQ (sel : List Selection) : Operation := { kind := .query, name := some "Q", sid := 1, sel := sel }
def mkInp (frags : List Fragment) (sel : List Selection) : Input :=
  { env := { schema := w2Schema, frags := frags }, ops := [mkQ sel] }
def mkF (name on : String) (sid : Nat) (sel : List Selection) : Fragment := { name := name, on := on, sid := sid, sel := sel }

/-- F3: `query Q($f: Boolean!) { me { id ... on User @include(if: $f) { friends { id } } } }`, answered with `$f = false` -/
def w3 : Input := mkInp []
  ([fld "me" 2 [fld "id", .inline (some "User") [inc] 3 [fld "friends" 4 [fld "id"]]]])
def w3Resp : J := .obj [("me", .obj [("id", .str "1")])]
theorem F3_in_region : trigDirOnFragment w3 = true := by decide +kernel
theorem F3_fails_in_model : ValidInput w3 ∧ nodupKeys w3Resp = true ∧ claimB w3 0 w3Resp = false := by decide +kernel

/-- F4: `query Q { me { ...UF } }  fragment UF on User { id pet { id } }` — the fragment is inherited, its text is sent
    without `__typename`, its class demands it -/
def w4 : Input := mkInp [mkF "UF" "User" 5 [fld "id", fld "pet" 6 [fld "id"]]]
  ([fld "me" 2 [.spread "UF" []]])
def w4Resp : J := .obj [("me", .obj [("id", .str "1"), ("pet", .obj [("id", .str "2")])])]
theorem F4_in_region : trigMixinAbstractField w4 (run w4) = true := by decide +kernel
theorem F4_fails_in_model : ValidInput w4 ∧ nodupKeys w4Resp = true ∧ claimB w4 0 w4Resp = false := by decide +kernel

/-- F5: `query Q { node { ... on Named { name } } }` — the inline fragment on the other interface is ignored -/
def w5 : Input := mkInp []
  ([fld "node" 2 [.inline (some "Named") [] 3 [fld "name"]]])
def w5Resp : J := .obj [("node", .obj [("__typename", .str "User"), ("name", .str "n")])]
theorem F5_in_region : trigDroppedSelection w5.env.schema (run w5) = true := by decide +kernel
theorem F5_fails_in_model : ValidInput w5 ∧ nodupKeys w5Resp = true ∧ claimB w5 0 w5Resp = false := by decide +kernel

/-- F7: `query Q { me { ... { id } } }` — AttributeError in the generator -/
def w7 : Input := mkInp []
  ([fld "me" 2 [.inline none [] 3 [fld "id"]]])
theorem F7_in_region : trigInlineNoType w7 = true := by decide +kernel
theorem F7_fails_in_model : ValidInput w7 ∧ claimB w7 0 (.obj [("me", .null)]) = false := by decide +kernel

/-- F9 (= C08-F1): `query Q { node { ...NF ... on User { name } } }  fragment NF on Node { id }` — `NF` is a base of the
    interface class and unpacked into the `User` class, hence excluded from the fragments module -/
def w9 : Input := mkInp [mkF "NF" "Node" 5 [fld "id"]]
  ([fld "node" 2 [.spread "NF" [], .inline (some "User") [] 3 [fld "name"]]])
def w9Resp : J := .obj [("node", .obj [("__typename", .str "Post"), ("id", .str "7")])]
theorem F9_in_region : trigMixinAndUnpacked (run w9) = true := by decide +kernel
theorem F9_fails_in_model : ValidInput w9 ∧ nodupKeys w9Resp = true ∧ claimB w9 0 w9Resp = false := by decide +kernel

/-! Non-vacuity of the partial statement: a supported input on which the claim holds for a non-trivial answer
    (interface position, inline fragments on two members, nullable list of non-null objects). -/
def wOk : Input := mkInp []
  ([fld "node" 2 [fld "id", .inline (some "User") [] 3 [fld "name", fld "friends" 4 [fld "id"]],
                                  .inline (some "Post") [] 5 [fld "title"]]])
def wOkResp : J := .obj [("node", .obj [("__typename", .str "User"), ("id", .str "1"), ("name", .null),
  ("friends", .arr [.obj [("id", .str "2")], .obj [("id", .str "3")]])])]
example : ValidInput wOk ∧ Supported_01 wOk ∧ claimB wOk 0 wOkResp = true
    ∧ Exec.respOK w2Schema [] execFuel "Query" (Marks.applySels (marksAfter (run wOk).ops) ((wOk.ops.map (·.sel)).flatten)) wOkResp = true := by
  decide +kernel


/-! ### The plain-selection tier, proved (Proofs/C01Plain*.lean)

For every selection set made of fields only (aliases, `@skip/@include`, any nesting depth, every wrapper
nesting, leaf- or object-typed fields), evaluated on an object type, under the decidable well-formedness
predicate `PlainOK` (distinct response keys / Python names / class names, fields exist, no `@mixin`):
the generator model succeeds for all sufficiently large fuel, and EVERY answer a conformant executor can
give (`Exec.respOK`, objects without repeated keys) is accepted by the root class and dumped back
(order-insensitively).  No bound on depth, width, list lengths. -/

open Ariadne.C01Plain in
theorem object_selection_roundtrip (env : ResultTypes.Env) (cn tn : String) (sid : Nat) (sel : List Selection) (st : St)
    (h : PlainOK env cn tn sid sel st = true) :
    ∃ classes : List ClassDecl,
      (∀ fuel, gfuel sel ≤ fuel →
        ∃ st', parseTypeDefinition env fuel cn tn sid sel false [] [] st = .ok (classes, st')) ∧
      classes.head?.map (·.name) = some cn ∧
      (∀ (penv : Pyd.Env), PenvOK env penv classes →
        ∀ (efuel : Nat) (j : J), Exec.respOK env.schema [] efuel tn sel j = true → nodupKeys j = true →
        ∀ vfuel, vneed env tn sel + 1 ≤ vfuel →
          ∃ v, Pyd.validate penv vfuel (.cls cn) j = .ok v ∧ J.eqv (Pyd.dump v) j = true) :=
  C01_plain env cn tn sid sel st h


/-! ### The abstract-positions tier, proved (Proofs/C01Abs*.lean)

Extends the plain tier by fields of INTERFACE and UNION type (any wrappers), typed inline fragments (content = fields) in
every selection set, and `__typename` — nested to any depth, ONE induction over selections and variants.
At every composite position the generator emits one class per VARIANT (`C01Abs.relatedOf`: the object type; the interface
plus one class per inline-fragment type condition; every union member); an abstract position gets the automatic `__typename`
unless it selects one (`C01Abs.needSids` = exactly the selection sets the generator marks); every answer `Exec.respOK` allows
for the document AS SENT (`Marks.applySels` with those marks) is validated by the first variant whose `typename__` literal
contains the runtime type, and dumped back.  Hypothesis: the decidable `C01Abs.AbsOK` (what it demands and why: header of
Proofs/C01Abs.lean).  Non-vacuity: `C01Abs.axSel` (interface with two fragments, list of union, plain-in-abstract-in-plain). -/

open Ariadne.C01Abs in
theorem abstract_position_roundtrip (env : ResultTypes.Env) (cn tn : String) (sid : Nat) (sel : List Selection) (st : St)
    (h : AbsOK env cn tn sid sel st = true) :
    ∃ classes : List ClassDecl,
      (∀ fuel, agfuel sel ≤ fuel →
        ∃ st', parseTypeDefinition env fuel cn tn sid sel false [] [] st = .ok (classes, st') ∧
          ∀ m, m ∈ st'.marks ↔ m ∈ sentMarks env cn tn sel st) ∧
      classes.head?.map (·.name) = some cn ∧
      (∀ (penv : Pyd.Env), C01Plain.PenvOK env penv classes →
        ∀ (efuel : Nat), agfuel sel ≤ efuel →
        ∀ (j : J), Exec.respOK env.schema [] efuel tn (Marks.applySels (sentMarks env cn tn sel st) sel) j = true →
        nodupKeys j = true →
        ∀ vfuel, avneed env cn tn sel + 4 ≤ vfuel →
          ∃ v, Pyd.validate penv vfuel (.cls cn) j = .ok v ∧ J.eqv (Pyd.dump v) j = true) :=
  C01_abs env cn tn sid sel st h

/-- `abstract_position_discriminates`, part "the literals partition the possible types" — interface position `n` (classes
    prefixed `C`) whose sub-selection has inline fragments on OBJECT types: a possible type `rt` is in the `typename__` literal
    of the fragment class on `rt` and of no other fragment class, and it is in the literal of the base class ("the rest") iff no
    inline fragment names it.  (That the answer of runtime type `rt` is validated by the first variant whose literal contains
    `rt` is part of `abstract_position_roundtrip`: Proofs/C01AbsVal.lean `tagged_rt`.) -/
theorem interface_position_partition (env : ResultTypes.Env) (C n : String) (sub : List Selection)
    (hk : env.schema.kindOf? n = some .interface) (hne : (C01Abs.inlConds sub).isEmpty = false)
    (hobj : ∀ c ∈ C01Abs.inlConds sub, env.schema.kindOf? c = some .object)
    (rt : String) (hrt : rt ∈ env.schema.possibleTypes n) (hrn : rt ≠ n) :
    (rt ∈ C01Abs.tvOf env (C01Abs.relatedOf env C n sub) n ↔ rt ∉ C01Abs.inlConds sub) ∧
    (∀ c ∈ Util.sortedSet (C01Abs.inlConds sub), (rt ∈ C01Abs.tvOf env (C01Abs.relatedOf env C n sub) c ↔ rt = c)) :=
  C01Abs.interface_literals_partition env C n sub hk hne hobj rt hrt hrn

/-- … and at a union position: one variant per member `m`, with literal `["m"]` -/
theorem union_position_partition (env : ResultTypes.Env) (C n : String) (sub : List Selection) (t : TypeDef)
    (hg : env.schema.get? n = some t) (hk : t.kind = .union) (hobj : ∀ m ∈ t.members, env.schema.isAbstract m = false) :
    C01Abs.relatedOf env C n sub = t.members.map (fun m => (C ++ m, m)) ∧
    ∀ m ∈ t.members, C01Abs.tvOf env (C01Abs.relatedOf env C n sub) m = [m] :=
  C01Abs.union_literals env C n sub t hg hk hobj

/-- non-vacuity of both: the interface position `node { id ... on User {..} ... on Post {..} }` and the union position `search`
    of `C01Abs.axSel` -/
example : C01Abs.axEnv.schema.kindOf? "Node" = some .interface
    ∧ C01Abs.inlConds [.inline (some "User") [] 3 [], .inline (some "Post") [] 5 []] = ["User", "Post"]
    ∧ C01Abs.axEnv.schema.possibleTypes "Node" = ["User", "Post"]
    ∧ (C01Abs.axEnv.schema.get? "SearchResult").map (·.members) = some ["User", "Post"] := by decide +kernel

/-! ### The plain tier on the whole pipeline, proved (Proofs/C01Bridge.lean, C01BridgePlain.lean)

`PlainInput inp` (decidable, Proofs/C01BridgePlain.lean): no fragment definitions; `schemaOK` (type names pairwise
distinct, no enum called `str`/`int`/`float`/`bool`/`Any`, built-in scalar names not redefined); every operation has a
name and a root type, no `@mixin`, satisfies `PlainOK` for its root class in the empty generator state, generates no
class called `BaseModel`, and meets the two fuel bounds `gfuel sel ≤ 100000` (generator) and `vneed … + 1 ≤ execFuel`
(validation).  `ValidInput` is kept as a hypothesis for uniformity; `PlainInput` alone implies what the proof uses.
In this region the generator inserts no automatic `__typename` (the marks stay empty for every operation), the document is
sent as written, and `claimB` holds for EVERY operation index and EVERY duplicate-free payload. -/

theorem C01_partial_plain : ∀ (inp : Input) (k : Nat) (j : J),
    ValidInput inp → PlainInput inp → nodupKeys j = true → claimB inp k j = true :=
  fun inp k j _ hp hj => claimB_plain inp k j hp hj

/-- non-vacuity (`plInp`, Proofs/C01BridgePlain.lean): two operations over the schema of Proofs/C01Plain.lean; the answer of
    the first has a nested list with a `null` element, aliases, an enum leaf and an absent conditional field -/
example : ValidInput plInp ∧ PlainInput plInp ∧ nodupKeys C01Plain.exResp = true
    ∧ Exec.respOK plInp.env.schema [] execFuel "Query" C01Plain.exSel C01Plain.exResp = true
    ∧ claimB plInp 0 C01Plain.exResp = true := plInp_nonvacuous

/-! ### The abstract-positions tier on the whole pipeline, proved (Proofs/C01BridgeAbs.lean)

`AbsInput inp` (decidable): no fragment definitions; `schemaOK`; `NoCondTypename` (no `__typename @skip/@include` — the trigger of
the new finding; implied for operations by `AbsOK`, named so that it can be replaced by `Supported_01` once the trigger exists);
the operations IN ORDER with the marks threaded as the package generator does (`absOpsOK`): each has a name and a root type, no
`@mixin`, satisfies `C01Abs.AbsOK` in the generator state left by its predecessors, `NoShadowedImport`, and the fuel bounds
(`agfuel ≤ 100000` generator, `agfuel ≤ execFuel` executor, `avneed + 4 ≤ execFuel` validation).  The answer is judged against the
document AS SENT after operations `0..k` (the accumulated `__typename` marks).  `PlainInput ⊆ AbsInput` in spirit (the plain tier
is the marks-free special case); both theorems are kept. -/

theorem C01_partial_abstract : ∀ (inp : Input) (k : Nat) (j : J),
    ValidInput inp → AbsInput inp → nodupKeys j = true → claimB inp k j = true :=
  fun inp k j _ hp hj => claimB_abs inp k j hp hj

/-- non-vacuity (`abInp`, Proofs/C01BridgeAbs.lean): two operations, both with abstract positions (interface with inline
    fragments, list of union, interface below an object below an interface); the marks accumulate over the operations; the answer
    of the first is conformant for the document as sent -/
example : ValidInput abInp ∧ AbsInput abInp ∧ nodupKeys C01Abs.axResp = true
    ∧ marksAfter ((run abInp).ops.take 1) = [2, 7] ∧ marksAfter ((run abInp).ops.take 2) = [2, 7, 21, 24]
    ∧ Exec.respOK abInp.env.schema [] execFuel "Query" (Marks.applySels [2, 7] C01Abs.axSel) C01Abs.axResp = true
    ∧ claimB abInp 0 C01Abs.axResp = true := abInp_nonvacuous

/-! ### Named fragments used as mixins, proved (Proofs/C01Mix*.lean, C01BridgeMix.lean)

The plain tier extended by spreads `...F` of a fragment defined on exactly the (object) type of the selection set and free of
inline fragments: the generator does not unpack such a fragment, the class of the selection set INHERITS from the class
generated for `F` in the fragments module and declares only its own fields; fragments spread fragments, and their composite
fields spread fragments again, to any depth.  `mixin_fragments_roundtrip` (class level): generation returns `C01Mix.mClass`
(bases = the spread fragments, sorted), nothing is unpacked, no mark is added; every answer a conformant executor gives — it
resolves the spreads with the fragment definitions — is accepted by the class, whose fields pydantic gathers along the
inheritance chain, and dumped back.  `C01_partial_mixin`: the same on `claimB` (all operations, the fragments module =
classes of ALL fragment definitions, `pydEnvOf`).  Regions: `C01Mix.MixOK` / `C01Mix.FragsOK`, `MixInput` (decidable; what they
demand and why: headers of Proofs/C01Mix.lean, C01BridgeMix.lean; notably per class the response keys / Python names of ALL
field nodes, own and inherited, are pairwise distinct). -/

open Ariadne.C01Mix in
theorem mixin_fragments_roundtrip (env : ResultTypes.Env) (K : Nat) (hfr : FragsOK env K) (cn tn : String) (sid : Nat)
    (sel : List Selection) (st : St) (h : MixOK env K cn tn sel = true) (hmarks : st.marks = [])
    (hnd : ((mClass env cn tn sel).map (·.name)).Nodup)
    (hfresh : ∀ n ∈ (mClass env cn tn sel).map (·.name), n ∉ st.publicNames) :
    (∀ fuel, C01Plain.gfuel sel ≤ fuel →
      ∃ st', parseTypeDefinition env fuel cn tn sid sel false [] [] st = .ok (mClass env cn tn sel, st') ∧
        st'.marks = [] ∧ st'.unpacked = st.unpacked) ∧
    (∀ (penv : Pyd.Env), ResultLeaf.EnvAgrees env penv → penv.class? "BaseModel" = none →
      (∀ c ∈ mClass env cn tn sel, penv.class? c.name = some c) → FragsIn env penv → fragDepth env ≤ penv.clsFuel →
      ∀ (efuel : Nat), K ≤ efuel →
      ∀ (j : J), Exec.respOK env.schema env.frags efuel tn sel j = true → nodupKeys j = true →
      ∀ vfuel, mneed env K tn sel + 1 ≤ vfuel →
        ∃ v, Pyd.validate penv vfuel (.cls cn) j = .ok v ∧ J.eqv (Pyd.dump v) j = true) := by
  refine ⟨fun fuel hf => ?_, fun penv ha hbm hcls hF hK efuel hef j hresp hj vfuel hv =>
    mix_roundtrip env K hfr cn tn sel h penv ha hbm hcls hF hK efuel hef j hresp hj vfuel hv⟩
  obtain ⟨st', h1, _, h3, h4⟩ := mix_generation env K hfr cn tn sid sel st h hmarks hnd hfresh fuel hf
  exact ⟨st', h1, h3, h4⟩

theorem C01_partial_mixin : ∀ (inp : Input) (k : Nat) (j : J),
    ValidInput inp → MixInput inp → nodupKeys j = true → claimB inp k j = true :=
  fun inp k j _ hp hj => claimB_mix inp k j hp hj

/-- non-vacuity (`mxInp`, Proofs/C01BridgeMix.lean): `fragment UG on User { ...UF friends { ...UF } }`, `fragment UF on User
    { id name }`, `query Q { me { ...UG } }`, `query R { again: me { ...UF } }` -/
example : ValidInput mxInp ∧ MixInput mxInp ∧ nodupKeys mxResp = true
    ∧ (fragModule mxInp.env).map (fun c => (c.name, c.bases)) = [("UF", ["BaseModel"]), ("UG", ["UF"]), ("UGFriends", ["UF"])]
    ∧ Exec.respOK mxSchema mxInp.env.frags execFuel "Query" [.field none "me" [] 2 [.spread "UG" []]] mxResp = true
    ∧ claimB mxInp 0 mxResp = true := mxInp_nonvacuous


end Ariadne.C01
