/-
  C13 — Subscriptions follow the graphql-transport-ws protocol for every frame sequence.

  Models: Model/WsClient.lean (`execute_ws` & helpers of AsyncBaseClient), Model/WsClientOT.lean
  (the OpenTelemetry twin), run against the tables extracted from /repo on every check
  (`Tables.wsTypesAsync`, `wsTypesAsyncOT`, `wsSubprotocolAsync*`, `wsConnectAccepted`).
  Vocabulary: Spec/GraphqlTransportWs.lean (`letter`: the property's alphabet, over the protocol's
  literal type names; finding triggers), Spec/WsConnect.lean (keyword contract of the installed
  `websockets.connect`).  Helper lemmas: Proofs/WsClient.lean.

  Quantification: every configuration, every `variables` value of the modelled value language,
  every list of frames — no bound on its length (induction over the frame list).

  §9 (Model/WsClientHeap.lean): the CONNECTION side on references - `__init__`, the header statements
  of `execute_ws` / `_execute_ws` / `_execute_ws_with_telemetry` on a store of dict objects, sequences
  and schedules of subscriptions on ONE client object sharing dicts in any pattern: no object that
  existed is written, the client object is what it was, every subscription is the one it is alone
  (`sequence_history_free`, `each_socket_headers`, `interleaved_subscriptions_independent`).
  §10: the consumer's side (refused connection, `aclose()` after n items).  §11: which variables
  `json.dumps` (no `default=`) can serialise (C13-F4).

  Verdict on the pinned tree:  `C13_full` is FALSE (`C13_full_false`), for four reasons, each a
  recorded finding with a decidable trigger:
    C13-F1 `trigExtraHeadersKwarg`  the handshake clause (`handshake_full_false`): every call passes
                                    `extra_headers=`, which the installed websockets rejects;
    C13-F2 `trigFalsyNextData`      the yield clause (`yields_in_order_full_false`): `if data:`;
    C13-F3 `trigBinaryNotUtf8`      the invalid-message clause (`invalid_raises_full_false`):
                                    UnicodeDecodeError is not a JSONDecodeError;
    C13-F4 `trigVarsNeedJsonableDefault`  the subscribe clause (`variables_serialised_full_false`): a
                                    `datetime`/`Decimal`/… variable (custom scalar "supported by
                                    pydantic") makes `json.dumps` raise, no subscribe is sent.
  `C13_partial` proves every protocol clause for every input outside the F2/F3/F4 triggers, *given a
  socket* (the model's connect is abstract).  The F1 trigger is true of every call, so the handshake
  clause has no true part on this tree: it is decided by the loopback oracle of harness/c13.py.
-/
import AriadneModel.Generated.Tables
import AriadneModel.Model.WsClient
import AriadneModel.Model.WsClientOT
import AriadneModel.Spec.GraphqlTransportWs
import AriadneModel.Spec.WsConnect
import AriadneModel.Proofs.WsClient
import AriadneModel.Model.SubscriptionMethod
import AriadneModel.Proofs.SubscriptionMethod
import AriadneModel.Model.WsClientHeap
import AriadneModel.Proofs.WsClientHeap

set_option linter.unusedSimpArgs false
set_option linter.unusedVariables false

namespace Ariadne.C13
open Ariadne Ariadne.WsClient Ariadne.GqlWs Ariadne.WsProofs

/-- the model of `AsyncBaseClient.execute_ws` on the tables extracted from /repo -/
def runPlain (cfg : Cfg) (vars : Vars) (fs : List Frame) : Trace :=
  WsClient.run Tables.wsTypesAsync Tables.wsSubprotocolAsync cfg vars fs

/-- the model of `AsyncBaseClientOpenTelemetry.execute_ws` (tracer unset / set) -/
def runOT (tracer : Bool) (cfg : Cfg) (vars : Vars) (fs : List Frame) : Trace :=
  WsClientOT.run tracer Tables.wsTypesAsyncOT Tables.wsSubprotocolAsyncOT cfg vars fs

/-! ## 0. The extracted tables are the protocol's -/

/-- `GraphQLTransportWSMessageType` of async_base_client.py has the eight members the code uses and
    their values are the protocol's message types (a changed value breaks this proof). -/
theorem types_resolve : Types.ofTable Tables.wsTypesAsync = some proto := by decide

theorem types_resolve_ot : Types.ofTable Tables.wsTypesAsyncOT = some proto := by decide

/-- `GRAPHQL_TRANSPORT_WS` is the protocol's subprotocol token in both modules. -/
theorem subprotocol_is_protocol :
    Tables.wsSubprotocolAsync = subprotocol ∧ Tables.wsSubprotocolAsyncOT = subprotocol := by decide

theorem runPlain_eq (cfg : Cfg) (vars : Vars) (fs : List Frame) :
    runPlain cfg vars fs = runT proto subprotocol cfg vars fs := by
  simp [runPlain, WsClient.run, types_resolve, subprotocol_is_protocol.1]

/-! ## 1. Vocabulary of the statements -/

/-- the caller did not pass a second `subprotocols=` (Python itself rejects that call) -/
def NoDupKw (cfg : Cfg) : Prop := J.hasKey "subprotocols" cfg.kwargs = false

def theConnect (cfg : Cfg) : Ev := .connect (connectArgs subprotocol cfg)
def initMsg (cfg : Cfg) : Msg := .connectionInit (initOf cfg)
def subscribeMsg (cfg : Cfg) (v : Option J) : Msg := .subscribe cfg.opId cfg.query cfg.opName v

/-- `serialise vars` succeeded with this optional `variables` member -/
def Serialised (vars : Vars) (v : Option J) : Prop :=
  (serialise vars = .absent ∧ v = none) ∨ (∃ j, serialise vars = .present j ∧ v = some j)

def Msg.isSubscribe : Msg → Bool
  | .subscribe .. => true
  | _ => false

/-- What the property demands of the terminal outcome, from the first terminal frame
    (`none` = the frame is outside the property's alphabet: nothing demanded). -/
def demandedOutcome : Option Frame → Option Outcome
  | none => some .exhausted
  | some x =>
    match letter x with
    | .complete => some .completed
    | .error es => some (.multiError (es.map errOfJ) (msgOf x))
    | .nonJson => some (.invalidMessage .message)
    | .unknownType => some (.invalidMessage .message)
    | .missingType => some (.invalidMessage .message)
    | .nextNoData => some (.invalidMessage .message)
    | _ => none

/-! ## 2. Shape of every run -/

theorem run_dup_kwarg (cfg : Cfg) (vars : Vars) (fs : List Frame) (h : ¬ NoDupKw cfg) :
    runPlain cfg vars fs = ⟨[], .internal "TypeError"⟩ := by
  have : J.hasKey "subprotocols" cfg.kwargs = true := by simpa [NoDupKw] using h
  simp [runPlain_eq, runT, this]

/-- The server closes before answering: only the init was sent, `recv()` raises. -/
theorem run_no_frames (cfg : Cfg) (vars : Vars) (h : NoDupKw cfg) :
    runPlain cfg vars [] = ⟨[theConnect cfg, .send (initMsg cfg)], .internal "ConnectionClosedOK"⟩ := by
  simp [runPlain_eq, runT, show J.hasKey "subprotocols" cfg.kwargs = false from h, theConnect, initMsg]

/-- A first frame that is not the ack: only the init was sent, nothing is yielded, the frame's
    exception escapes. -/
theorem run_first_not_ack (cfg : Cfg) (vars : Vars) (f : Frame) (fs : List Frame) (h : NoDupKw cfg)
    (hf : (letter f).isAck = false) :
    ∃ o, runPlain cfg vars (f :: fs) = ⟨[theConnect cfg, .send (initMsg cfg), .recv f], o⟩ ∧
      (¬ letter f = .outside → isBadBytes f = false → ∃ a, o = .invalidMessage a) := by
  obtain ⟨o, ho, h2⟩ := first_not_ack f hf
  exact ⟨o, by simp [runPlain_eq, runT, show J.hasKey "subprotocols" cfg.kwargs = false from h, ho,
    theConnect, initMsg], h2⟩

/-- After the ack, with serialisable variables: init, ack, one subscribe, then the streaming loop. -/
theorem run_after_ack (cfg : Cfg) (vars : Vars) (a : Frame) (fs : List Frame) (v : Option J)
    (h : NoDupKw cfg) (ha : (letter a).isAck = true) (hv : Serialised vars v) :
    runPlain cfg vars (a :: fs) =
      ⟨[theConnect cfg, .send (initMsg cfg), .recv a, .send (subscribeMsg cfg v)] ++ (stream proto fs).1,
       (stream proto fs).2⟩ := by
  have hk : J.hasKey "subprotocols" cfg.kwargs = false := h
  rcases hv with ⟨hs, rfl⟩ | ⟨j, hs, rfl⟩ <;>
    simp [runPlain_eq, runT, hk, first_ack a ha, afterAck, hs, theConnect, initMsg, subscribeMsg]

/-- Variables that `json.dumps` cannot serialise (outside the reading of the property): the
    `TypeError` escapes after the ack, before anything else is sent. -/
theorem run_unserialisable (cfg : Cfg) (vars : Vars) (a : Frame) (fs : List Frame)
    (h : NoDupKw cfg) (ha : (letter a).isAck = true) (hv : serialise vars = .typeError) :
    runPlain cfg vars (a :: fs) =
      ⟨[theConnect cfg, .send (initMsg cfg), .recv a], .internal "TypeError"⟩ := by
  have hk : J.hasKey "subprotocols" cfg.kwargs = false := h
  simp [runPlain_eq, runT, hk, first_ack a ha, afterAck, hv, theConnect, initMsg]

/-! ## 3. The clauses of the property (must tier), each for ALL frame lists -/

/-- **init_first.** The socket is opened first, with the protocol's subprotocol token, and the
    first message sent is `connection_init` carrying the configured payload (when it is truthy). -/
theorem init_first (cfg : Cfg) (vars : Vars) (fs : List Frame) (h : NoDupKw cfg) :
    (runPlain cfg vars fs).events.take 2 = [theConnect cfg, .send (initMsg cfg)] ∧
    (runPlain cfg vars fs).sent.head? = some (initMsg cfg) := by
  cases fs with
  | nil => rw [run_no_frames cfg vars h]; exact ⟨rfl, rfl⟩
  | cons f fs =>
    have hk : J.hasKey "subprotocols" cfg.kwargs = false := h
    have key : ∃ rest o, runPlain cfg vars (f :: fs) =
        ⟨theConnect cfg :: .send (initMsg cfg) :: rest, o⟩ := by
      simp only [runPlain_eq, runT, hk]
      cases handle proto (some proto.ack) f <;> simp [theConnect, initMsg]
    obtain ⟨rest, o, hr⟩ := key
    rw [hr]; exact ⟨rfl, rfl⟩

/-- what the socket is opened with -/
theorem connect_args (cfg : Cfg) :
    (connectArgs subprotocol cfg).url = cfg.url ∧
    (connectArgs subprotocol cfg).subprotocols = ["graphql-transport-ws"] ∧
    (J.lookup "origin" cfg.kwargs = none →
      (connectArgs subprotocol cfg).origin =
        match cfg.origin with
        | some s => if s = "" then .null else .str s
        | none => .null) ∧
    (cfg.extraHeaders = none → (connectArgs subprotocol cfg).extraHeaders = cfg.headers) := by
  refine ⟨rfl, rfl, ?_, ?_⟩
  · intro ho; cases hc : cfg.origin <;> simp [connectArgs, originOf, ho, hc]
  · intro he; simp [connectArgs, he, dictUpdate]

/-- The headers the socket is opened with are `ws_headers` updated by `extra_headers` (Python's
    `dict.update`): a configured header survives unless `extra_headers` names it, and a header
    given in `extra_headers` (a dict: keys unique) wins. -/
theorem headers_merge (cfg : Cfg) (k : String) :
    (J.lookup k (cfg.extraHeaders.getD []) = none →
      J.lookup k (connectArgs subprotocol cfg).extraHeaders = J.lookup k cfg.headers) ∧
    (∀ v, ((cfg.extraHeaders.getD []).map (·.1)).Nodup → J.lookup k (cfg.extraHeaders.getD []) = some v →
      J.lookup k (connectArgs subprotocol cfg).extraHeaders = some v) :=
  ⟨fun h => dictUpdate_lookup_none _ _ _ h, fun v hn h => dictUpdate_lookup_some _ _ _ _ hn h⟩

/-- **nothing_before_ack / first_frame_must_be_ack.**  Whatever the first frame is, if it is not
    the ack then the only message ever sent is the init, nothing is yielded, no further frame is
    consumed and an exception escapes; for the letters of the alphabet (a bad binary frame apart,
    C13-F3) it is the invalid-message error.  With no frame at all `recv()` raises. -/
theorem nothing_before_ack (cfg : Cfg) (vars : Vars) (f : Frame) (fs : List Frame) (h : NoDupKw cfg)
    (hf : (letter f).isAck = false) :
    (runPlain cfg vars (f :: fs)).events = [theConnect cfg, .send (initMsg cfg), .recv f] ∧
    (runPlain cfg vars (f :: fs)).sent = [initMsg cfg] ∧
    (runPlain cfg vars (f :: fs)).yielded = [] ∧
    (runPlain cfg vars (f :: fs)).received = [f] ∧
    (¬ letter f = .outside → isBadBytes f = false →
      ∃ a, (runPlain cfg vars (f :: fs)).outcome = .invalidMessage a) := by
  obtain ⟨o, hr, ho⟩ := run_first_not_ack cfg vars f fs h hf
  rw [hr]
  exact ⟨rfl, rfl, rfl, rfl, ho⟩

/-- The events up to and including the delivery of the first frame never contain more than the
    init — for every first frame, ack or not (nothing is sent "until connection_ack arrives"). -/
theorem only_init_until_first_frame (cfg : Cfg) (vars : Vars) (f : Frame) (fs : List Frame)
    (h : NoDupKw cfg) :
    (runPlain cfg vars (f :: fs)).events.take 3 = [theConnect cfg, .send (initMsg cfg), .recv f] := by
  have hk : J.hasKey "subprotocols" cfg.kwargs = false := h
  by_cases hf : (letter f).isAck = true
  · simp only [runPlain_eq, runT, hk, first_ack f hf]
    simp [theConnect, initMsg]
  · have hf' : (letter f).isAck = false := by simpa using hf
    rw [(nothing_before_ack cfg vars f fs h hf').1]; rfl

/-- **exactly_one_subscribe.**  After the ack exactly one subscribe is sent, right after the ack
    was delivered, carrying the operation id, query, operationName and the serialised variables;
    every later message is a pong, one per consumed ping. -/
theorem exactly_one_subscribe (cfg : Cfg) (vars : Vars) (a : Frame) (fs : List Frame) (v : Option J)
    (h : NoDupKw cfg) (ha : (letter a).isAck = true) (hv : Serialised vars v) :
    (runPlain cfg vars (a :: fs)).sent =
      initMsg cfg :: subscribeMsg cfg v :: List.replicate (pingCount fs) Msg.pong ∧
    (runPlain cfg vars (a :: fs)).sent.filter Msg.isSubscribe = [subscribeMsg cfg v] ∧
    (runPlain cfg vars (a :: fs)).events.take 4 =
      [theConnect cfg, .send (initMsg cfg), .recv a, .send (subscribeMsg cfg v)] := by
  rw [run_after_ack cfg vars a fs v h ha hv]
  have hs := (stream_projections fs).1
  refine ⟨?_, ?_, by simp⟩
  · simp only [Trace.sent, List.filterMap_append, hs]; rfl
  · simp only [Trace.sent, List.filterMap_append, hs]
    have : (List.replicate (pingCount fs) Msg.pong).filter Msg.isSubscribe = [] := by
      simp [List.filter_eq_nil_iff, Msg.isSubscribe]
    show List.filter Msg.isSubscribe (initMsg cfg :: subscribeMsg cfg v :: List.replicate (pingCount fs) Msg.pong) = _
    simp [List.filter_cons, initMsg, subscribeMsg, Msg.isSubscribe, this]

/-- what the subscribe message looks like on the wire -/
theorem subscribe_wire (cfg : Cfg) (j : J) :
    (subscribeMsg cfg (some j)).render proto =
      .obj [("id", .str cfg.opId), ("type", .str "subscribe"),
            ("payload", .obj [("query", .str cfg.query), ("operationName", optStr cfg.opName),
                              ("variables", j)])] ∧
    (subscribeMsg cfg none).render proto =
      .obj [("id", .str cfg.opId), ("type", .str "subscribe"),
            ("payload", .obj [("query", .str cfg.query), ("operationName", optStr cfg.opName)])] ∧
    (Msg.connectionInit none).render proto = .obj [("type", .str "connection_init")] ∧
    (Msg.connectionInit (some j)).render proto = .obj [("type", .str "connection_init"), ("payload", j)] ∧
    Msg.pong.render proto = .obj [("type", .str "pong")] :=
  ⟨rfl, rfl, rfl, rfl, rfl⟩

/-- **yields_in_order_partial** (true of every frame list): what is yielded is, in order, the data
    of the `next` frames consumed before termination *whose data is truthy*. -/
theorem yields_in_order_partial (cfg : Cfg) (vars : Vars) (a : Frame) (fs : List Frame) (v : Option J)
    (h : NoDupKw cfg) (ha : (letter a).isAck = true) (hv : Serialised vars v) :
    (runPlain cfg vars (a :: fs)).yielded =
      (prefixUntilTerminal fs).filterMap (fun f => (letter f).truthyNextData) := by
  rw [run_after_ack cfg vars a fs v h ha hv]
  simp only [Trace.yielded, List.filterMap_append, (stream_projections fs).2.1]
  rfl

/-- the yield clause at full strength: the data of *each* next frame, in order -/
def YieldsInOrder (cfg : Cfg) (vars : Vars) (a : Frame) (fs : List Frame) : Prop :=
  (runPlain cfg vars (a :: fs)).yielded = (prefixUntilTerminal fs).filterMap (fun f => (letter f).nextData)

/-- **yields_in_order** outside the trigger of C13-F2. -/
theorem yields_in_order_supported (cfg : Cfg) (vars : Vars) (a : Frame) (fs : List Frame) (v : Option J)
    (h : NoDupKw cfg) (ha : (letter a).isAck = true) (hv : Serialised vars v)
    (hs : trigFalsyNextData cfg vars (a :: fs) = false) : YieldsInOrder cfg vars a fs := by
  unfold YieldsInOrder
  rw [yields_in_order_partial cfg vars a fs v h ha hv]
  apply truthy_eq_all_of_no_falsy
  have hk : J.hasKey "subprotocols" cfg.kwargs = false := h
  have hst : streamed cfg vars (a :: fs) = some fs := by
    rcases hv with ⟨hs', -⟩ | ⟨j, hs', -⟩ <;> simp [streamed, hk, ha, hs']
  simpa [trigFalsyNextData, hst] using hs

/-- **pong_per_ping**: as many pongs as pings consumed, and on the wire every consumed ping is
    followed immediately by its pong and nothing else is ever sent after the subscribe
    (the interleaving of deliveries and sends is exactly `ioOf` of each consumed frame). -/
theorem pong_per_ping (cfg : Cfg) (vars : Vars) (a : Frame) (fs : List Frame) (v : Option J)
    (h : NoDupKw cfg) (ha : (letter a).isAck = true) (hv : Serialised vars v) :
    ((runPlain cfg vars (a :: fs)).sent.filter (fun m => match m with | .pong => true | _ => false)).length
      = pingCount fs ∧
    (runPlain cfg vars (a :: fs)).events.filter Ev.isIO =
      [.send (initMsg cfg), .recv a, .send (subscribeMsg cfg v)] ++ (consumed fs).flatMap ioOf ∧
    (runPlain cfg vars (a :: fs)).received = a :: consumed fs := by
  refine ⟨?_, ?_, ?_⟩
  · rw [(exactly_one_subscribe cfg vars a fs v h ha hv).1]
    simp [List.filter_cons, initMsg, subscribeMsg, List.filter_replicate]
  · rw [run_after_ack cfg vars a fs v h ha hv]
    simp only [List.filter_append, (stream_projections fs).2.2.2]
    rfl
  · rw [run_after_ack cfg vars a fs v h ha hv]
    simp only [Trace.received, List.filterMap_append, (stream_projections fs).2.2.1]
    rfl

/-- the run on `ack :: pre ++ x :: rest` with `pre` continuing and `x` terminal -/
theorem run_until_terminal (cfg : Cfg) (vars : Vars) (a : Frame) (pre rest : List Frame) (x : Frame)
    (v : Option J) (h : NoDupKw cfg) (ha : (letter a).isAck = true) (hv : Serialised vars v)
    (hpre : ∀ f ∈ pre, continuesF f = true) (hx : continuesF x = false) :
    runPlain cfg vars (a :: (pre ++ x :: rest)) =
      ⟨[theConnect cfg, .send (initMsg cfg), .recv a, .send (subscribeMsg cfg v)] ++
          pre.flatMap contEvents ++ (stream proto [x]).1, (stream proto [x]).2⟩ := by
  have := run_after_ack cfg vars a (pre ++ x :: rest) v h ha hv
  rw [this, stream_prefix pre (x :: rest) hpre, stream_term x rest hx]
  simp [List.append_assoc]

/-- **complete_finishes.**  On `complete` the socket is closed, the generator finishes, and
    nothing that follows is consumed, yielded or answered. -/
theorem complete_finishes (cfg : Cfg) (vars : Vars) (a : Frame) (pre rest : List Frame) (c : Frame)
    (v : Option J) (h : NoDupKw cfg) (ha : (letter a).isAck = true) (hv : Serialised vars v)
    (hpre : ∀ f ∈ pre, continuesF f = true) (hc : letter c = .complete) :
    (runPlain cfg vars (a :: (pre ++ c :: rest))).outcome = .completed ∧
    (runPlain cfg vars (a :: (pre ++ c :: rest))).events =
      [theConnect cfg, .send (initMsg cfg), .recv a, .send (subscribeMsg cfg v)] ++
        pre.flatMap contEvents ++ [.recv c, .close] ∧
    (runPlain cfg vars (a :: (pre ++ c :: rest))).received = a :: pre ++ [c] := by
  have hx : continuesF c = false := by simp [continuesF, hc, Letter.continues]
  rw [run_until_terminal cfg vars a pre rest c v h ha hv hpre hx, terminal_complete c hc]
  refine ⟨rfl, rfl, ?_⟩
  show List.filterMap Ev.recv? _ = _
  rw [received_of_shape _ _ _ _ _ _ rfl rfl rfl, recv_prefix]; rfl

/-- **error_raises_multi.**  On `error` the GraphQL multi-error is raised, carrying every error of
    the payload (message, locations, path, extensions, original, in order). -/
theorem error_raises_multi (cfg : Cfg) (vars : Vars) (a : Frame) (pre rest : List Frame) (e : Frame)
    (es : List J) (v : Option J) (h : NoDupKw cfg) (ha : (letter a).isAck = true) (hv : Serialised vars v)
    (hpre : ∀ f ∈ pre, continuesF f = true) (he : letter e = .error es) :
    (runPlain cfg vars (a :: (pre ++ e :: rest))).outcome = .multiError (es.map errOfJ) (msgOf e) ∧
    (runPlain cfg vars (a :: (pre ++ e :: rest))).received = a :: pre ++ [e] := by
  have hx : continuesF e = false := by simp [continuesF, he, Letter.continues]
  rw [run_until_terminal cfg vars a pre rest e v h ha hv hpre hx, terminal_error e es he]
  refine ⟨rfl, ?_⟩
  show List.filterMap Ev.recv? _ = _
  rw [received_of_shape _ _ _ _ _ _ rfl rfl rfl, recv_prefix]; rfl

/-- **invalid_raises** (mid-stream): a text frame that is not JSON, an unknown type, a missing
    type, a `next` without data raise the invalid-message error carrying the offending message. -/
theorem invalid_raises (cfg : Cfg) (vars : Vars) (a : Frame) (pre rest : List Frame) (x : Frame)
    (v : Option J) (h : NoDupKw cfg) (ha : (letter a).isAck = true) (hv : Serialised vars v)
    (hpre : ∀ f ∈ pre, continuesF f = true) (hx : InvalidLetter x) :
    (runPlain cfg vars (a :: (pre ++ x :: rest))).outcome = .invalidMessage .message ∧
    (runPlain cfg vars (a :: (pre ++ x :: rest))).received = a :: pre ++ [x] := by
  have hc : continuesF x = false := by
    rcases hx with ⟨hl, -⟩ | hl | hl | hl <;> simp [continuesF, hl, Letter.continues]
  rw [run_until_terminal cfg vars a pre rest x v h ha hv hpre hc, terminal_invalid x hx]
  refine ⟨rfl, ?_⟩
  show List.filterMap Ev.recv? _ = _
  rw [received_of_shape _ _ _ _ _ _ rfl rfl rfl, recv_prefix]; rfl

/-- When the frames run out (the server closes normally) the generator just finishes. -/
theorem exhausted_finishes (cfg : Cfg) (vars : Vars) (a : Frame) (fs : List Frame) (v : Option J)
    (h : NoDupKw cfg) (ha : (letter a).isAck = true) (hv : Serialised vars v)
    (hall : ∀ f ∈ fs, continuesF f = true) :
    (runPlain cfg vars (a :: fs)).outcome = .exhausted := by
  rw [run_after_ack cfg vars a fs v h ha hv]
  have := stream_prefix fs [] hall
  simp only [List.append_nil] at this
  simp [this, stream]

/-- **One outcome, decided by the first terminal frame**: whatever the property demands of the
    outcome, except for a bad binary frame (C13-F3), is what happens. -/
theorem outcome_as_demanded (cfg : Cfg) (vars : Vars) (a : Frame) (fs : List Frame) (v : Option J)
    (h : NoDupKw cfg) (ha : (letter a).isAck = true) (hv : Serialised vars v)
    (hb : ∀ x, firstTerminal fs = some x → isBadBytes x = false) :
    ∀ o, demandedOutcome (firstTerminal fs) = some o → (runPlain cfg vars (a :: fs)).outcome = o := by
  intro o hd
  rw [run_after_ack cfg vars a fs v h ha hv]
  simp only [stream_outcome fs]
  cases hft : firstTerminal fs with
  | none => simp [hft, demandedOutcome] at hd ⊢; exact hd
  | some x =>
    have hbx := hb x hft
    simp only [hft, demandedOutcome] at hd ⊢
    cases hl : letter x <;> simp only [hl] at hd <;> try (simp at hd; done)
    · cases hd; rw [terminal_complete x hl]
    · cases hd; rw [terminal_error x _ hl]
    · cases hd; rw [terminal_invalid x (Or.inl ⟨hl, hbx⟩)]
    · cases hd; rw [terminal_invalid x (Or.inr (Or.inl hl))]
    · cases hd; rw [terminal_invalid x (Or.inr (Or.inr (Or.inl hl)))]
    · cases hd; rw [terminal_invalid x (Or.inr (Or.inr (Or.inr hl)))]

/-! ## 4. The OpenTelemetry variant behaves identically -/

/-- **ot_equivalent.**  The OpenTelemetry client — tracer unset (`_execute_ws`) or set
    (`_execute_ws_with_telemetry` and its three re-implemented helpers), over its own copy of the
    enum and of the subprotocol constant — produces the trace of the plain client: same connect
    arguments, same messages in the same order, same items yielded, same outcome, for every
    configuration, variables and frame list. -/
theorem ot_equivalent (tracer : Bool) (cfg : Cfg) (vars : Vars) (fs : List Frame) :
    runOT tracer cfg vars fs = runPlain cfg vars fs := by
  simp only [runOT, WsClientOT.run, types_resolve_ot, runPlain_eq, subprotocol_is_protocol.2, runTel_eq]
  cases tracer <;> rfl

/-! ## 5. The handshake against the installed websockets (C13-F1) -/

/-- the handshake clause: the installed `websockets.connect` accepts the call `execute_ws` makes -/
def HandshakeAccepted : Prop :=
  ∀ cfg : Cfg, NoDupKw cfg → WsConnect.accepts (connectArgs subprotocol cfg) = true

/-- The call always carries the keyword `extra_headers`, which is neither a parameter of the
    installed `websockets.connect` nor of `loop.create_connection`: it is rejected for *every*
    configuration (table `wsConnectAccepted`, re-extracted from the installed library on every run). -/
theorem handshake_never_accepted (cfg : Cfg) :
    WsConnect.accepts (connectArgs subprotocol cfg) = false := by
  have h : "extra_headers" ∉ Tables.wsConnectAccepted := by decide
  simp only [WsConnect.accepts, WsConnect.acceptsNames, WsConnect.kwNames, Bool.eq_false_iff]
  intro hall
  rw [List.all_eq_true] at hall
  have := hall "extra_headers" (by simp)
  exact h (by simpa using this)

theorem handshake_full_false : ¬ HandshakeAccepted := by
  intro h
  have := h ⟨"", [], none, none, "", none, none, [], ""⟩ rfl
  rw [handshake_never_accepted] at this
  exact Bool.false_ne_true this

/-- the keyword the installed library does accept for the same purpose (the one-word repair) -/
example : WsConnect.acceptsNames Tables.wsConnectAccepted ["subprotocols", "origin", "additional_headers"] = true := by
  decide

/-! ## 6. The property at full strength, its refutation, and the proved part -/

/-- The protocol clauses at full strength for one input, *given a socket*. -/
structure ProtocolFull (cfg : Cfg) (vars : Vars) (frames : List Frame) : Prop where
  /-- opens the socket, sends connection_init (with the configured payload) first -/
  init_first : (runPlain cfg vars frames).events.take 2 = [theConnect cfg, .send (initMsg cfg)]
  /-- nothing more until the ack arrives; a first frame that is not the ack raises the
      invalid-message error (for every frame of the alphabet, non-JSON of any kind included) -/
  no_ack : ∀ f fs, frames = f :: fs → (letter f).isAck = false →
    (runPlain cfg vars frames).sent = [initMsg cfg] ∧ (runPlain cfg vars frames).yielded = [] ∧
    (runPlain cfg vars frames).received = [f] ∧
    (¬ letter f = .outside → ∃ a, (runPlain cfg vars frames).outcome = .invalidMessage a)
  /-- after the ack: exactly one subscribe with query, operationName, serialised variables; every
      next frame's data yielded in order; one pong per ping, right after it; the first terminal
      frame decides the outcome (complete → finished, error → multi-error, non-JSON / unknown /
      missing type / next without data → invalid-message error) and nothing after it is consumed -/
  acked : ∀ a fs v, frames = a :: fs → (letter a).isAck = true → Serialised vars v →
    (runPlain cfg vars frames).sent =
      initMsg cfg :: subscribeMsg cfg v :: List.replicate (pingCount fs) Msg.pong ∧
    (runPlain cfg vars frames).yielded = (prefixUntilTerminal fs).filterMap (fun f => (letter f).nextData) ∧
    (runPlain cfg vars frames).events.filter Ev.isIO =
      [.send (initMsg cfg), .recv a, .send (subscribeMsg cfg v)] ++ (consumed fs).flatMap ioOf ∧
    (runPlain cfg vars frames).received = a :: consumed fs ∧
    (∀ o, demandedOutcome (firstTerminal fs) = some o → (runPlain cfg vars frames).outcome = o)

/-- the subscribe clause presupposes the variables can be serialised: inside the reading
    (Spec/GraphqlTransportWs.lean `readableVars`) they always must be -/
def VariablesSerialised : Prop :=
  ∀ vars : Vars, readableVars vars = true → ∃ v, Serialised vars v

/-- **C13 at full strength**: every configuration, variables value, frame list. -/
def C13_full : Prop :=
  (∀ cfg vars frames, NoDupKw cfg → ProtocolFull cfg vars frames) ∧
  (∀ tracer cfg vars frames, runOT tracer cfg vars frames = runPlain cfg vars frames) ∧
  HandshakeAccepted ∧
  VariablesSerialised

/-- the inputs outside the trigger regions of the three protocol findings (C13-F2, C13-F3, C13-F4) -/
def Supported_13 (cfg : Cfg) (vars : Vars) (frames : List Frame) : Prop :=
  ¬ (trigFalsyNextData cfg vars frames = true ∨ trigBinaryNotUtf8 cfg vars frames = true ∨
     trigVarsNeedJsonableDefault cfg vars frames = true)

def cfg0 : Cfg :=
  { url := "ws://h/graphql", headers := [("Authorization", .str "Bearer t")], origin := some "https://o",
    initPayload := some (.obj [("token", .str "abc")]), query := "subscription S { counter }",
    opName := some "S", extraHeaders := none, kwargs := [], opId := "id-1" }

def frAck : Frame := .json (.obj [("type", .str "connection_ack")])
def frNext (d : J) : Frame := .json (.obj [("id", .str "1"), ("type", .str "next"), ("payload", .obj [("data", d)])])
def frPing : Frame := .json (.obj [("type", .str "ping")])
def frComplete : Frame := .json (.obj [("id", .str "1"), ("type", .str "complete")])
def frError : Frame :=
  .json (.obj [("id", .str "1"), ("type", .str "error"), ("payload", .arr [.obj [("message", .str "boom")]])])
def frUnknown : Frame := .json (.obj [("type", .str "foo")])

theorem cfg0_ok : NoDupKw cfg0 := rfl
theorem frAck_isAck : (letter frAck).isAck = true := by
  simp [frAck, letter, J.lookup, Letter.isAck]

/-- C13-F2 witness: a `next` frame whose data is `{}` is consumed and not yielded. -/
theorem yields_in_order_full_false : ¬ (∀ cfg vars a fs, NoDupKw cfg → (letter a).isAck = true →
    (∃ v, Serialised vars v) → YieldsInOrder cfg vars a fs) := by
  intro h
  have h1 := h cfg0 none frAck [frNext (.obj [])] cfg0_ok frAck_isAck ⟨none, Or.inl ⟨rfl, rfl⟩⟩
  unfold YieldsInOrder at h1
  rw [yields_in_order_partial cfg0 none frAck _ none cfg0_ok frAck_isAck (Or.inl ⟨rfl, rfl⟩)] at h1
  simp [prefixUntilTerminal, continuesF, frNext, letter, J.lookup, Letter.continues,
    Letter.truthyNextData, Letter.nextData, J.truthy] at h1

/-- C13-F3 witness: a binary frame that is not UTF-8 escapes as `UnicodeDecodeError`. -/
theorem invalid_raises_full_false : ¬ (∀ cfg vars a fs x, NoDupKw cfg → (letter a).isAck = true →
    (∃ v, Serialised vars v) → firstTerminal fs = some x → letter x = .nonJson →
    (runPlain cfg vars (a :: fs)).outcome = .invalidMessage .message) := by
  intro h
  have h1 := h cfg0 none frAck [.badBytes] .badBytes cfg0_ok frAck_isAck ⟨none, Or.inl ⟨rfl, rfl⟩⟩
    (by simp [firstTerminal, continuesF, letter, Letter.continues]) (by simp [letter])
  rw [run_after_ack cfg0 none frAck _ none cfg0_ok frAck_isAck (Or.inl ⟨rfl, rfl⟩)] at h1
  simp [stream, handle] at h1

theorem C13_full_false : ¬ C13_full := fun h => handshake_full_false h.2.2.1

/-- …and the protocol part alone is false as well (independently of the handshake). -/
theorem C13_protocol_full_false : ¬ (∀ cfg vars frames, NoDupKw cfg → ProtocolFull cfg vars frames) := by
  intro h
  have h1 := ((h cfg0 none [frAck, frNext (.obj [])] cfg0_ok).acked frAck _ none rfl frAck_isAck
    (Or.inl ⟨rfl, rfl⟩)).2.1
  have h2 := yields_in_order_partial cfg0 none frAck [frNext (.obj [])] none cfg0_ok frAck_isAck (Or.inl ⟨rfl, rfl⟩)
  rw [h2] at h1
  simp [prefixUntilTerminal, continuesF, frNext, letter, J.lookup, Letter.continues,
    Letter.truthyNextData, Letter.nextData, J.truthy] at h1

/-- variables inside the reading without a foreign leaf are serialised (the proof is
    `convDict_readable`: induction over the value tree) -/
theorem readable_clean_serialised (vars : Vars) (hr : readableVars vars = true) (hf : hasForeignVars vars = false) :
    ∃ v, Serialised vars v := by
  cases vars with
  | none => exact ⟨none, Or.inl ⟨rfl, rfl⟩⟩
  | some kvs =>
    cases kvs with
    | nil => exact ⟨none, Or.inl ⟨rfl, rfl⟩⟩
    | cons kv rest =>
      obtain ⟨o, ho⟩ := Option.isSome_iff_exists.mp (convDict_readable (kv :: rest) hr hf)
      exact ⟨some (.obj o), Or.inr ⟨.obj o, by simp [serialise, ho], rfl⟩⟩

/-- …and the trigger of C13-F4 is tight: ANY foreign leaf (a `datetime`, an `Upload`, …), wherever
    it sits, makes `json.dumps` raise - for every variables value, readable or not. -/
theorem foreign_never_serialised (vars : Vars) (hf : hasForeignVars vars = true) : serialise vars = .typeError := by
  cases vars with
  | none => simp [hasForeignVars] at hf
  | some kvs =>
    cases kvs with
    | nil => simp [hasForeignVars, hasForeignKvs] at hf
    | cons kv rest => simp [serialise, convDict_foreign (kv :: rest) hf]

/-- what happens then: the ack is consumed, the `TypeError` escapes, no subscribe is ever sent -/
theorem foreign_variables_run (cfg : Cfg) (vars : Vars) (a : Frame) (fs : List Frame) (h : NoDupKw cfg)
    (ha : (letter a).isAck = true) (hf : hasForeignVars vars = true) :
    runPlain cfg vars (a :: fs) = ⟨[theConnect cfg, .send (initMsg cfg), .recv a], .internal "TypeError"⟩ ∧
    (runPlain cfg vars (a :: fs)).sent.filter Msg.isSubscribe = [] := by
  have hr := run_unserialisable cfg vars a fs h ha (foreign_never_serialised vars hf)
  rw [hr]
  exact ⟨rfl, rfl⟩

/-- C13-F4 witness: `{"since": datetime(...)}` - a custom scalar "supported by pydantic" -/
def varsF4 : Vars := some [("since", .foreign (some (.str "2020-01-01T00:00:00")))]

theorem variables_serialised_full_false : ¬ VariablesSerialised := by
  intro h
  obtain ⟨v, hv⟩ := h varsF4 rfl
  have : serialise varsF4 = .typeError := foreign_never_serialised varsF4 rfl
  rcases hv with ⟨hs, -⟩ | ⟨j, hs, -⟩ <;> rw [this] at hs <;> cases hs

/-- **C13_partial**: outside the trigger regions of C13-F2, C13-F3 and C13-F4 every protocol clause
    holds at full strength, for every configuration, variables value and frame list (given a
    socket), and variables inside the reading reach the subscribe message. -/
theorem C13_partial (cfg : Cfg) (vars : Vars) (frames : List Frame) (h : NoDupKw cfg)
    (hs : Supported_13 cfg vars frames) :
    ProtocolFull cfg vars frames ∧
    (∀ a fs, frames = a :: fs → (letter a).isAck = true → readableVars vars = true → ∃ v, Serialised vars v) := by
  have hk : J.hasKey "subprotocols" cfg.kwargs = false := h
  have hs1 : trigFalsyNextData cfg vars frames = false := by
    cases hh : trigFalsyNextData cfg vars frames
    · rfl
    · exact absurd (Or.inl hh) hs
  have hs2 : trigBinaryNotUtf8 cfg vars frames = false := by
    cases hh : trigBinaryNotUtf8 cfg vars frames
    · rfl
    · exact absurd (Or.inr (Or.inl hh)) hs
  have hs3 : trigVarsNeedJsonableDefault cfg vars frames = false := by
    cases hh : trigVarsNeedJsonableDefault cfg vars frames
    · rfl
    · exact absurd (Or.inr (Or.inr hh)) hs
  refine ⟨⟨(init_first cfg vars frames h).1, ?_, ?_⟩, ?_⟩
  · intro f fs hfr hf
    subst hfr
    obtain ⟨-, h2, h3, h4, h5⟩ := nothing_before_ack cfg vars f fs h hf
    refine ⟨h2, h3, h4, fun hout => h5 hout ?_⟩
    have : isBadBytes f = false := by
      cases hb : isBadBytes f
      · rfl
      · simp [trigBinaryNotUtf8, hk, hb] at hs2
    exact this
  · intro a fs v hfr ha hv
    subst hfr
    have hst : streamed cfg vars (a :: fs) = some fs := by
      rcases hv with ⟨hs', -⟩ | ⟨j, hs', -⟩ <;> simp [streamed, hk, ha, hs']
    refine ⟨(exactly_one_subscribe cfg vars a fs v h ha hv).1,
      yields_in_order_supported cfg vars a fs v h ha hv hs1,
      (pong_per_ping cfg vars a fs v h ha hv).2.1, (pong_per_ping cfg vars a fs v h ha hv).2.2, ?_⟩
    apply outcome_as_demanded cfg vars a fs v h ha hv
    intro x hx
    cases hb : isBadBytes x
    · rfl
    · simp [trigBinaryNotUtf8, hk, hst, hx, hb] at hs2
  · intro a fs hfr ha hr
    subst hfr
    apply readable_clean_serialised vars hr
    cases hf : hasForeignVars vars
    · rfl
    · simp [trigVarsNeedJsonableDefault, hk, ha, hr, hf] at hs3

/-! ## 7. Non-vacuity: concrete inputs satisfying the hypotheses, hitting each clause -/

example : Supported_13 cfg0 none [frAck, frNext (.obj [("counter", .num 1 0)]), frPing, frComplete, frPing] := by
  simp [Supported_13, trigFalsyNextData, trigBinaryNotUtf8, trigVarsNeedJsonableDefault, hasForeignVars, streamed, cfg0, J.hasKey, J.lookup, frAck, frNext,
    frPing, frComplete, letter, Letter.isAck, serialise, prefixUntilTerminal, firstTerminal, continuesF,
    Letter.continues, Letter.falsyNext, J.truthy, isBadBytes]

/-- the trigger of C13-F2 is true of its witness (so the witness is outside `C13_partial`) -/
example : trigFalsyNextData cfg0 none [frAck, frNext (.obj [])] = true := by
  simp [trigFalsyNextData, streamed, cfg0, J.hasKey, J.lookup, frAck, frNext, letter, Letter.isAck, serialise,
    prefixUntilTerminal, continuesF, Letter.continues, Letter.falsyNext, J.truthy]

example : trigBinaryNotUtf8 cfg0 none [frAck, .badBytes] = true := by
  simp [trigBinaryNotUtf8, streamed, cfg0, J.hasKey, J.lookup, frAck, letter, Letter.isAck, serialise,
    firstTerminal, continuesF, Letter.continues, isBadBytes]

example : continuesF frPing = true ∧ continuesF (frNext (.num 0 0)) = true ∧ letter frComplete = .complete ∧
    InvalidLetter frUnknown ∧ letter frError = .error [.obj [("message", .str "boom")]] := by
  refine ⟨?_, ?_, ?_, ?_, ?_⟩ <;>
    simp [continuesF, frPing, frNext, frComplete, frUnknown, frError, InvalidLetter, letter, J.lookup,
      Letter.continues, errShaped]

/-- the trigger of C13-F4 is true of its witness, and a clean readable value is outside it -/
example : trigVarsNeedJsonableDefault cfg0 varsF4 [frAck] = true := by
  simp [trigVarsNeedJsonableDefault, cfg0, J.hasKey, J.lookup, frAck, letter, Letter.isAck, varsF4, readableVars,
    readableTop, readable, hasForeignVars, hasForeignKvs, hasForeign]

example : readableVars (some [("a", .unset), ("w", .modelPy [("since", .foreign (some (.str "x")))]),
    ("l", .list [.model (.obj []), .foreign (some .null)])]) = true := by
  simp [readableVars, readableTop, readable, readableList, plainPFKvs, plainPF]

/-- an `Upload` is outside the reading and refused the same way (`foreign_never_serialised`) -/
example : readableVars (some [("file", .foreign none)]) = false ∧
    serialise (some [("file", .foreign none)]) = .typeError := ⟨by simp [readableVars, readableTop, readable], rfl⟩

/-- variables with a top-level UNSET, a model and a list of models serialise -/
example : Serialised
    (some [("a", .num 1 0), ("skip", .unset), ("input", .model (.obj [("id", .str "x")])),
           ("items", .list [.model (.obj [("x", .num 1 0)]), .null])])
    (some (.obj [("a", .num 1 0), ("input", .obj [("id", .str "x")]),
                 ("items", .arr [.obj [("x", .num 1 0)], .null])])) :=
  Or.inr ⟨_, rfl, rfl⟩

/-- `None` and `{}` give no `variables` member; `{"a": UNSET}` gives an empty one -/
example : Serialised none none ∧ Serialised (some []) none ∧ Serialised (some [("a", .unset)]) (some (.obj [])) :=
  ⟨Or.inl ⟨rfl, rfl⟩, Or.inl ⟨rfl, rfl⟩, Or.inr ⟨_, rfl, rfl⟩⟩

/-- outside the reading of the property (recorded, not claimed): UNSET below the top level makes
    `json.dumps` raise -/
example : serialise (some [("a", .list [.unset])]) = .typeError := rfl

/-- a whole run, evaluated: ack, next, ping, falsy next, complete, (ignored) next -/
example :
    (runPlain cfg0 none [frAck, frNext (.num 7 0), frPing, frNext (.num 0 0), frComplete, frNext (.num 8 0)]).sent
      = [initMsg cfg0, subscribeMsg cfg0 none, .pong] ∧
    (runPlain cfg0 none [frAck, frNext (.num 7 0), frPing, frNext (.num 0 0), frComplete, frNext (.num 8 0)]).yielded
      = [.num 7 0] := by
  have hv : Serialised none none := Or.inl ⟨rfl, rfl⟩
  refine ⟨?_, ?_⟩
  · rw [(exactly_one_subscribe cfg0 none frAck _ none cfg0_ok frAck_isAck hv).1]
    simp [pingCount, pingF, prefixUntilTerminal, continuesF, frNext, frPing, frComplete, letter, J.lookup,
      Letter.continues, Letter.isPing]
  · rw [yields_in_order_partial cfg0 none frAck _ none cfg0_ok frAck_isAck hv]
    simp [prefixUntilTerminal, continuesF, frNext, frPing, frComplete, letter, J.lookup, Letter.continues,
      Letter.truthyNextData, J.truthy]

/-! ## 8. The GENERATED subscription method (client_generators/client.py) composed with `execute_ws`

  `SubMethod.emit` = which name `_generate_subscription_method_def` puts in which position after
  `get_variable_names`; `SubMethod.call` = Python's evaluation of those statements; `runMethod` =
  that call handed to the base client.  Parameter list and variables dict (ArgumentsGenerator,
  C03) are inputs, universally quantified. -/

open Ariadne.SubMethod in
/-- the model of a generated subscription method on the extracted tables -/
def runGenerated (cfg : Cfg) (params : List String) (dict : List (String × String)) (opName opText : String)
    (args : List (String × PV)) (frames : List Frame) : Trace :=
  SubMethod.runMethod Tables.wsTypesAsync Tables.wsSubprotocolAsync cfg (SubMethod.emit params dict opName)
    opText params args frames

/-- The generated signature is a legal Python signature whose variables dict only mentions its own
    parameters, and the (possibly renamed) locals `query` / `variables` are not parameters
    themselves.  The complement is C03's finding region (C03-F1: `$query` together with `$_query`,
    C03-F2/F3: a variable called `self` / `kwargs`), not judged by C13. -/
structure MethodWF (params : List String) (dict : List (String × String)) : Prop where
  noSelf : "self" ∉ params
  noKwargs : "kwargs" ∉ params
  dictFromParams : ∀ kv ∈ dict, kv.2 ∈ params
  queryLocalFree : (SubMethod.emit params dict "").queryTarget ∉ params
  varsLocalFree : (SubMethod.emit params dict "").varsTarget ∉ params

/-- the caller's values under the original GraphQL names -/
def callerVariables (dict : List (String × String)) (args : List (String × PV)) : List (String × PV) :=
  dict.map fun kv => (kv.1, SubMethod.argValue args kv.2)

/-- **generated_method_call**: for every parameter-name list (the names that clash with the method's
    locals - `query`, `variables`, `response`, `data` - included: they are renamed consistently) the
    generated body passes the operation document as `query=`, the caller's values under the
    GraphQL names as `variables=`, and the caller's `**kwargs`. -/
theorem generated_method_call (params : List String) (dict : List (String × String)) (opName opText : String)
    (args : List (String × PV)) (h : MethodWF params dict) :
    SubMethod.call (SubMethod.emit params dict opName) opText (SubMethod.initEnv params args) =
      .ok (.doc, .vars (callerVariables dict args), .kwargs) :=
  SubMethodProofs.emitted_call params dict opName opText args h.noSelf h.noKwargs h.dictFromParams
    h.queryLocalFree h.varsLocalFree

/-- the generated method is `execute_ws` on (operation document, operation name, caller's variables) -/
theorem generated_method_runs_execute_ws (cfg : Cfg) (params : List String) (dict : List (String × String))
    (opName opText : String) (args : List (String × PV)) (frames : List Frame) (h : MethodWF params dict) :
    runGenerated cfg params dict opName opText args frames =
      runPlain { cfg with query := opText, opName := some opName } (some (callerVariables dict args)) frames := by
  have hc := generated_method_call params dict opName opText args h
  unfold runGenerated SubMethod.runMethod SubMethod.runMethodWith
  rw [hc]
  rfl

/-- **generated_method_subscribe**: after the ack the generated method sends exactly one subscribe,
    carrying the operation document, the operation's name and the serialised caller's variables -
    for every variable-name list, configuration and frame list. -/
theorem generated_method_subscribe (cfg : Cfg) (params : List String) (dict : List (String × String))
    (opName opText : String) (args : List (String × PV)) (a : Frame) (fs : List Frame) (v : Option J)
    (h : MethodWF params dict) (hk : NoDupKw cfg) (ha : (letter a).isAck = true)
    (hv : Serialised (some (callerVariables dict args)) v) :
    (runGenerated cfg params dict opName opText args (a :: fs)).sent.filter Msg.isSubscribe =
      [.subscribe cfg.opId opText (some opName) v] := by
  rw [generated_method_runs_execute_ws cfg params dict opName opText args (a :: fs) h]
  exact (exactly_one_subscribe { cfg with query := opText, opName := some opName } _ a fs v hk ha hv).2.1

def PV.isUnset : PV → Bool
  | .unset => true
  | _ => false

/-- arguments left `UNSET` are omitted from the serialised variables -/
theorem variables_omit_unset (kvs : List (String × PV)) :
    convDict kvs = convDict (kvs.filter fun kv => !PV.isUnset kv.2) := by
  induction kvs with
  | nil => rfl
  | cons kv kvs ih =>
    obtain ⟨k, v⟩ := kv
    cases v <;> simp [convDict, PV.isUnset, List.filter_cons, ih]

/-- the clashing names of the coordinator's seeded change: `$query`, `$variables`, `$data` -/
example : MethodWF ["query", "limit", "variables", "data"]
    [("query", "query"), ("limit", "limit"), ("variables", "variables"), ("data", "data")] := by
  refine ⟨by decide, by decide, by decide, ?_, ?_⟩ <;>
    simp [SubMethod.emit, ClientMethod.getVariableNames, ClientMethod.rename, ClientMethod.selfName]

example : (SubMethod.emit ["query", "limit"] [("query", "query"), ("limit", "limit")] "Search").callQuery = "_query" := by
  simp [SubMethod.emit, ClientMethod.getVariableNames, ClientMethod.rename, ClientMethod.selfName]

/-- what the theorem excludes: a body that passes the un-renamed name `query` sends the caller's
    argument as the document (this is the seeded change C13-subscription-query-shadow) -/
example :
    SubMethod.call { SubMethod.emit ["query"] [("query", "query")] "Search" with callQuery := "query" } "DOC"
        (SubMethod.initEnv ["query"] [("query", .str "needle")])
      = .ok (.arg (.str "needle"), .vars [("query", .str "needle")], .kwargs) := by
  simp [SubMethod.call, SubMethod.emit, SubMethod.initEnv, SubMethod.assign, SubMethod.lookup, SubMethod.evalDict,
    SubMethod.argValue, ClientMethod.getVariableNames, ClientMethod.rename, ClientMethod.selfName]

/-- outside `MethodWF` (C03-F1, not judged here): `$query` and `$_query` together -/
example : ¬ MethodWF ["query", "_query"] [("query", "query"), ("_query", "_query")] := by
  intro h
  have := h.queryLocalFree
  simp [SubMethod.emit, ClientMethod.getVariableNames, ClientMethod.rename, ClientMethod.selfName] at this


/-- the loop of the generated method hands `model_validate` the element it just received, whatever
    the parameters are called (the loop target and the yield argument are the same - renamed - local,
    and the `async for` rebinds it on every round) -/
theorem generated_method_yields_item (params : List String) (dict : List (String × String)) (opName : String)
    (env : SubMethod.Env) :
    SubMethod.yieldValue (SubMethod.emit params dict opName) env = some .item :=
  SubMethodProofs.lookup_assign_same _ _ _

/-- what the theorem excludes: `yield Ret.model_validate(data)` where the loop variable was renamed
    to `_data` validates the caller's argument instead of the element -/
example :
    SubMethod.yieldValue { SubMethod.emit ["data"] [("data", "data")] "Feed" with yieldArg := "data" }
        (SubMethod.initEnv ["data"] [("data", .str "mine")]) = some (.arg (.str "mine")) := by
  simp [SubMethod.yieldValue, SubMethod.emit, SubMethod.initEnv, SubMethod.assign, SubMethod.lookup, SubMethod.argValue,
    ClientMethod.getVariableNames, ClientMethod.rename, ClientMethod.selfName]

/-! ## 9. The CONNECTION side on references: one client object, many subscriptions

  Model/WsClientHeap.lean.  `s` is any store of dict objects, `cl` any client object whose
  `ws_headers` / `ws_connection_init_payload` are addresses into it, every call names its
  `extra_headers` dict by address - so the dict given to the constructor, the dicts given to
  different calls and the dict of one call may all be the same object or not. -/

open Ariadne.WsHeap Ariadne.WsHeapProofs

/-- the three real code paths as executors over the extracted tables -/
def execOf : Variant → Cfg → Vars → List Frame → Trace
  | .plain => runPlain
  | .ot tracer => runOT tracer

theorem execOf_viaMerge (v : Variant) : HeadersViaMerge (execOf v) := by
  cases v with
  | plain => intro cfg vars fs; exact run_viaMerge Tables.wsTypesAsync Tables.wsSubprotocolAsync cfg vars fs
  | ot tracer =>
    intro cfg vars fs
    exact runOT_viaMerge tracer Tables.wsTypesAsyncOT Tables.wsSubprotocolAsyncOT cfg vars fs

theorem execOf_eq_plain (v : Variant) : execOf v = runPlain := by
  cases v with
  | plain => rfl
  | ot tracer => funext cfg vars fs; exact ot_equivalent tracer cfg vars fs

/-- **ws_merge_writes_only_own_object.**  The header statements of `execute_ws` - each of the three
    copies - on EVERY store and every pair of references: they succeed iff the references name
    objects; every object that existed before is what it was (`self.ws_headers.copy()` allocates, and
    `update` writes into the copy); the dict handed to `ws_connect` is the new object, holding the
    configured headers updated by the call's `extra_headers` (Python's `dict.update`). -/
theorem ws_merge_writes_only_own_object (v : Variant) (s : Store) (w : Nat) (e : Option Nat) :
    match v.merge s w e with
    | some (s', a) =>
        (∀ i, i < s.length → s'[i]? = s[i]?) ∧ a = s.length ∧
        ∃ d x, s[w]? = some d ∧ extraAt s e = some x ∧ s'[a]? = some (dictUpdate d (x.getD []))
    | none => s[w]? = none ∨ extraAt s e = none := by
  cases hw : s[w]? with
  | none =>
    rw [variant_merge_eq]
    simp [mergeHeadersS, hw]
  | some d =>
    cases he : extraAt s e with
    | none =>
      rw [variant_merge_eq]
      cases e with
      | none => simp [extraAt] at he
      | some a =>
        simp only [extraAt, Option.map_eq_none_iff] at he
        have hlt : ¬ a < s.length := by
          intro hlt; rw [List.getElem?_eq_getElem hlt] at he; cases he
        simp [mergeHeadersS, hw, hlt]
    | some x =>
      obtain ⟨tail, hm⟩ := merge_closed v s w e d x hw he
      rw [hm]
      refine ⟨fun i hi => List.getElem?_append_left hi, rfl, d, x, rfl, rfl, by simp⟩

/-- The theorem above is about the code, not about the shape of the model: the condensed rewrite
    that updates `self.ws_headers` itself (Model/WsClientHeap.lean `mergeHeadersInPlaceS`) writes
    the per-call headers into the configured object - which, after `ws_headers or {}`, is the dict
    the caller passed to the constructor. -/
theorem inplace_merge_breaks_frame :
    ∃ (s s' : Store) (a : Nat), mergeHeadersInPlaceS s 0 (some 1) = some (s', a) ∧ s'[0]? ≠ s[0]? :=
  ⟨[[("Authorization", .str "Bearer service")], [("Authorization", .str "Bearer user-42")]], _, _, rfl,
    by intro h; simp [dictUpdate, dictSet] at h⟩

/-- **constructor_keeps_reference.**  `self.ws_headers = ws_headers or {}`: a non-empty dict is kept
    by reference and nothing is allocated; `None` / `{}` give the client a new empty dict; in every
    case every object that existed is what it was and the client's references name objects. -/
theorem constructor_keeps_reference (s : Store) (a : CtorArgs) (s0 : Store) (cl : ClientObj)
    (h : construct s a = some (s0, cl)) :
    (∃ t, s0 = s ++ t) ∧ (s0[cl.wsHeaders]?).isSome = true ∧ cl.url = a.wsUrl ∧ cl.initPayload = a.initPayload ∧
    (∀ hd d rest, a.wsHeaders = some hd → s[hd]? = some (d :: rest) → cl.wsHeaders = hd ∧ s0 = s) ∧
    ((a.wsHeaders = none ∨ ∃ hd, a.wsHeaders = some hd ∧ s[hd]? = some []) →
      cl.wsHeaders = s.length ∧ s0 = s ++ [[]]) := by
  unfold construct at h
  by_cases hi : refOk s a.initPayload = true
  case neg => simp [hi] at h
  case pos =>
    simp only [hi, if_true] at h
    cases hh : a.wsHeaders with
      | none =>
        simp only [hh, Option.some.injEq, Prod.mk.injEq] at h
        obtain ⟨rfl, rfl⟩ := h
        refine ⟨⟨[[]], rfl⟩, by simp, rfl, rfl, (by intro hd d rest h1; cases h1), fun _ => ⟨rfl, rfl⟩⟩
      | some hd =>
        simp only [hh] at h
        cases hs : s[hd]? with
        | none => simp [hs] at h
        | some o =>
          cases o with
          | nil =>
            simp only [hs, Option.some.injEq, Prod.mk.injEq] at h
            obtain ⟨rfl, rfl⟩ := h
            refine ⟨⟨[[]], rfl⟩, by simp, rfl, rfl, ?_, fun _ => ⟨rfl, rfl⟩⟩
            intro hd' d rest h1 h2
            cases h1
            rw [hs] at h2; cases h2
          | cons d rest =>
            simp only [hs, Option.some.injEq, Prod.mk.injEq] at h
            obtain ⟨rfl, rfl⟩ := h
            refine ⟨⟨[], by simp⟩, by simp [hs], rfl, rfl, ?_, ?_⟩
            · intro hd' d' rest' h1 _
              cases h1; exact ⟨rfl, rfl⟩
            · intro h1
              rcases h1 with h1 | ⟨hd', h1, h2⟩
              · cases h1
              · cases h1; rw [hs] at h2; cases h2

/-- **call_on_references.**  One `execute_ws` (any of the three code paths) on references: the store
    afterwards is the store before with new objects appended, the client object is the same, and
    the trace is the trace of the plain value-level model on the CONTENTS the references had. -/
theorem call_on_references (v : Variant) (s : Store) (cl : ClientObj) (c : HCall) (cfg : Cfg) (vars : Vars)
    (fs : List Frame) (h : cfgAt s cl c = some cfg) :
    ∃ tail, runH v.merge (execOf v) s cl c vars fs = some (s ++ tail, cl, runPlain cfg vars fs) := by
  obtain ⟨tail, ht⟩ := runH_eq v (execOf v) (execOf_viaMerge v) s cl c cfg vars fs h
  exact ⟨tail, by rw [ht, execOf_eq_plain]⟩

/-- what the `i`-th subscription shows when it is the only one ever made -/
def standalone (v : Variant) (s : Store) (cl : ClientObj) (st : Step) : Option Obs :=
  (cfgAt s cl st.call).map fun cfg => observe v st.refuse st.take (runPlain cfg st.vars st.frames)

/-- every reference of every step names an object of the initial store -/
def WfSteps (s : Store) (cl : ClientObj) (steps : List Step) : Prop :=
  ∀ st ∈ steps, (cfgAt s cl st.call).isSome = true

/-- **sequence_history_free.**  ANY number of subscriptions one after the other on ONE client object
    - completed, failed, refused or abandoned ones, with any per-call `extra_headers`, sharing dict
    objects with each other and with the constructor in any pattern: afterwards every dict object
    that existed (the one behind `self.ws_headers`, the one passed to the constructor, every
    caller's `extra_headers`, the init payload) holds what it held, the client object is the same,
    and the `i`-th subscription showed exactly what it shows when run alone on the fresh client. -/
theorem sequence_history_free (v : Variant) (s : Store) (cl : ClientObj) (steps : List Step)
    (hwf : WfSteps s cl steps) :
    (∀ i, i < s.length → (runSeqH v (execOf v) s cl steps).1[i]? = s[i]?) ∧
    (runSeqH v (execOf v) s cl steps).2.1 = cl ∧
    (runSeqH v (execOf v) s cl steps).2.2 = steps.map (standalone v s cl) := by
  obtain ⟨g', hg⟩ := runSeqH_eq v (execOf v) (execOf_viaMerge v) s cl steps hwf []
  simp only [List.append_nil] at hg
  rw [hg]
  refine ⟨fun i hi => List.getElem?_append_left hi, rfl, ?_⟩
  rw [execOf_eq_plain]
  rfl

/-- **each_socket_headers.**  The `i`-th socket of such a sequence is opened with the configured
    headers overridden by THAT call's `extra_headers` - and nothing else: for every header name, the
    value is the call's if the call names it, else the configured one, else there is none.
    (`cfg.headers` / `cfg.extraHeaders` are the contents the objects had before the FIRST call.) -/
theorem each_socket_headers (v : Variant) (s : Store) (cl : ClientObj) (steps : List Step)
    (hwf : WfSteps s cl steps) (i : Nat) (st : Step) (cfg : Cfg)
    (hst : steps[i]? = some st) (hcfg : cfgAt s cl st.call = some cfg) (hk : NoDupKw cfg) :
    (runSeqH v (execOf v) s cl steps).2.2[i]? =
      some (some (observe v st.refuse st.take (runPlain cfg st.vars st.frames))) ∧
    (runPlain cfg st.vars st.frames).events.head? = some (.connect (connectArgs subprotocol cfg)) ∧
    s[cl.wsHeaders]? = some cfg.headers ∧ extraAt s st.call.extraHeaders = some cfg.extraHeaders ∧
    (connectArgs subprotocol cfg).url = cl.url ∧
    (connectArgs subprotocol cfg).subprotocols = ["graphql-transport-ws"] ∧
    ∀ k, ((cfg.extraHeaders.getD []).map (·.1)).Nodup →
      J.lookup k (connectArgs subprotocol cfg).extraHeaders =
        match J.lookup k (cfg.extraHeaders.getD []) with
        | some x => some x
        | none => J.lookup k cfg.headers := by
  obtain ⟨hw, he, -, -, hu, -⟩ := cfgAt_parts s cl st.call cfg hcfg
  refine ⟨?_, ?_, hw, he, hu, rfl, fun k hn => dictUpdate_lookup _ _ k hn⟩
  · rw [(sequence_history_free v s cl steps hwf).2.2]
    simp [List.getElem?_map, hst, standalone, hcfg]
  · have := (init_first cfg st.vars st.frames hk).1
    cases hev : (runPlain cfg st.vars st.frames).events with
    | nil => simp [hev] at this
    | cons e rest =>
      cases rest with
      | nil => simp [hev] at this
      | cons e2 rest2 =>
        simp only [hev, List.take_succ_cons, List.take_zero, List.cons.injEq, and_true] at this
        simp [this.1, theConnect]

/-- **constructor_dict_unmodified.**  From the constructor on: whatever the caller passed as
    `ws_headers=` (and every other object of the caller) is unmodified after any sequence of
    subscriptions on the client that was built from it. -/
theorem constructor_dict_unmodified (v : Variant) (s : Store) (a : CtorArgs) (s0 : Store) (cl : ClientObj)
    (hc : construct s a = some (s0, cl)) (steps : List Step) (hwf : WfSteps s0 cl steps) :
    ∀ i, i < s.length → (runSeqH v (execOf v) s0 cl steps).1[i]? = s[i]? := by
  obtain ⟨⟨t, rfl⟩, -⟩ := constructor_keeps_reference s a s0 cl hc
  intro i hi
  rw [(sequence_history_free v (s ++ t) cl steps hwf).1 i (by simp; omega)]
  exact List.getElem?_append_left hi

/-- **interleaved_subscriptions_independent.**  For EVERY schedule of the steps of any number of
    concurrently open subscriptions on one client (any order of first `__anext__`s, unfinished
    ones allowed): no object that existed is written, the client object is the same, and every
    subscription that started shows what it shows alone. -/
theorem interleaved_subscriptions_independent (v : Variant) (s : Store) (cl : ClientObj) (steps : List Step)
    (hwf : WfSteps s cl steps) (sched : List Nat) :
    (∀ i, i < s.length → (runSchedule v (execOf v) (startW s cl steps) sched).store[i]? = s[i]?) ∧
    (runSchedule v (execOf v) (startW s cl steps) sched).client = cl ∧
    ∀ (i : Nat) st o, steps[i]? = some st →
      ((runSchedule v (execOf v) (startW s cl steps) sched).tasks[i]? = some (.opened o) ∨
       (runSchedule v (execOf v) (startW s cl steps) sched).tasks[i]? = some (.done o)) →
      o = standalone v s cl st := by
  obtain ⟨⟨g, hg⟩, h2, -, h4⟩ :=
    inv_schedule v (execOf v) (execOf_viaMerge v) s cl steps hwf sched _ (inv_start v (execOf v) s cl steps)
  refine ⟨fun i hi => by rw [hg]; exact List.getElem?_append_left hi, h2, ?_⟩
  intro i st o hst hp
  have key : o = alone v (execOf v) s cl st := by
    rcases hp with hp | hp
    · simpa [PhaseOk] using h4 i st _ hst hp
    · simpa [PhaseOk] using h4 i st _ hst hp
  rw [key, execOf_eq_plain]
  rfl

/-- non-vacuity: the coordinator's scenario.  Object 0 is the dict given to the constructor, object 1
    one caller's `extra_headers`; three subscriptions: with object 1, without, with object 0 ITSELF. -/
def store0 : Store := [[("Authorization", .str "Bearer service"), ("X-Tenant", .str "acme")],
                       [("Authorization", .str "Bearer user-42"), ("X-Request-Id", .str "req-1")]]
def client0 : ClientObj := { url := "ws://h/graphql", wsHeaders := 0, origin := none, initPayload := none }
def call0 (e : Option Nat) : HCall := { query := "subscription S { counter }", opName := some "S", extraHeaders := e, kwargs := [], opId := "id" }
def steps0 : List Step :=
  [{ call := call0 (some 1), vars := none, frames := [frAck, frComplete] },
   { call := call0 none, vars := none, frames := [frAck, frNext (.num 1 0)], take := some 1 },
   { call := call0 (some 0), vars := none, frames := [], refuse := some "OSError" }]

example : construct [store0[0]!, store0[1]!] ⟨"ws://h/graphql", some 0, none, none⟩ = some (store0, client0) := rfl
example : WfSteps store0 client0 steps0 := by
  intro st hst
  simp only [steps0, List.mem_cons, List.not_mem_nil, or_false] at hst
  rcases hst with rfl | rfl | rfl <;> rfl

/-- the second socket of that sequence is opened with the CONFIGURED Authorization, not the first call's -/
example : ∃ cfg, cfgAt store0 client0 (call0 none) = some cfg ∧
    (connectArgs subprotocol cfg).extraHeaders = [("Authorization", .str "Bearer service"), ("X-Tenant", .str "acme")] :=
  ⟨_, rfl, rfl⟩

/-- **current_configuration_each_time.**  Subscriptions on ONE client object with the OWNER'S edits in
    between - `client.ws_connection_init_payload = …` (a refreshed token), `client.ws_headers = …`,
    `ws_origin`, `ws_url` rebound, any dict the client refers to mutated in place: the store afterwards
    is the initial store with exactly the owner's edits applied (plus new objects), the client object
    is the owner's, and EVERY subscription shows what it shows alone on a client configured as the
    edits so far left it - nothing computed by an earlier subscription (a serialised init message,
    merged headers) survives in the client. -/
theorem current_configuration_each_time (v : Variant) (s : Store) (cl : ClientObj) (acts : List Action)
    (hwf : WfActs s cl acts) :
    (∃ g, (runActs v (execOf v) s cl acts).1 = (editsOnly s cl acts).1 ++ g) ∧
    (runActs v (execOf v) s cl acts).2.1 = (editsOnly s cl acts).2 ∧
    (runActs v (execOf v) s cl acts).2.2 = expectedObs v runPlain s cl acts := by
  obtain ⟨g', hg⟩ := runActs_eq v (execOf v) (execOf_viaMerge v) acts s cl [] hwf
  simp only [List.append_nil] at hg
  rw [hg, execOf_eq_plain]
  exact ⟨⟨g', rfl⟩, rfl, rfl⟩

/-- non-vacuity, the token refresh: object 0 = `{"token": "t1"}`, object 1 = `{"token": "t2"}`; subscribe,
    `client.ws_connection_init_payload = <object 1>`, subscribe, mutate object 1 in place, subscribe:
    the three `connection_init` messages carry t1, t2, t3. -/
def storeT : Store := [[("token", .str "t1")], [("token", .str "t2")], []]
def clientT : ClientObj := { url := "ws://h/graphql", wsHeaders := 2, origin := none, initPayload := some 0 }
def subT : Action := .sub { call := call0 none, vars := none, frames := [] }
def actsT : List Action := [subT, .edit (.setInit (some 1)), subT, .edit (.write 1 [("token", .str "t3")]), subT]

example : WfActs storeT clientT actsT := ⟨rfl, rfl, rfl, rfl, rfl, trivial⟩

example : ((expectedObs .plain runPlain storeT clientT actsT).map fun o => o.map fun ob => ob.events.drop 1) =
    [some [.send (.connectionInit (some (.obj [("token", .str "t1")])))],
     some [.send (.connectionInit (some (.obj [("token", .str "t2")])))],
     some [.send (.connectionInit (some (.obj [("token", .str "t3")])))]] := by
  simp [expectedObs, actsT, subT, alone, cfgAt, storeT, clientT, extraAt, initAt, call0, Edit.apply, observe, refuseAt,
    runPlain_eq, runT, J.hasKey, J.lookup, opened, initOf, J.truthy]

/-- an `error` message with an empty or a missing payload is the error letter with no entries: the
    stream ends with the multi-error (`error_raises_multi`, `outcome_as_demanded` apply) -/
example : letter (.json (.obj [("id", .str "1"), ("type", .str "error")])) = .error [] ∧
    letter (.json (.obj [("id", .str "1"), ("type", .str "error"), ("payload", .arr [])])) = .error [] ∧
    continuesF (.json (.obj [("type", .str "error")])) = false := by
  refine ⟨?_, ?_, ?_⟩ <;> simp [letter, J.lookup, continuesF, Letter.continues]

/-! ## 10. The consumer's side: refused connections, abandoned iterators -/

/-- `ws_connect(...)` is called with the same arguments and `__aenter__` raises: the exception
    escapes, nothing is sent, no socket was entered - in all three variants. -/
theorem refused_connection (v : Variant) (cfg : Cfg) (vars : Vars) (fs : List Frame) (exc : String)
    (h : NoDupKw cfg) :
    observe v (some exc) none (runPlain cfg vars fs) = ⟨[theConnect cfg], some (.internal exc), .notOpened⟩ := by
  have := (init_first cfg vars fs h).1
  cases hev : (runPlain cfg vars fs).events with
  | nil => simp [hev] at this
  | cons e rest =>
    cases rest with
    | nil => simp [hev] at this
    | cons e2 rest2 =>
      simp only [hev, List.take_succ_cons, List.take_zero, List.cons.injEq, and_true] at this
      obtain ⟨rfl, -⟩ := this
      simp [observe, refuseAt, hev, theConnect, opened]

/-- **abandoned_iterator.**  The consumer takes `n + 1` items and calls `aclose()`: what happened is
    a prefix of the full run ending with the `n + 1`-th yield - nothing is sent, received or closed
    after the consumer stopped; the socket is released before `aclose()` returns in the plain
    client and only by the event loop's finaliser in the OpenTelemetry client (its `execute_ws` is a
    wrapper generator that does not close the inner one).  If the run has fewer yields the iterator
    ends by itself and the observation is the full one. -/
theorem abandoned_iterator (v : Variant) (n : Nat) (tr : Trace) :
    (∀ evs, cut (n + 1) tr.events = some evs →
      observe v none (some (n + 1)) tr = ⟨evs, none, if v.deferredRelease then .deferred else .sync⟩ ∧
      evs <+: tr.events ∧ (evs.filterMap Ev.yielded?).length = n + 1 ∧ ∃ d, evs.getLast? = some (.yield d)) ∧
    (cut (n + 1) tr.events = none →
      observe v none (some (n + 1)) tr = observe v none none tr ∧ tr.yielded.length < n + 1) := by
  refine ⟨fun evs h => ?_, fun h => ?_⟩
  · obtain ⟨h1, h2⟩ := cut_yields (n + 1) tr.events evs h
    exact ⟨by simp [observe, refuseAt, h], cut_prefix _ _ _ h, h1, h2 (Nat.succ_pos n)⟩
  · exact ⟨by simp [observe, refuseAt, h], cut_none _ _ h⟩

/-- `aclose()` before the first `__anext__`: the body never starts - no connect, nothing -/
theorem never_started (v : Variant) (refuse : Option String) (tr : Trace) :
    observe v refuse (some 0) tr = ⟨[], none, .notOpened⟩ := rfl

/-- the variants differ in NOTHING the consumer or the server can see - events and outcome - for every
    consumer behaviour; only the moment of the release of an abandoned socket differs -/
theorem ot_equivalent_observed (tracer : Bool) (refuse : Option String) (take : Option Nat) (tr : Trace) :
    (observe (.ot tracer) refuse take tr).events = (observe .plain refuse take tr).events ∧
    (observe (.ot tracer) refuse take tr).outcome = (observe .plain refuse take tr).outcome ∧
    (take = none → observe (.ot tracer) refuse take tr = observe .plain refuse take tr) := by
  cases take with
  | none => exact ⟨rfl, rfl, fun _ => rfl⟩
  | some n =>
    cases n with
    | zero => exact ⟨rfl, rfl, fun h => by cases h⟩
    | succ n =>
      simp only [observe]
      cases cut (n + 1) (refuseAt refuse tr).events <;> exact ⟨rfl, rfl, fun h => by cases h⟩

end Ariadne.C13
