/-
  C18 — GraphQL names map lawfully to Python names.

  Statements (and their final proofs) about the model in Model/Names.lean; helper lemmas are in
  Proofs/Names.lean.  Quantification: every name (list of characters) of the stated domain, of any
  length; every combination of the three flags of `process_name`; every scope; every list of names.
  Tables (`kwlist`, `pydanticReserved`, the fallback literal, `__typename`/`typename__`) are the ones
  regenerated from /repo on every run; facts about them are discharged by `decide +kernel`.
-/
import AriadneModel.Proofs.Names

set_option linter.unusedSimpArgs false
set_option linter.unusedVariables false

namespace Ariadne.C18
open Ariadne Ariadne.Names

/-! ## 1. Table law: appending `_` to a keyword never yields a keyword or a reserved name -/

/-- `suffix_not_keyword`, on the tables as strings. -/
theorem suffix_not_keyword :
    ∀ k ∈ Tables.kwlist, (k ++ "_") ∉ Tables.kwlist ++ Tables.pydanticReserved := by decide +kernel

/-- the same for reserved pydantic names (the second suffix step) -/
theorem suffix_not_reserved :
    ∀ r ∈ Tables.pydanticReserved, (r ++ "_") ∉ Tables.kwlist ++ Tables.pydanticReserved := by decide +kernel

/-- no keyword / reserved name begins with an underscore (so trimming never *creates* the need for
    the check to have run earlier on the untrimmed name) and none is empty -/
theorem tables_shape :
    ∀ k ∈ Tables.kwlist ++ Tables.pydanticReserved, k ≠ "" ∧ k.toList.head? ≠ some '_' := by decide +kernel

/-! ## 2. `str_to_snake_case` -/

/-- `snake_idempotent`: for every name (no hypothesis needed). -/
theorem snake_idempotent (n : Name) : snake (snake n) = snake n := snake_idem n

/-- `alnum_preserved` for `str_to_snake_case`: the letters and digits of the output are those of
    the input, in order, lower-cased. -/
theorem snake_alnum_preserved (n : Name) : alnum (snake n) = lower (alnum n) := alnum_snake n

/-- the output is a word string whose words are separated by single underscores: tokenizing it
    again gives the same words -/
theorem snake_tokens_fixed (n : Name) : tokens (snake n) = (tokens n).map lower :=
  tokens_joinU _ (snakeWords_canon n)

example : snake "fooBarHTTPResponse2x_ABc".toList = "foo_bar_http_response_2_x_a_bc".toList := by decide +kernel


/-! ## 3. `process_name`: letters kept -/

/-- `alnum_preserved`, for every name and every flag combination: unless the all-underscore
    fallback fires, the letters and digits of the output are exactly those of the input, in order -
    lower-cased when snake-casing is on, with their case kept when it is off. -/
theorem alnum_preserved (cfg : Cfg) (n : Name) (h : fallbackFires cfg n = false) :
    alnum (processName cfg n) = if cfg.snake then lower (alnum n) else alnum n :=
  alnum_processName cfg n h

/-- ... and when it fires the input had no letter or digit to keep (the output is the literal). -/
theorem alnum_fallback (cfg : Cfg) (n : Name) (h : fallbackFires cfg n = true) :
    alnum n = [] ∧ processName cfg n = fallbackName :=
  fallback_processName cfg n h

example : fallbackFires ⟨true, true, true⟩ "fooBar".toList = false := by decide +kernel
example : fallbackFires ⟨false, true, true⟩ "__".toList = true := by decide +kernel

/-! ## 4. `process_name`: the output is a usable Python name, exactly outside two trigger regions -/

/-- `valid_identifier_iff`: for every GraphQL name and every flag combination the output is a valid
    identifier, not a keyword, and (when the reserved-names flag is on) not a public attribute of
    pydantic's BaseModel  ⇔  the name lies in neither finding region
    (C18-F4 `trigDigitLead`: `_1` → `1`;  C18-F5 `trigTrimToKeyword`: `_class` → `class`). -/
theorem valid_identifier_iff (cfg : Cfg) (n : Name) (hg : GName n) :
    OutOK cfg (processName cfg n) ↔ (trigDigitLead cfg n = false ∧ trigTrimToKeyword cfg n = false) := by
  have hw := gname_word hg
  cases hs : cfg.snake
  · -- snake-casing off
    cases n with
    | nil => exact absurd hg (by simp [GName])
    | cons c r =>
      by_cases hc : c = '_'
      · subst hc
        cases ht : cfg.trim
        · -- nothing is stripped: the suffixed name
          rw [processName_plain cfg _ hs ht (by simp), outOK_iff, pyIdent_suffix cfg _ (by simp)]
          simp [trigDigitLead, trigTrimToKeyword, hs, ht, suspect_suffix]
          exact hg
        · rw [processName_trim_lead cfg r hs ht]
          have hne : ('_' :: r) ≠ lstripU ('_' :: r) := by
            rw [lstripU_underscore]
            intro e
            have : ('_' : Char) ∈ lstripU r := by rw [← e]; simp
            rcases lstripU_shape r with h | ⟨d, r', h, hd⟩
            · rw [h] at this; simp at this
            · have e' := e; rw [h] at e'; injection e' with e1 _; exact hd e1.symm
          rcases lstripU_shape r with hl | ⟨d, r', hl, hd⟩
          · simp [hl, outOK_fallback, trigDigitLead, trigTrimToKeyword, hs, ht, lstripU_underscore, cls1, suspect_nil]
          · have hwl : Word (d :: r') := by
              rw [← hl]; exact word_lstripU ((word_cons _ _).mp hw).2
            rw [hl]
            simp only [List.cons_ne_nil, if_false, outOK_iff, pyIdent_of_word_ne hwl hd]
            simp only [trigDigitLead, trigTrimToKeyword, hs, ht, lstripU_underscore, hl, cls1]
            have hne' : ('_' :: r != d :: r') = true := by
              simp only [bne_iff_ne, ne_eq]; rw [← hl]; rw [lstripU_underscore] at hne; exact hne
            simp [hne']
      · rw [processName_trim_nolead cfg c r hs hc, outOK_iff, pyIdent_suffix cfg _ (by simp)]
        have hD : cls c ≠ .D := by
          rcases hg.1 with e | e | e
          · simp [e]
          · simp [e]
          · exact absurd e hc
        simp only [suspect_suffix, and_true, trigDigitLead, trigTrimToKeyword, hs, lstripU_of_ne r hc, cls1]
        simp [hD]
        exact hg
  · -- snake-casing on
    have hT : trigTrimToKeyword cfg n = false := by simp [trigTrimToKeyword, hs]
    cases hu : allUnderscore n
    · rw [processName_snake cfg n hs hu]
      have hnu : ¬ ∀ c ∈ n, c = '_' := by
        intro hall
        have : allUnderscore n = true := (allUnderscore_iff n).mpr ⟨by intro e; subst e; simp [GName] at hg, hall⟩
        rw [hu] at this; exact absurd this (by simp)
      rcases snake_head n with ⟨h1, _⟩ | ⟨a, as, r, h1, h2⟩
      · exact absurd h1 (alnum_ne_nil_of_word hw hnu)
      · have haO : cls a ≠ .O := by
          have : a ∈ alnum n := by rw [h1]; simp
          simpa [alnum] using (List.mem_filter.mp this).2
        have hws : Word (lowerChar a :: r) := by rw [← h2]; exact word_snake n
        rw [outOK_iff, h2, pyIdent_suffix cfg _ (by simp), suspect_suffix,
          pyIdent_of_word_ne hws (ne_underscore_of_cls (cls_lowerChar_ne_O haO))]
        simp only [and_true, hT, trigDigitLead, hs, if_true, h1, cls1]
        rw [cls_lowerChar]
        cases hca : cls a <;> simp
    · rw [processName_snake_allU cfg n hs hu]
      simp [outOK_fallback, hT, trigDigitLead, hs, allUnderscore_alnum hu, cls1]

example : GName "_1".toList ∧ trigDigitLead ⟨true, true, true⟩ "_1".toList = true := by decide +kernel
example : GName "_class".toList ∧ trigTrimToKeyword ⟨false, true, true⟩ "_class".toList = true := by decide +kernel
example : GName "fooBar".toList ∧ trigDigitLead ⟨true, true, true⟩ "fooBar".toList = false
    ∧ trigTrimToKeyword ⟨false, true, true⟩ "fooBar".toList = false := by decide +kernel

/-- C18-F4 on the model: `_1` becomes `1`. -/
theorem digit_lead_witness : processName ⟨true, true, true⟩ "_1".toList = "1".toList ∧
    ¬ PyIdent (processName ⟨true, true, true⟩ "_1".toList) := by decide +kernel

/-- C18-F5 on the model: with snake-casing off `_class` becomes the keyword, `_copy` shadows `BaseModel.copy`. -/
theorem trim_to_keyword_witness :
    processName ⟨false, true, true⟩ "_class".toList = "class".toList ∧ "class".toList ∈ kwlistC ∧
    processName ⟨false, true, true⟩ "_copy".toList = "copy".toList ∧ "copy".toList ∈ reservedC := by decide +kernel


/-! ## 5. `process_name`: idempotence, exactly outside two trigger regions -/

/-- `process_idempotent`, as an equivalence: for every GraphQL name and every flag combination,
    mapping the output again changes nothing  ⇔  the name lies in neither
    C18-F6 `trigFallbackNotFixed` (snake-casing on, all-underscore name: `_` → `underscore_named_field_`
    → `underscore_named_field`) nor C18-F5 `trigTrimToKeyword` (`_class` → `class` → `class_`).
    In particular it holds for all names under (snake off, trim off), for all names with a letter
    or digit under snake on, and fails on the two witnesses below. -/
theorem process_idempotent_iff (cfg : Cfg) (n : Name) (hg : GName n) :
    processName cfg (processName cfg n) = processName cfg n ↔
      (trigFallbackNotFixed cfg n = false ∧ trigTrimToKeyword cfg n = false) := by
  have hw := gname_word hg
  cases hs : cfg.snake
  · have hF : trigFallbackNotFixed cfg n = false := by simp [trigFallbackNotFixed, hs]
    simp only [hF, true_and]
    cases n with
    | nil => exact absurd hg (by simp [GName])
    | cons c r =>
      by_cases hc : c = '_'
      · subst hc
        cases ht : cfg.trim
        · have hT : trigTrimToKeyword cfg ('_' :: r) = false := by simp [trigTrimToKeyword, ht]
          rw [processName_plain cfg ('_' :: r) hs ht (by simp),
            processName_plain cfg (suffix cfg ('_' :: r)) hs ht (suffix_ne_nil cfg (by simp)), suffix_idem]
          simp [hT]
        · rw [processName_trim_lead cfg r hs ht]
          rcases lstripU_shape r with hl | ⟨d, r', hl, hd⟩
          · simp [hl, processName_fallback_plain cfg hs, trigTrimToKeyword, lstripU_underscore, suspect_nil]
          · have hne' : ('_' :: r != d :: r') = true := by
              simp only [bne_iff_ne, ne_eq]
              intro e; injection e with e1 _; exact hd e1.symm
            simp only [hl, List.cons_ne_nil, if_false]
            rw [processName_trim_nolead cfg d r' hs hd, suffix_eq_self_iff]
            simp [trigTrimToKeyword, hs, ht, lstripU_underscore, hl, hne']
      · have hT : trigTrimToKeyword cfg (c :: r) = false := by
          simp [trigTrimToKeyword, lstripU_of_ne r hc]
        rw [processName_trim_nolead cfg c r hs hc]
        obtain ⟨r', hr'⟩ := suffix_head cfg c r
        have h2 := processName_trim_nolead cfg c r' hs hc
        rw [← hr'] at h2
        rw [h2, suffix_idem]
        simp [hT]
  · have hT : trigTrimToKeyword cfg n = false := by simp [trigTrimToKeyword, hs]
    simp only [hT, and_true]
    cases hu : allUnderscore n
    · have hnu : ¬ ∀ c ∈ n, c = '_' := by
        intro hall
        have : allUnderscore n = true := (allUnderscore_iff n).mpr ⟨by intro e; subst e; simp [GName] at hg, hall⟩
        rw [hu] at this; exact absurd this (by simp)
      rw [processName_snake_fixed cfg n hs hu (alnum_ne_nil_of_word hw hnu)]
      simp [trigFallbackNotFixed, hu]
    · rw [processName_snake_allU cfg n hs hu]
      simp [trigFallbackNotFixed, hs, hu, processName_fallback_snake cfg hs]

/-- the usual form: idempotent on every GraphQL name outside the two finding regions -/
theorem process_idempotent (cfg : Cfg) (n : Name) (hg : GName n)
    (h6 : trigFallbackNotFixed cfg n = false) (h5 : trigTrimToKeyword cfg n = false) :
    processName cfg (processName cfg n) = processName cfg n :=
  (process_idempotent_iff cfg n hg).mpr ⟨h6, h5⟩

/-- the flag combinations for which it holds for ALL GraphQL names: snake-casing off and trimming off -/
theorem process_idempotent_plain (cfg : Cfg) (hs : cfg.snake = false) (ht : cfg.trim = false) (n : Name) (hg : GName n) :
    processName cfg (processName cfg n) = processName cfg n :=
  process_idempotent cfg n hg (by simp [trigFallbackNotFixed, hs]) (by simp [trigTrimToKeyword, ht])

/-- ... and it is false for every other flag combination (snake on: `_`; snake off, trim on: `_class`) -/
theorem process_idempotent_false :
    (∀ t r, processName ⟨true, t, r⟩ (processName ⟨true, t, r⟩ "_".toList) ≠ processName ⟨true, t, r⟩ "_".toList) ∧
    (∀ r, processName ⟨false, true, r⟩ (processName ⟨false, true, r⟩ "_class".toList) ≠ processName ⟨false, true, r⟩ "_class".toList) := by
  decide +kernel

example : GName "__".toList ∧ trigFallbackNotFixed ⟨true, false, false⟩ "__".toList = true := by decide +kernel
example : GName "fooBar".toList ∧ trigFallbackNotFixed ⟨true, true, true⟩ "fooBar".toList = false := by decide +kernel


/-! ## 6. The wire name is kept -/

/-- `wire_name_kept`: in every scope and for every name, the name that travels is the original:
    pydantic fields carry `alias=<original>` exactly when the Python name differs (else the Python
    name *is* the original), variables are keyed by the original in the `variables` dict, operations
    are sent under the original `operation_name`, enum members keep the original as their value. -/
theorem wire_name_kept (snakeSetting : Bool) (s : Scope) (n : Name) : (emit snakeSetting s n).wire = n := by
  cases s <;> simp only [emit]
  · by_cases h : pyName snakeSetting .resultField n = n <;> simp [h]
  · by_cases h : pyName snakeSetting .inputField n = n <;> simp [h]

/-- the alias is emitted exactly when needed -/
theorem alias_iff (snakeSetting : Bool) (n : Name) :
    ((emit snakeSetting .resultField n).alias = some n ↔ (emit snakeSetting .resultField n).py ≠ n) ∧
    ((emit snakeSetting .inputField n).alias = some n ↔ (emit snakeSetting .inputField n).py ≠ n) := by
  constructor
  · by_cases h : pyName snakeSetting .resultField n = n <;> simp [emit, h]
  · by_cases h : pyName snakeSetting .inputField n = n <;> simp [emit, h]

example : emit true .resultField "fooBar".toList = ⟨"foo_bar".toList, some "fooBar".toList, "fooBar".toList⟩ := by decide +kernel
example : emit true .resultField "__typename".toList = ⟨"typename__".toList, some "__typename".toList, "__typename".toList⟩ := by decide +kernel
example : emit false .inputField "x".toList = ⟨"x".toList, none, "x".toList⟩ := by decide +kernel

/-! ## 7. When do two names of one scope get the same Python name? -/

/-- `collision_iff`: for GraphQL names `a`, `b` and every flag combination, `process_name` gives
    both the same Python name  ⇔  they are equal or the pair lies in one of the four merge regions
    (C18-F1 same lower-cased words under snake-casing; C18-F2 equal after `lstrip("_")`;
    C18-F3 keyword/reserved name vs. its suffixed form; C18-F7 all-underscore vs. the fallback literal).
    The regions are stated on the inputs only (Model/Names.lean) and are therefore exact. -/
theorem collision_iff (cfg : Cfg) (a b : Name) (ha : GName a) (hb : GName b) :
    processName cfg a = processName cfg b ↔ (a = b ∨ trigMerge cfg a b = true) := by
  cases hs : cfg.snake
  · cases ht : cfg.trim
    · rw [collide_plain cfg hs ht a b (gname_ne_nil ha) (gname_ne_nil hb)]
      simp [trigMerge, trigSnakeMerge, trigTrimMerge, trigSuffixMerge, trigFallbackMerge, stem, hs, ht]
    · rw [collide_trim cfg hs ht a b (gname_ne_nil ha) (gname_ne_nil hb)]
      simp only [TrimRHS, trigMerge, trigSnakeMerge, trigTrimMerge, trigSuffixMerge, trigFallbackMerge, stem, hs, ht]
      simp only [Bool.false_and, Bool.false_or, Bool.not_false, Bool.true_and, Bool.or_eq_true, Bool.and_eq_true,
        beq_iff_eq, bne_iff_ne, ne_eq, Bool.not_eq_true', if_true]
      constructor
      · rintro (h | h | h | h)
        · exact Or.inl h
        · exact Or.inr (Or.inl (Or.inl h))
        · exact Or.inr (Or.inl (Or.inr h))
        · exact Or.inr (Or.inr (by simpa [and_assoc] using h))
      · rintro (h | (h | h) | h)
        · exact Or.inl h
        · exact Or.inr (Or.inl h)
        · exact Or.inr (Or.inr (Or.inl h))
        · exact Or.inr (Or.inr (Or.inr (by simpa [and_assoc] using h)))
  · rw [collide_snake cfg hs a b ha hb]
    simp only [trigMerge, trigSnakeMerge, trigTrimMerge, trigSuffixMerge, trigFallbackMerge, hs]
    simp only [Bool.true_and, Bool.not_true, Bool.false_and, Bool.or_false, beq_iff_eq]
    constructor
    · intro h; exact Or.inr h
    · rintro (h | h)
      · rw [h]
      · exact h

example : trigMerge ⟨true, true, true⟩ "fooBar".toList "foo_bar".toList = true := by decide +kernel
example : trigMerge ⟨false, true, true⟩ "_x".toList "x".toList = true := by decide +kernel
example : trigMerge ⟨false, false, false⟩ "class".toList "class_".toList = true := by decide +kernel
example : trigMerge ⟨false, true, true⟩ "_class".toList "class".toList = false := by decide +kernel
example : trigMerge ⟨false, true, true⟩ "fooBar".toList "foo_bar".toList = false := by decide +kernel


/-! ## 8. Scopes: the property at full strength, its refutation, and the exact supported region -/

/-- Two names of one scope get the same Python name ⇔ they are equal or lie in a merge region of
    that scope (the four regions of `collision_iff` under the scope's flags, plus C18-F8 for
    response keys: `__typename` ↦ `typename__` meets names that strip to `typename__`). -/
theorem scope_collision_iff (snakeSetting : Bool) (s : Scope) (a b : Name) (ha : GName a) (hb : GName b) :
    pyName snakeSetting s a = pyName snakeSetting s b ↔ (a = b ∨ trigScopeMerge snakeSetting s a b = true) := by
  have hane := gname_ne_nil ha
  have hbne := gname_ne_nil hb
  by_cases hT : s = .resultField ∧ (a = typenameField ∨ b = typenameField)
  · obtain ⟨hs, hab⟩ := hT
    subst hs
    simp only [trigScopeMerge, true_and, hab, if_true]
    have key : ∀ x : Name, GName x → x ≠ typenameField →
        (pyName snakeSetting .resultField x = typenameAlias ↔
          (snakeSetting = false ∧ lstripU x = typenameAlias)) := by
      intro x hx hne
      rw [pyName_eq snakeSetting .resultField x (gname_ne_nil hx) (fun h => hne h.2)]
      cases snakeSetting
      · simp only [true_and]
        exact processName_trim_eq_typenameAlias_iff _ rfl rfl x (gname_ne_nil hx)
      · simp only [Bool.true_eq_false, false_and, iff_false]
        exact processName_snake_ne_typenameAlias _ rfl x
    by_cases hae : a = typenameField <;> by_cases hbe : b = typenameField
    · simp [hae, hbe]
    · rw [hae, pyName_typename, eq_comm, key b hb hbe]
      have : typenameField ≠ b := fun e => hbe e.symm
      simp [trigTypenameClash, hbe, this]
    · rw [hbe, pyName_typename, key a ha hae]
      simp [trigTypenameClash, hae]
    · rcases hab with h | h
      · exact absurd h hae
      · exact absurd h hbe
  · have h1 : ¬ (s = .resultField ∧ a = typenameField) := fun h => hT ⟨h.1, Or.inl h.2⟩
    have h2 : ¬ (s = .resultField ∧ b = typenameField) := fun h => hT ⟨h.1, Or.inr h.2⟩
    rw [pyName_eq snakeSetting s a hane h1, pyName_eq snakeSetting s b hbne h2, collision_iff _ a b ha hb]
    simp [trigScopeMerge, hT]

/-- In every scope the emitted name is a usable Python name ⇔ the name is in no single-name region. -/
theorem scope_valid_iff (snakeSetting : Bool) (s : Scope) (n : Name) (hg : GName n) :
    OutOK (scopeCfg snakeSetting s) (pyName snakeSetting s n) ↔ trigScopeSingle snakeSetting s n = false := by
  by_cases hT : s = .resultField ∧ n = typenameField
  · obtain ⟨hs, hn⟩ := hT
    subst hs; subst hn
    rw [pyName_typename]
    simp only [trigScopeSingle, true_and, if_true, iff_true]
    exact (outOK_iff _ _).mpr ⟨typename_tables.2.2.2.1, suspect_typenameAlias _⟩
  · rw [pyName_eq snakeSetting s n (gname_ne_nil hg) hT, valid_identifier_iff _ n hg]
    simp [trigScopeSingle, hT]

/-- What the property demands of one scope of generated code: distinct GraphQL names keep distinct
    Python names, every Python name is usable, every name travels under its original spelling. -/
def Lawful (snakeSetting : Bool) (s : Scope) (names : List Name) : Prop :=
  (scopeNames snakeSetting s names).Nodup ∧
  ∀ n ∈ names, OutOK (scopeCfg snakeSetting s) (pyName snakeSetting s n) ∧ (emit snakeSetting s n).wire = n

instance (sn : Bool) (s : Scope) (names : List Name) : Decidable (Lawful sn s names) := by
  unfold Lawful; infer_instance

/-- C18 at full strength: "Every GraphQL name that becomes a Python name is mapped to a valid
    identifier that is not a keyword and does not shadow a pydantic model attribute; … the original
    name stays the wire name.  Two distinct names in one scope are never silently merged into one
    Python name: both remain usable or generation fails with an error."  (`scopeRefused` is the only
    name-dependent refusal the generators contain.) -/
def C18_full : Prop :=
  ∀ (fixed : List Name) (snakeSetting : Bool) (s : Scope) (names : List Name),
    (∀ n ∈ names, GName n) → names.Nodup →
      scopeRefused fixed s names = true ∨ Lawful snakeSetting s names

/-- The region outside every known finding: no name of the scope in a single-name region
    (C18-F4, C18-F5), no two distinct names of it in a merge region (C18-F1, F2, F3, F7, F8). -/
def Supported_18 (snakeSetting : Bool) (s : Scope) (names : List Name) : Prop :=
  (∀ n ∈ names, trigScopeSingle snakeSetting s n = false) ∧
  (∀ a ∈ names, ∀ b ∈ names, a ≠ b → trigScopeMerge snakeSetting s a b = false)

instance (sn : Bool) (s : Scope) (names : List Name) : Decidable (Supported_18 sn s names) := by
  unfold Supported_18; infer_instance

/-- `C18_full_false`: the property is false on the pinned tree - nothing refuses `fooBar` and
    `foo_bar` as two response keys, and they become one pydantic field. -/
theorem C18_full_false : ¬ C18_full := by
  intro h
  have := h [] true .resultField ["fooBar".toList, "foo_bar".toList] (by decide +kernel) (by decide +kernel)
  revert this
  decide +kernel

/-- fixed module stems of a package generated with the default settings -/
def defaultFixed : List Name :=
  ["client", "async_base_client", "base_model", "enums", "input_types", "fragments", "exceptions"].map String.toList

/-- a counterexample to `C18_full`: GraphQL names, distinct, not refused, not lawful -/
def Bad (sn : Bool) (s : Scope) (names : List String) : Prop :=
  (∀ n ∈ names.map String.toList, GName n) ∧ (names.map String.toList).Nodup ∧
  scopeRefused defaultFixed s (names.map String.toList) = false ∧ ¬ Lawful sn s (names.map String.toList)

instance (sn : Bool) (s : Scope) (names : List String) : Decidable (Bad sn s names) := by
  unfold Bad; infer_instance

/-- the function-level form (DESIGN.md Appendix A): `process_name` is not injective on GraphQL names,
    under any flag combination with snake-casing on, nor with trimming on, nor with both off -/
theorem process_name_not_injective :
    ¬ (∀ (cfg : Cfg) (a b : Name), GName a → GName b → a ≠ b → processName cfg a ≠ processName cfg b) := by
  intro h
  exact h ⟨true, false, false⟩ "fooBar".toList "foo_bar".toList (by decide +kernel) (by decide +kernel) (by decide +kernel) (by decide +kernel)

/-- the other witnesses, one per finding and scope -/
theorem C18_witnesses :
    Bad true .inputField ["fooBar", "foo_bar"] ∧ Bad true .variable ["fooBar", "foo_bar"] ∧
    Bad false .operation ["fooBar", "FooBar"] ∧                 -- C18-F1 (operations are always snake-cased)
    Bad false .resultField ["_x", "x"] ∧ Bad false .inputField ["__x", "_x"] ∧   -- C18-F2
    Bad true .enumValue ["class", "class_"] ∧ Bad false .variable ["class", "class_"] ∧
    Bad false .resultField ["copy", "copy_"] ∧                  -- C18-F3
    Bad true .resultField ["_1"] ∧ Bad false .inputField ["_1"] ∧               -- C18-F4
    Bad false .resultField ["_class"] ∧ Bad false .inputField ["_copy"] ∧       -- C18-F5
    Bad false .inputField ["_", "underscore_named_field_"] ∧                    -- C18-F7
    Bad false .resultField ["__typename", "typename__"] := by                   -- C18-F8
  decide +kernel

/-- `C18_partial`, in its exact form: for GraphQL names without repetition, a scope is lawful
    ⇔ it lies outside every finding region.  (⇐ is the partial theorem; ⇒ says the regions are not
    wider than the defects.)  No refusal is needed on the supported side. -/
theorem C18_exact (snakeSetting : Bool) (s : Scope) (names : List Name)
    (hg : ∀ n ∈ names, GName n) (hnd : names.Nodup) :
    Lawful snakeSetting s names ↔ Supported_18 snakeSetting s names := by
  constructor
  · rintro ⟨hn, hall⟩
    refine ⟨fun n hn' => (scope_valid_iff snakeSetting s n (hg n hn')).mp (hall n hn').1, ?_⟩
    intro a ha b hb hab
    cases ht : trigScopeMerge snakeSetting s a b
    · rfl
    · exfalso
      have e := (scope_collision_iff snakeSetting s a b (hg a ha) (hg b hb)).mpr (Or.inr ht)
      exact hab (inj_of_nodup_map _ names hn a ha b hb e)
  · rintro ⟨h1, h2⟩
    refine ⟨?_, fun n hn => ⟨(scope_valid_iff snakeSetting s n (hg n hn)).mpr (h1 n hn), wire_name_kept snakeSetting s n⟩⟩
    apply nodup_map_of_inj _ names hnd
    intro a ha b hb e
    rcases (scope_collision_iff snakeSetting s a b (hg a ha) (hg b hb)).mp e with h | h
    · exact h
    · cases hab : decide (a = b)
      · have := h2 a ha b hb (of_decide_eq_false hab); rw [this] at h; exact absurd h (by simp)
      · exact of_decide_eq_true hab

theorem C18_partial (fixed : List Name) (snakeSetting : Bool) (s : Scope) (names : List Name)
    (hg : ∀ n ∈ names, GName n) (hnd : names.Nodup) (hs : Supported_18 snakeSetting s names) :
    scopeRefused fixed s names = true ∨ Lawful snakeSetting s names :=
  Or.inr ((C18_exact snakeSetting s names hg hnd).mpr hs)

/-- non-vacuity: a realistic scope satisfies the hypotheses -/
example : (∀ n ∈ ["id", "firstName", "HTTPStatus", "class", "copy", "__typename", "_private"].map String.toList, GName n) ∧
    (["id", "firstName", "HTTPStatus", "class", "copy", "__typename", "_private"].map String.toList).Nodup ∧
    Supported_18 true .resultField (["id", "firstName", "HTTPStatus", "class", "copy", "__typename", "_private"].map String.toList) := by
  decide +kernel

/-! ## 9. Injectivity on canonical names -/

/-- a canonical name: the image of a GraphQL name outside the two regions where the image is not a fixed point -/
def Canonical (cfg : Cfg) (m : Name) : Prop :=
  ∃ n, GName n ∧ trigFallbackNotFixed cfg n = false ∧ trigTrimToKeyword cfg n = false ∧ processName cfg n = m

theorem canonical_fixed (cfg : Cfg) (m : Name) (h : Canonical cfg m) : processName cfg m = m := by
  obtain ⟨n, hg, h6, h5, rfl⟩ := h
  exact process_idempotent cfg n hg h6 h5

/-- `injective_on_canonical`: `process_name` is injective on names that are already in its image
    (it fixes them). -/
theorem injective_on_canonical (cfg : Cfg) (a b : Name) (ha : Canonical cfg a) (hb : Canonical cfg b)
    (h : processName cfg a = processName cfg b) : a = b := by
  rw [canonical_fixed cfg a ha, canonical_fixed cfg b hb] at h; exact h

/-- ... but not on the whole image: with snake-casing on, the fallback literal (image of `_`) and
    its own image `underscore_named_field` are both in the image and are mapped to the same name. -/
theorem injective_on_image_false :
    let cfg : Cfg := ⟨true, true, true⟩
    let a := processName cfg "_".toList
    let b := processName cfg "underscoreNamedField".toList
    a ≠ b ∧ processName cfg a = processName cfg b := by decide +kernel

example : Canonical ⟨true, true, true⟩ "foo_bar".toList := ⟨"fooBar".toList, by decide +kernel, by decide +kernel, by decide +kernel, by decide +kernel⟩


/-! ## 10. `str_to_pascal_case` (the result class of an operation) -/

/-- idempotent, for every name -/
theorem pascal_idempotent (n : Name) : pascal (pascal n) = pascal n := pascal_idem n

/-- letters and digits are kept in order; only the case of the first letter of a word may change -/
theorem pascal_alnum_preserved (n : Name) : lower (alnum (pascal n)) = lower (alnum n) := lower_alnum_pascal n

/-- the class name of an operation is a usable Python name ⇔ the operation name is outside C18-F9
    (`_` ↦ empty name, `_1` ↦ `1`, `none` ↦ `None`) -/
theorem pascal_valid_iff (n : Name) (hg : GName n) :
    (PyIdent (pascal n) ∧ pascal n ∉ kwlistC) ↔ trigPascalBad n = false := by
  rw [pyIdent_pascal_iff hg]
  simp only [trigPascalBad, Bool.or_eq_false_iff, beq_eq_false_iff_ne, ne_eq, decide_eq_false_iff_not, and_assoc]

theorem pascal_witnesses :
    pascal "_".toList = [] ∧ pascal "_1".toList = "1".toList ∧ pascal "none".toList = "None".toList ∧
    "None".toList ∈ kwlistC ∧ trigPascalBad "none".toList = true ∧ trigPascalBad "getUser".toList = false := by decide +kernel

end Ariadne.C18
