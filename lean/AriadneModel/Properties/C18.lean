/-
  C18 — GraphQL names map lawfully to Python names.

  Statements (and their final proofs) about the model in Model/Names.lean; helper lemmas are in
  Proofs/Names.lean.  Quantification: every name (list of characters) of the stated domain, of any
  length; every combination of the three flags of `process_name`; every scope; every list of names.
  Tables (`kwlist`, `pydanticReserved`, the fallback literal, `__typename`/`typename__`) are the ones
  regenerated from /repo on every run; facts about them are discharged by `decide +kernel`.

  §11 (method scope) and §12 (class scope fed by several selection sources) are about the models in
  Model/NameScopes.lean; helper lemmas in Proofs/NameScopes.lean.  Quantification there: every list of
  variables / every selection tree, both snake settings, ordinary and subscription methods.
-/
import AriadneModel.Proofs.Names
import AriadneModel.Proofs.NameScopes

set_option linter.unusedSimpArgs false
set_option linter.unusedVariables false

namespace Ariadne.C18
open Ariadne Ariadne.Names

/-! ## 1. Table law: appending `_` to a keyword never yields a keyword or a reserved name -/

/-- `suffix_not_keyword`, on the tables as strings. -/
theorem suffix_not_keyword :
    ∀ k ∈ Tables.kwlist, (k ++ "_") ∉ Tables.kwlist ++ Tables.pydanticReserved := by decide +kernel

/-- the same for reserved pydantic names (the second suffix step) -/
theorem suffix_not_reserved :
    ∀ r ∈ Tables.pydanticReserved, (r ++ "_") ∉ Tables.kwlist ++ Tables.pydanticReserved := by decide +kernel

/-- no keyword / reserved name begins with an underscore (so trimming never *creates* the need for
    the check to have run earlier on the untrimmed name) and none is empty -/
theorem tables_shape :
    ∀ k ∈ Tables.kwlist ++ Tables.pydanticReserved, k ≠ "" ∧ k.toList.head? ≠ some '_' := by decide +kernel

/-! ## 2. `str_to_snake_case` -/

/-- `snake_idempotent`: for every name (no hypothesis needed). -/
theorem snake_idempotent (n : Name) : snake (snake n) = snake n := snake_idem n

/-- `alnum_preserved` for `str_to_snake_case`: the letters and digits of the output are those of
    the input, in order, lower-cased. -/
theorem snake_alnum_preserved (n : Name) : alnum (snake n) = lower (alnum n) := alnum_snake n

/-- the output is a word string whose words are separated by single underscores: tokenizing it
    again gives the same words -/
theorem snake_tokens_fixed (n : Name) : tokens (snake n) = (tokens n).map lower :=
  tokens_joinU _ (snakeWords_canon n)

example : snake "fooBarHTTPResponse2x_ABc".toList = "foo_bar_http_response_2_x_a_bc".toList := by decide +kernel


/-! ## 3. `process_name`: letters kept -/

/-- `alnum_preserved`, for every name and every flag combination: unless the all-underscore
    fallback fires, the letters and digits of the output are exactly those of the input, in order -
    lower-cased when snake-casing is on, with their case kept when it is off. -/
theorem alnum_preserved (cfg : Cfg) (n : Name) (h : fallbackFires cfg n = false) :
    alnum (processName cfg n) = if cfg.snake then lower (alnum n) else alnum n :=
  alnum_processName cfg n h

/-- ... and when it fires the input had no letter or digit to keep (the output is the literal). -/
theorem alnum_fallback (cfg : Cfg) (n : Name) (h : fallbackFires cfg n = true) :
    alnum n = [] ∧ processName cfg n = fallbackName :=
  fallback_processName cfg n h

example : fallbackFires ⟨true, true, true⟩ "fooBar".toList = false := by decide +kernel
example : fallbackFires ⟨false, true, true⟩ "__".toList = true := by decide +kernel

/-! ## 4. `process_name`: the output is a usable Python name, exactly outside two trigger regions -/

/-- `valid_identifier_iff`: for every GraphQL name and every flag combination the output is a valid
    identifier, not a keyword, and (when the reserved-names flag is on) not a public attribute of
    pydantic's BaseModel  ⇔  the name lies in neither finding region
    (C18-F4 `trigDigitLead`: `_1` → `1`;  C18-F5 `trigTrimToKeyword`: `_class` → `class`). -/
theorem valid_identifier_iff (cfg : Cfg) (n : Name) (hg : GName n) :
    OutOK cfg (processName cfg n) ↔ (trigDigitLead cfg n = false ∧ trigTrimToKeyword cfg n = false) := by
  have hw := gname_word hg
  cases hs : cfg.snake
  · -- snake-casing off
    cases n with
    | nil => exact absurd hg (by simp [GName])
    | cons c r =>
      by_cases hc : c = '_'
      · subst hc
        cases ht : cfg.trim
        · -- nothing is stripped: the suffixed name
          rw [processName_plain cfg _ hs ht (by simp), outOK_iff, pyIdent_suffix cfg _ (by simp)]
          simp [trigDigitLead, trigTrimToKeyword, hs, ht, suspect_suffix]
          exact hg
        · rw [processName_trim_lead cfg r hs ht]
          have hne : ('_' :: r) ≠ lstripU ('_' :: r) := by
            rw [lstripU_underscore]
            intro e
            have : ('_' : Char) ∈ lstripU r := by rw [← e]; simp
            rcases lstripU_shape r with h | ⟨d, r', h, hd⟩
            · rw [h] at this; simp at this
            · have e' := e; rw [h] at e'; injection e' with e1 _; exact hd e1.symm
          rcases lstripU_shape r with hl | ⟨d, r', hl, hd⟩
          · simp [hl, outOK_fallback, trigDigitLead, trigTrimToKeyword, hs, ht, lstripU_underscore, cls1, suspect_nil]
          · have hwl : Word (d :: r') := by
              rw [← hl]; exact word_lstripU ((word_cons _ _).mp hw).2
            rw [hl]
            simp only [List.cons_ne_nil, if_false, outOK_iff, pyIdent_of_word_ne hwl hd]
            simp only [trigDigitLead, trigTrimToKeyword, hs, ht, lstripU_underscore, hl, cls1]
            have hne' : ('_' :: r != d :: r') = true := by
              simp only [bne_iff_ne, ne_eq]; rw [← hl]; rw [lstripU_underscore] at hne; exact hne
            simp [hne']
      · rw [processName_trim_nolead cfg c r hs hc, outOK_iff, pyIdent_suffix cfg _ (by simp)]
        have hD : cls c ≠ .D := by
          rcases hg.1 with e | e | e
          · simp [e]
          · simp [e]
          · exact absurd e hc
        simp only [suspect_suffix, and_true, trigDigitLead, trigTrimToKeyword, hs, lstripU_of_ne r hc, cls1]
        simp [hD]
        exact hg
  · -- snake-casing on
    have hT : trigTrimToKeyword cfg n = false := by simp [trigTrimToKeyword, hs]
    cases hu : allUnderscore n
    · rw [processName_snake cfg n hs hu]
      have hnu : ¬ ∀ c ∈ n, c = '_' := by
        intro hall
        have : allUnderscore n = true := (allUnderscore_iff n).mpr ⟨by intro e; subst e; simp [GName] at hg, hall⟩
        rw [hu] at this; exact absurd this (by simp)
      rcases snake_head n with ⟨h1, _⟩ | ⟨a, as, r, h1, h2⟩
      · exact absurd h1 (alnum_ne_nil_of_word hw hnu)
      · have haO : cls a ≠ .O := by
          have : a ∈ alnum n := by rw [h1]; simp
          simpa [alnum] using (List.mem_filter.mp this).2
        have hws : Word (lowerChar a :: r) := by rw [← h2]; exact word_snake n
        rw [outOK_iff, h2, pyIdent_suffix cfg _ (by simp), suspect_suffix,
          pyIdent_of_word_ne hws (ne_underscore_of_cls (cls_lowerChar_ne_O haO))]
        simp only [and_true, hT, trigDigitLead, hs, if_true, h1, cls1]
        rw [cls_lowerChar]
        cases hca : cls a <;> simp
    · rw [processName_snake_allU cfg n hs hu]
      simp [outOK_fallback, hT, trigDigitLead, hs, allUnderscore_alnum hu, cls1]

example : GName "_1".toList ∧ trigDigitLead ⟨true, true, true⟩ "_1".toList = true := by decide +kernel
example : GName "_class".toList ∧ trigTrimToKeyword ⟨false, true, true⟩ "_class".toList = true := by decide +kernel
example : GName "fooBar".toList ∧ trigDigitLead ⟨true, true, true⟩ "fooBar".toList = false
    ∧ trigTrimToKeyword ⟨false, true, true⟩ "fooBar".toList = false := by decide +kernel

/-- C18-F4 on the model: `_1` becomes `1`. -/
theorem digit_lead_witness : processName ⟨true, true, true⟩ "_1".toList = "1".toList ∧
    ¬ PyIdent (processName ⟨true, true, true⟩ "_1".toList) := by decide +kernel

/-- C18-F5 on the model: with snake-casing off `_class` becomes the keyword, `_copy` shadows `BaseModel.copy`. -/
theorem trim_to_keyword_witness :
    processName ⟨false, true, true⟩ "_class".toList = "class".toList ∧ "class".toList ∈ kwlistC ∧
    processName ⟨false, true, true⟩ "_copy".toList = "copy".toList ∧ "copy".toList ∈ reservedC := by decide +kernel


/-! ## 5. `process_name`: idempotence, exactly outside two trigger regions -/

/-- `process_idempotent`, as an equivalence: for every GraphQL name and every flag combination,
    mapping the output again changes nothing  ⇔  the name lies in neither
    C18-F6 `trigFallbackNotFixed` (snake-casing on, all-underscore name: `_` → `underscore_named_field_`
    → `underscore_named_field`) nor C18-F5 `trigTrimToKeyword` (`_class` → `class` → `class_`).
    In particular it holds for all names under (snake off, trim off), for all names with a letter
    or digit under snake on, and fails on the two witnesses below. -/
theorem process_idempotent_iff (cfg : Cfg) (n : Name) (hg : GName n) :
    processName cfg (processName cfg n) = processName cfg n ↔
      (trigFallbackNotFixed cfg n = false ∧ trigTrimToKeyword cfg n = false) := by
  have hw := gname_word hg
  cases hs : cfg.snake
  · have hF : trigFallbackNotFixed cfg n = false := by simp [trigFallbackNotFixed, hs]
    simp only [hF, true_and]
    cases n with
    | nil => exact absurd hg (by simp [GName])
    | cons c r =>
      by_cases hc : c = '_'
      · subst hc
        cases ht : cfg.trim
        · have hT : trigTrimToKeyword cfg ('_' :: r) = false := by simp [trigTrimToKeyword, ht]
          rw [processName_plain cfg ('_' :: r) hs ht (by simp),
            processName_plain cfg (suffix cfg ('_' :: r)) hs ht (suffix_ne_nil cfg (by simp)), suffix_idem]
          simp [hT]
        · rw [processName_trim_lead cfg r hs ht]
          rcases lstripU_shape r with hl | ⟨d, r', hl, hd⟩
          · simp [hl, processName_fallback_plain cfg hs, trigTrimToKeyword, lstripU_underscore, suspect_nil]
          · have hne' : ('_' :: r != d :: r') = true := by
              simp only [bne_iff_ne, ne_eq]
              intro e; injection e with e1 _; exact hd e1.symm
            simp only [hl, List.cons_ne_nil, if_false]
            rw [processName_trim_nolead cfg d r' hs hd, suffix_eq_self_iff]
            simp [trigTrimToKeyword, hs, ht, lstripU_underscore, hl, hne']
      · have hT : trigTrimToKeyword cfg (c :: r) = false := by
          simp [trigTrimToKeyword, lstripU_of_ne r hc]
        rw [processName_trim_nolead cfg c r hs hc]
        obtain ⟨r', hr'⟩ := suffix_head cfg c r
        have h2 := processName_trim_nolead cfg c r' hs hc
        rw [← hr'] at h2
        rw [h2, suffix_idem]
        simp [hT]
  · have hT : trigTrimToKeyword cfg n = false := by simp [trigTrimToKeyword, hs]
    simp only [hT, and_true]
    cases hu : allUnderscore n
    · have hnu : ¬ ∀ c ∈ n, c = '_' := by
        intro hall
        have : allUnderscore n = true := (allUnderscore_iff n).mpr ⟨by intro e; subst e; simp [GName] at hg, hall⟩
        rw [hu] at this; exact absurd this (by simp)
      rw [processName_snake_fixed cfg n hs hu (alnum_ne_nil_of_word hw hnu)]
      simp [trigFallbackNotFixed, hu]
    · rw [processName_snake_allU cfg n hs hu]
      simp [trigFallbackNotFixed, hs, hu, processName_fallback_snake cfg hs]

/-- the usual form: idempotent on every GraphQL name outside the two finding regions -/
theorem process_idempotent (cfg : Cfg) (n : Name) (hg : GName n)
    (h6 : trigFallbackNotFixed cfg n = false) (h5 : trigTrimToKeyword cfg n = false) :
    processName cfg (processName cfg n) = processName cfg n :=
  (process_idempotent_iff cfg n hg).mpr ⟨h6, h5⟩

/-- the flag combinations for which it holds for ALL GraphQL names: snake-casing off and trimming off -/
theorem process_idempotent_plain (cfg : Cfg) (hs : cfg.snake = false) (ht : cfg.trim = false) (n : Name) (hg : GName n) :
    processName cfg (processName cfg n) = processName cfg n :=
  process_idempotent cfg n hg (by simp [trigFallbackNotFixed, hs]) (by simp [trigTrimToKeyword, ht])

/-- ... and it is false for every other flag combination (snake on: `_`; snake off, trim on: `_class`) -/
theorem process_idempotent_false :
    (∀ t r, processName ⟨true, t, r⟩ (processName ⟨true, t, r⟩ "_".toList) ≠ processName ⟨true, t, r⟩ "_".toList) ∧
    (∀ r, processName ⟨false, true, r⟩ (processName ⟨false, true, r⟩ "_class".toList) ≠ processName ⟨false, true, r⟩ "_class".toList) := by
  decide +kernel

example : GName "__".toList ∧ trigFallbackNotFixed ⟨true, false, false⟩ "__".toList = true := by decide +kernel
example : GName "fooBar".toList ∧ trigFallbackNotFixed ⟨true, true, true⟩ "fooBar".toList = false := by decide +kernel


/-! ## 6. The wire name is kept -/

/-- `wire_name_kept`: in every scope and for every name, the name that travels is the original:
    pydantic fields carry `alias=<original>` exactly when the Python name differs (else the Python
    name *is* the original), variables are keyed by the original in the `variables` dict, operations
    are sent under the original `operation_name`, enum members keep the original as their value. -/
theorem wire_name_kept (snakeSetting : Bool) (s : Scope) (n : Name) : (emit snakeSetting s n).wire = n := by
  cases s <;> simp only [emit]
  · by_cases h : pyName snakeSetting .resultField n = n <;> simp [h]
  · by_cases h : pyName snakeSetting .inputField n = n <;> simp [h]

/-- the alias is emitted exactly when needed -/
theorem alias_iff (snakeSetting : Bool) (n : Name) :
    ((emit snakeSetting .resultField n).alias = some n ↔ (emit snakeSetting .resultField n).py ≠ n) ∧
    ((emit snakeSetting .inputField n).alias = some n ↔ (emit snakeSetting .inputField n).py ≠ n) := by
  constructor
  · by_cases h : pyName snakeSetting .resultField n = n <;> simp [emit, h]
  · by_cases h : pyName snakeSetting .inputField n = n <;> simp [emit, h]

example : emit true .resultField "fooBar".toList = ⟨"foo_bar".toList, some "fooBar".toList, "fooBar".toList⟩ := by decide +kernel
example : emit true .resultField "__typename".toList = ⟨"typename__".toList, some "__typename".toList, "__typename".toList⟩ := by decide +kernel
example : emit false .inputField "x".toList = ⟨"x".toList, none, "x".toList⟩ := by decide +kernel

/-! ## 7. When do two names of one scope get the same Python name? -/

/-- `collision_iff`: for GraphQL names `a`, `b` and every flag combination, `process_name` gives
    both the same Python name  ⇔  they are equal or the pair lies in one of the four merge regions
    (C18-F1 same lower-cased words under snake-casing; C18-F2 equal after `lstrip("_")`;
    C18-F3 keyword/reserved name vs. its suffixed form; C18-F7 all-underscore vs. the fallback literal).
    The regions are stated on the inputs only (Model/Names.lean) and are therefore exact. -/
theorem collision_iff (cfg : Cfg) (a b : Name) (ha : GName a) (hb : GName b) :
    processName cfg a = processName cfg b ↔ (a = b ∨ trigMerge cfg a b = true) := by
  cases hs : cfg.snake
  · cases ht : cfg.trim
    · rw [collide_plain cfg hs ht a b (gname_ne_nil ha) (gname_ne_nil hb)]
      simp [trigMerge, trigSnakeMerge, trigTrimMerge, trigSuffixMerge, trigFallbackMerge, stem, hs, ht]
    · rw [collide_trim cfg hs ht a b (gname_ne_nil ha) (gname_ne_nil hb)]
      simp only [TrimRHS, trigMerge, trigSnakeMerge, trigTrimMerge, trigSuffixMerge, trigFallbackMerge, stem, hs, ht]
      simp only [Bool.false_and, Bool.false_or, Bool.not_false, Bool.true_and, Bool.or_eq_true, Bool.and_eq_true,
        beq_iff_eq, bne_iff_ne, ne_eq, Bool.not_eq_true', if_true]
      constructor
      · rintro (h | h | h | h)
        · exact Or.inl h
        · exact Or.inr (Or.inl (Or.inl h))
        · exact Or.inr (Or.inl (Or.inr h))
        · exact Or.inr (Or.inr (by simpa [and_assoc] using h))
      · rintro (h | (h | h) | h)
        · exact Or.inl h
        · exact Or.inr (Or.inl h)
        · exact Or.inr (Or.inr (Or.inl h))
        · exact Or.inr (Or.inr (Or.inr (by simpa [and_assoc] using h)))
  · rw [collide_snake cfg hs a b ha hb]
    simp only [trigMerge, trigSnakeMerge, trigTrimMerge, trigSuffixMerge, trigFallbackMerge, hs]
    simp only [Bool.true_and, Bool.not_true, Bool.false_and, Bool.or_false, beq_iff_eq]
    constructor
    · intro h; exact Or.inr h
    · rintro (h | h)
      · rw [h]
      · exact h

example : trigMerge ⟨true, true, true⟩ "fooBar".toList "foo_bar".toList = true := by decide +kernel
example : trigMerge ⟨false, true, true⟩ "_x".toList "x".toList = true := by decide +kernel
example : trigMerge ⟨false, false, false⟩ "class".toList "class_".toList = true := by decide +kernel
example : trigMerge ⟨false, true, true⟩ "_class".toList "class".toList = false := by decide +kernel
example : trigMerge ⟨false, true, true⟩ "fooBar".toList "foo_bar".toList = false := by decide +kernel


/-! ## 8. Scopes: the property at full strength, its refutation, and the exact supported region -/

/-- Two names of one scope get the same Python name ⇔ they are equal or lie in a merge region of
    that scope (the four regions of `collision_iff` under the scope's flags, plus C18-F8 for
    response keys: `__typename` ↦ `typename__` meets names that strip to `typename__`). -/
theorem scope_collision_iff (snakeSetting : Bool) (s : Scope) (a b : Name) (ha : GName a) (hb : GName b) :
    pyName snakeSetting s a = pyName snakeSetting s b ↔ (a = b ∨ trigScopeMerge snakeSetting s a b = true) := by
  have hane := gname_ne_nil ha
  have hbne := gname_ne_nil hb
  by_cases hT : s = .resultField ∧ (a = typenameField ∨ b = typenameField)
  · obtain ⟨hs, hab⟩ := hT
    subst hs
    simp only [trigScopeMerge, true_and, hab, if_true]
    have key : ∀ x : Name, GName x → x ≠ typenameField →
        (pyName snakeSetting .resultField x = typenameAlias ↔
          (snakeSetting = false ∧ lstripU x = typenameAlias)) := by
      intro x hx hne
      rw [pyName_eq snakeSetting .resultField x (gname_ne_nil hx) (fun h => hne h.2)]
      cases snakeSetting
      · simp only [true_and]
        exact processName_trim_eq_typenameAlias_iff _ rfl rfl x (gname_ne_nil hx)
      · simp only [Bool.true_eq_false, false_and, iff_false]
        exact processName_snake_ne_typenameAlias _ rfl x
    by_cases hae : a = typenameField <;> by_cases hbe : b = typenameField
    · simp [hae, hbe]
    · rw [hae, pyName_typename, eq_comm, key b hb hbe]
      have : typenameField ≠ b := fun e => hbe e.symm
      simp [trigTypenameClash, hbe, this]
    · rw [hbe, pyName_typename, key a ha hae]
      simp [trigTypenameClash, hae]
    · rcases hab with h | h
      · exact absurd h hae
      · exact absurd h hbe
  · have h1 : ¬ (s = .resultField ∧ a = typenameField) := fun h => hT ⟨h.1, Or.inl h.2⟩
    have h2 : ¬ (s = .resultField ∧ b = typenameField) := fun h => hT ⟨h.1, Or.inr h.2⟩
    rw [pyName_eq snakeSetting s a hane h1, pyName_eq snakeSetting s b hbne h2, collision_iff _ a b ha hb]
    simp [trigScopeMerge, hT]

/-- In every scope the emitted name is a usable Python name ⇔ the name is in no single-name region. -/
theorem scope_valid_iff (snakeSetting : Bool) (s : Scope) (n : Name) (hg : GName n) :
    OutOK (scopeCfg snakeSetting s) (pyName snakeSetting s n) ↔ trigScopeSingle snakeSetting s n = false := by
  by_cases hT : s = .resultField ∧ n = typenameField
  · obtain ⟨hs, hn⟩ := hT
    subst hs; subst hn
    rw [pyName_typename]
    simp only [trigScopeSingle, true_and, if_true, iff_true]
    exact (outOK_iff _ _).mpr ⟨typename_tables.2.2.2.1, suspect_typenameAlias _⟩
  · rw [pyName_eq snakeSetting s n (gname_ne_nil hg) hT, valid_identifier_iff _ n hg]
    simp [trigScopeSingle, hT]

/-- What the property demands of one scope of generated code: distinct GraphQL names keep distinct
    Python names, every Python name is usable, every name travels under its original spelling. -/
def Lawful (snakeSetting : Bool) (s : Scope) (names : List Name) : Prop :=
  (scopeNames snakeSetting s names).Nodup ∧
  ∀ n ∈ names, OutOK (scopeCfg snakeSetting s) (pyName snakeSetting s n) ∧ (emit snakeSetting s n).wire = n

instance (sn : Bool) (s : Scope) (names : List Name) : Decidable (Lawful sn s names) := by
  unfold Lawful; infer_instance

/-- C18 at full strength: "Every GraphQL name that becomes a Python name is mapped to a valid
    identifier that is not a keyword and does not shadow a pydantic model attribute; … the original
    name stays the wire name.  Two distinct names in one scope are never silently merged into one
    Python name: both remain usable or generation fails with an error."  (`scopeRefused` is the only
    name-dependent refusal the generators contain.) -/
def C18_full : Prop :=
  ∀ (fixed : List Name) (snakeSetting : Bool) (s : Scope) (names : List Name),
    (∀ n ∈ names, GName n) → names.Nodup →
      scopeRefused fixed s names = true ∨ Lawful snakeSetting s names

/-- The region outside every known finding: no name of the scope in a single-name region
    (C18-F4, C18-F5), no two distinct names of it in a merge region (C18-F1, F2, F3, F7, F8). -/
def Supported_18 (snakeSetting : Bool) (s : Scope) (names : List Name) : Prop :=
  (∀ n ∈ names, trigScopeSingle snakeSetting s n = false) ∧
  (∀ a ∈ names, ∀ b ∈ names, a ≠ b → trigScopeMerge snakeSetting s a b = false)

instance (sn : Bool) (s : Scope) (names : List Name) : Decidable (Supported_18 sn s names) := by
  unfold Supported_18; infer_instance

/-- `C18_full_false`: the property is false on the pinned tree - nothing refuses `fooBar` and
    `foo_bar` as two response keys, and they become one pydantic field. -/
theorem C18_full_false : ¬ C18_full := by
  intro h
  have := h [] true .resultField ["fooBar".toList, "foo_bar".toList] (by decide +kernel) (by decide +kernel)
  revert this
  decide +kernel

/-- fixed module stems of a package generated with the default settings -/
def defaultFixed : List Name :=
  ["client", "async_base_client", "base_model", "enums", "input_types", "fragments", "exceptions"].map String.toList

/-- a counterexample to `C18_full`: GraphQL names, distinct, not refused, not lawful -/
def Bad (sn : Bool) (s : Scope) (names : List String) : Prop :=
  (∀ n ∈ names.map String.toList, GName n) ∧ (names.map String.toList).Nodup ∧
  scopeRefused defaultFixed s (names.map String.toList) = false ∧ ¬ Lawful sn s (names.map String.toList)

instance (sn : Bool) (s : Scope) (names : List String) : Decidable (Bad sn s names) := by
  unfold Bad; infer_instance

/-- the function-level form (DESIGN.md Appendix A): `process_name` is not injective on GraphQL names,
    under any flag combination with snake-casing on, nor with trimming on, nor with both off -/
theorem process_name_not_injective :
    ¬ (∀ (cfg : Cfg) (a b : Name), GName a → GName b → a ≠ b → processName cfg a ≠ processName cfg b) := by
  intro h
  exact h ⟨true, false, false⟩ "fooBar".toList "foo_bar".toList (by decide +kernel) (by decide +kernel) (by decide +kernel) (by decide +kernel)

/-- the other witnesses, one per finding and scope -/
theorem C18_witnesses :
    Bad true .inputField ["fooBar", "foo_bar"] ∧ Bad true .variable ["fooBar", "foo_bar"] ∧
    Bad false .operation ["fooBar", "FooBar"] ∧                 -- C18-F1 (operations are always snake-cased)
    Bad false .resultField ["_x", "x"] ∧ Bad false .inputField ["__x", "_x"] ∧   -- C18-F2
    Bad true .enumValue ["class", "class_"] ∧ Bad false .variable ["class", "class_"] ∧
    Bad false .resultField ["copy", "copy_"] ∧                  -- C18-F3
    Bad true .resultField ["_1"] ∧ Bad false .inputField ["_1"] ∧               -- C18-F4
    Bad false .resultField ["_class"] ∧ Bad false .inputField ["_copy"] ∧       -- C18-F5
    Bad false .inputField ["_", "underscore_named_field_"] ∧                    -- C18-F7
    Bad false .resultField ["__typename", "typename__"] := by                   -- C18-F8
  decide +kernel

/-- `C18_partial`, in its exact form: for GraphQL names without repetition, a scope is lawful
    ⇔ it lies outside every finding region.  (⇐ is the partial theorem; ⇒ says the regions are not
    wider than the defects.)  No refusal is needed on the supported side. -/
theorem C18_exact (snakeSetting : Bool) (s : Scope) (names : List Name)
    (hg : ∀ n ∈ names, GName n) (hnd : names.Nodup) :
    Lawful snakeSetting s names ↔ Supported_18 snakeSetting s names := by
  constructor
  · rintro ⟨hn, hall⟩
    refine ⟨fun n hn' => (scope_valid_iff snakeSetting s n (hg n hn')).mp (hall n hn').1, ?_⟩
    intro a ha b hb hab
    cases ht : trigScopeMerge snakeSetting s a b
    · rfl
    · exfalso
      have e := (scope_collision_iff snakeSetting s a b (hg a ha) (hg b hb)).mpr (Or.inr ht)
      exact hab (inj_of_nodup_map _ names hn a ha b hb e)
  · rintro ⟨h1, h2⟩
    refine ⟨?_, fun n hn => ⟨(scope_valid_iff snakeSetting s n (hg n hn)).mpr (h1 n hn), wire_name_kept snakeSetting s n⟩⟩
    apply nodup_map_of_inj _ names hnd
    intro a ha b hb e
    rcases (scope_collision_iff snakeSetting s a b (hg a ha) (hg b hb)).mp e with h | h
    · exact h
    · cases hab : decide (a = b)
      · have := h2 a ha b hb (of_decide_eq_false hab); rw [this] at h; exact absurd h (by simp)
      · exact of_decide_eq_true hab

theorem C18_partial (fixed : List Name) (snakeSetting : Bool) (s : Scope) (names : List Name)
    (hg : ∀ n ∈ names, GName n) (hnd : names.Nodup) (hs : Supported_18 snakeSetting s names) :
    scopeRefused fixed s names = true ∨ Lawful snakeSetting s names :=
  Or.inr ((C18_exact snakeSetting s names hg hnd).mpr hs)

/-- non-vacuity: a realistic scope satisfies the hypotheses -/
example : (∀ n ∈ ["id", "firstName", "HTTPStatus", "class", "copy", "__typename", "_private"].map String.toList, GName n) ∧
    (["id", "firstName", "HTTPStatus", "class", "copy", "__typename", "_private"].map String.toList).Nodup ∧
    Supported_18 true .resultField (["id", "firstName", "HTTPStatus", "class", "copy", "__typename", "_private"].map String.toList) := by
  decide +kernel

/-! ## 9. Injectivity on canonical names -/

/-- a canonical name: the image of a GraphQL name outside the two regions where the image is not a fixed point -/
def Canonical (cfg : Cfg) (m : Name) : Prop :=
  ∃ n, GName n ∧ trigFallbackNotFixed cfg n = false ∧ trigTrimToKeyword cfg n = false ∧ processName cfg n = m

theorem canonical_fixed (cfg : Cfg) (m : Name) (h : Canonical cfg m) : processName cfg m = m := by
  obtain ⟨n, hg, h6, h5, rfl⟩ := h
  exact process_idempotent cfg n hg h6 h5

/-- `injective_on_canonical`: `process_name` is injective on names that are already in its image
    (it fixes them). -/
theorem injective_on_canonical (cfg : Cfg) (a b : Name) (ha : Canonical cfg a) (hb : Canonical cfg b)
    (h : processName cfg a = processName cfg b) : a = b := by
  rw [canonical_fixed cfg a ha, canonical_fixed cfg b hb] at h; exact h

/-- ... but not on the whole image: with snake-casing on, the fallback literal (image of `_`) and
    its own image `underscore_named_field` are both in the image and are mapped to the same name. -/
theorem injective_on_image_false :
    let cfg : Cfg := ⟨true, true, true⟩
    let a := processName cfg "_".toList
    let b := processName cfg "underscoreNamedField".toList
    a ≠ b ∧ processName cfg a = processName cfg b := by decide +kernel

example : Canonical ⟨true, true, true⟩ "foo_bar".toList := ⟨"fooBar".toList, by decide +kernel, by decide +kernel, by decide +kernel, by decide +kernel⟩


/-! ## 10. `str_to_pascal_case` (the result class of an operation) -/

/-- idempotent, for every name -/
theorem pascal_idempotent (n : Name) : pascal (pascal n) = pascal n := pascal_idem n

/-- letters and digits are kept in order; only the case of the first letter of a word may change -/
theorem pascal_alnum_preserved (n : Name) : lower (alnum (pascal n)) = lower (alnum n) := lower_alnum_pascal n

/-- the class name of an operation is a usable Python name ⇔ the operation name is outside C18-F9
    (`_` ↦ empty name, `_1` ↦ `1`, `none` ↦ `None`) -/
theorem pascal_valid_iff (n : Name) (hg : GName n) :
    (PyIdent (pascal n) ∧ pascal n ∉ kwlistC) ↔ trigPascalBad n = false := by
  rw [pyIdent_pascal_iff hg]
  simp only [trigPascalBad, Bool.or_eq_false_iff, beq_eq_false_iff_ne, ne_eq, decide_eq_false_iff_not, and_assoc]

theorem pascal_witnesses :
    pascal "_".toList = [] ∧ pascal "_1".toList = "1".toList ∧ pascal "none".toList = "None".toList ∧
    "None".toList ∈ kwlistC ∧ trigPascalBad "none".toList = true ∧ trigPascalBad "getUser".toList = false := by decide +kernel

/-! ## 11. The scope of a client method

  Names inside one generated method: `self`, one parameter per GraphQL variable, `**kwargs`, the
  helper locals `query`/`variables`/`response`/`data` (renamed by `get_variable_names` on a clash),
  and the two module globals the body reads (`gql`, the result class). -/

section MethodScope
open Ariadne.NameScopes

/-- What the property demands of a generated method: the `def` compiles (distinct, usable parameter
    names), and a call hands `execute` the operation text and EVERY caller's value under its GraphQL
    name (no helper local captured a parameter, wire names kept), and returns the parsed data. -/
def MethodLawful (sn sub : Bool) (ret : Name) (vars : List Var) : Prop :=
  runMethod sn sub ret vars = .ok (specSent vars)

/-- The region outside every known finding of the method scope: the variable names are a supported
    scope (C18-F1..F5 as for any scope), no parameter is `self` (C18-F10) or `kwargs` (C18-F11), not
    both `query` and `_query` are parameters (C18-F12), no parameter shadows `gql`, the result class or the
    serialize function of a custom scalar the method uses (C18-F13). -/
def Supported_18m (sn : Bool) (ret : Name) (vars : List Var) : Prop :=
  Supported_18 sn .variable (vars.map (·.name)) ∧
  trigSelfParam sn vars = false ∧ trigKwargsParam sn vars = false ∧
  trigQueryCapture sn vars = false ∧ trigGlobalShadow sn ret vars = false

instance (sn : Bool) (ret : Name) (vars : List Var) : Decidable (Supported_18m sn ret vars) := by
  unfold Supported_18m; infer_instance

theorem docParams_eq_scopeNames (sn : Bool) (vars : List Var) :
    docParams sn vars = scopeNames sn .variable (vars.map (·.name)) := by
  simp [docParams, scopeNames, paramOf, List.map_map, Function.comp_def]

/-- the `def` compiles ⇔ every parameter is a usable name, none is `self` or `kwargs`, none occurs twice -/
theorem defCompiles_iff (sn : Bool) (vars : List Var) :
    defCompiles sn vars = true ↔
      ((∀ p ∈ docParams sn vars, OutOK (variableCfg sn) p) ∧ selfName ∉ docParams sn vars ∧
        kwargsName ∉ docParams sn vars ∧ (docParams sn vars).Nodup) := by
  have hsk : selfName ≠ kwargsName := by decide
  simp only [defCompiles, Bool.and_eq_true, List.all_eq_true, decide_eq_true_eq, List.nodup_cons,
    List.mem_append, List.mem_singleton, List.nodup_append, not_or]
  constructor
  · rintro ⟨h1, ⟨h2, _⟩, h3, _, h5⟩
    exact ⟨h1, h2, fun hm => h5 _ hm _ rfl rfl, h3⟩
  · rintro ⟨h1, h2, h3, h4⟩
    refine ⟨h1, ⟨h2, hsk⟩, h4, by simp, ?_⟩
    intro a ha b hb e
    subst hb; subst e; exact h3 ha

/-- the helper locals never coincide with each other, whatever the parameters are -/
theorem locals_pairwise_distinct (args : List Name) :
    let L := getVariableNames args
    [L.q, L.v, L.r, L.d].Nodup := by
  have h := locals_distinct args
  simp only at h ⊢
  obtain ⟨h1, h2, h3, h4, h5, h6⟩ := h
  simp only [List.nodup_cons, List.mem_cons, List.not_mem_nil, or_false, not_or, List.nodup_nil, and_true, not_false_eq_true]
  exact ⟨⟨fun e => h1 e.symm, fun e => h2 e.symm, fun e => h4 e.symm⟩, ⟨fun e => h3 e.symm, fun e => h5 e.symm⟩, fun e => h6 e.symm⟩

/-- `rename_captures_iff`: the (renamed) helper local is one of the parameters ⇔ both `h` and `_h`
    are parameters - the rename of `get_variable_names` avoids the first clash and walks into the second. -/
theorem rename_captures_iff (sn : Bool) (vars : List Var) (h : Name) (hs : h ≠ selfName) (hs' : '_' :: h ≠ selfName) :
    rename (argNames sn vars) h ∈ argNames sn vars ↔
      (h ∈ docParams sn vars ∧ ('_' :: h) ∈ docParams sn vars) := by
  rcases rename_cases (argNames sn vars) h with ⟨hin, e⟩ | ⟨hout, e⟩
  · rw [e]
    have hin' := (mem_argNames sn vars h).mp hin
    constructor
    · intro h1
      rcases (mem_argNames sn vars _).mp h1 with h1 | h1
      · exact absurd h1 hs'
      · rcases hin' with h2 | h2
        · exact absurd h2 hs
        · exact ⟨h2, h1⟩
    · rintro ⟨_, h1⟩; exact (mem_argNames sn vars _).mpr (Or.inr h1)
  · rw [e]
    constructor
    · intro h1; exact absurd h1 hout
    · rintro ⟨h1, _⟩; exact absurd ((mem_argNames sn vars h).mpr (Or.inr h1)) hout

/-- the result class of an operation never has one of the names a method fixes itself
    (`str_to_pascal_case` output contains no underscore and does not start with a lower-case letter) -/
theorem pascal_not_fixed (n : Name) : pascal n ∉ fixedMethodNames := by
  intro hm
  have hnu := pascal_no_underscore n
  have hcap : capitalize (pascal n) = pascal n := capitalize_flatten_head _
  have key : ∀ c r, pascal n = c :: r → cls c ≠ .L := by
    intro c r e hL
    rw [e] at hcap
    simp only [capitalize, List.cons.injEq, and_true] at hcap
    have := cls_upperChar c
    rw [hcap, hL] at this
    exact absurd this (by simp)
  simp only [fixedMethodNames, List.mem_cons, List.not_mem_nil, or_false] at hm
  rcases hm with e | e | e | e | e | e | e | e | e | e | e | e <;>
    first
      | (rw [e] at hnu; exact hnu (by decide))
      | (exact key _ _ e (by decide))

/-- `method_exact`: for GraphQL variable names without repetition, any number of variables, both
    snake settings, ordinary and subscription methods, and any result-class name a generator can
    produce: the method is lawful ⇔ the operation lies outside every finding region.
    (⇐ is the partial theorem; ⇒ says the regions are exact.) -/
theorem method_exact (sn sub : Bool) (ret : Name) (vars : List Var)
    (hg : ∀ v ∈ vars, GName v.name) (hnd : (vars.map (·.name)).Nodup) (hret : ret ∉ fixedMethodNames) :
    MethodLawful sn sub ret vars ↔ Supported_18m sn ret vars := by
  have hgn : ∀ n ∈ vars.map (·.name), GName n := by
    intro n hn
    obtain ⟨v, hv, rfl⟩ := List.mem_map.mp hn
    exact hg v hv
  have hex := C18_exact sn .variable (vars.map (·.name)) hgn hnd
  have hdp := docParams_eq_scopeNames sn vars
  -- facts about `ret` and the locals
  have hfix : ∀ x ∈ fixedMethodNames, ret ≠ x := fun x hx e => hret (e ▸ hx)
  obtain ⟨L, hL⟩ : ∃ L, L = getVariableNames (argNames sn vars) := ⟨_, rfl⟩
  have hLq : L.q = queryLocal ∨ L.q = '_' :: queryLocal := by
    rcases rename_cases (argNames sn vars) queryLocal with ⟨_, e⟩ | ⟨_, e⟩ <;> simp [hL, getVariableNames, e]
  have hLv : L.v = variablesLocal ∨ L.v = '_' :: variablesLocal := by
    rcases rename_cases (argNames sn vars) variablesLocal with ⟨_, e⟩ | ⟨_, e⟩ <;> simp [hL, getVariableNames, e]
  have hLr : L.r = responseLocal ∨ L.r = '_' :: responseLocal := by
    rcases rename_cases (argNames sn vars) responseLocal with ⟨_, e⟩ | ⟨_, e⟩ <;> simp [hL, getVariableNames, e]
  have hLd : L.d = dataLocal ∨ L.d = '_' :: dataLocal := by
    rcases rename_cases (argNames sn vars) dataLocal with ⟨_, e⟩ | ⟨_, e⟩ <;> simp [hL, getVariableNames, e]
  have hr1 : ret ≠ selfName := hfix _ (by simp [fixedMethodNames])
  have hr2 : ret ≠ kwargsName := hfix _ (by simp [fixedMethodNames])
  have hrq : ret ≠ L.q := by rcases hLq with e | e <;> rw [e] <;> exact hfix _ (by simp [fixedMethodNames])
  have hrv : ret ≠ L.v := by rcases hLv with e | e <;> rw [e] <;> exact hfix _ (by simp [fixedMethodNames])
  have hrr : ret ≠ L.r := by rcases hLr with e | e <;> rw [e] <;> exact hfix _ (by simp [fixedMethodNames])
  have hrd : ret ≠ L.d := by rcases hLd with e | e <;> rw [e] <;> exact hfix _ (by simp [fixedMethodNames])
  have hqs : L.q ≠ selfName := by rcases hLq with e | e <;> rw [e] <;> decide
  have hsq : serName ≠ L.q := by rcases hLq with e | e <;> rw [e] <;> decide
  have hvq : L.v ≠ L.q := by rw [hL]; exact (locals_distinct (argNames sn vars)).1
  constructor
  · -- lawful ⇒ supported
    intro hlaw
    unfold MethodLawful runMethod at hlaw
    cases hc : defCompiles sn vars
    · rw [hc] at hlaw; exact absurd hlaw (by simp)
    rw [hc] at hlaw
    simp only [if_true] at hlaw
    rw [← hL] at hlaw
    obtain ⟨hok, hself, hkw, hnodup⟩ := (defCompiles_iff sn vars).mp hc
    have hlawful : Lawful sn .variable (vars.map (·.name)) := by
      refine ⟨by rw [← hdp]; exact hnodup, fun n hn => ⟨?_, wire_name_kept sn .variable n⟩⟩
      have : pyName sn .variable n ∈ docParams sn vars := by
        rw [hdp]; exact List.mem_map.mpr ⟨n, hn, rfl⟩
      exact hok _ this
    refine ⟨hex.mp hlawful, ?_, ?_, ?_, ?_⟩
    · cases h : trigSelfParam sn vars
      · rfl
      · exact absurd (by simpa [trigSelfParam] using h) hself
    · cases h : trigKwargsParam sn vars
      · rfl
      · exact absurd (by simpa [trigKwargsParam] using h) hkw
    · cases h : trigQueryCapture sn vars
      · rfl
      · exfalso
        simp only [trigQueryCapture, Bool.and_eq_true, List.contains_iff_mem] at h
        obtain ⟨hq1, hq2⟩ := h
        have hLq' : L.q = '_' :: queryLocal := by
          rcases rename_cases (argNames sn vars) queryLocal with ⟨_, e⟩ | ⟨hout, _⟩
          · simp [hL, getVariableNames, e]
          · exact absurd ((mem_argNames sn vars _).mpr (Or.inr hq1)) hout
        obtain ⟨vals, hread, hvars, _⟩ := runBody_variables sub L ret _ _ _ _ _ hlaw
        have hmem : Val.text ∈ vals :=
          readAll_mem _ L.q .text (by simp [List.lookup]) _ vals hread (by rw [hLq']; exact hq2)
        simp only [specSent, Val.dict.injEq] at hvars
        have := applySer_inj _ _ _ hvars.2
        rw [← this] at hmem
        exact text_not_mem_argVals _ _ hmem
    · cases h : trigGlobalShadow sn ret vars
      · rfl
      · exfalso
        simp only [trigGlobalShadow, Bool.or_eq_true, Bool.and_eq_true, List.contains_iff_mem] at h
        rcases h with (h | h) | ⟨hany, h⟩
        · rw [runBody_gql sub L ret _ _ _ _ h] at hlaw
          exact absurd hlaw (by simp)
        · exact runBody_ret sub L ret _ _ _ _ _ hlaw hr1 hrq hrv hrr hrd h
        · obtain ⟨_, _, _, hnone⟩ := runBody_variables sub L ret _ _ _ _ _ hlaw
          have hnone' := hnone hany
          rw [lookup_cons_ne _ _ _ _ hsq] at hnone'
          obtain ⟨x, hx⟩ := env0_lookup_some serName (docParams sn vars) (by decide) h
          simp only [env0] at hx
          rw [hx] at hnone'
          exact absurd hnone' (by simp)
  · -- supported ⇒ lawful
    rintro ⟨hsup, h10, h11, h12, h13⟩
    obtain ⟨hnodup, hall⟩ := hex.mpr hsup
    have hself : selfName ∉ docParams sn vars := contains_false h10
    have hkw : kwargsName ∉ docParams sn vars := contains_false h11
    have hok : ∀ p ∈ docParams sn vars, OutOK (variableCfg sn) p := by
      intro p hp
      rw [hdp] at hp
      obtain ⟨n, hn, rfl⟩ := List.mem_map.mp hp
      exact (hall n hn).1
    have hc : defCompiles sn vars = true :=
      (defCompiles_iff sn vars).mpr ⟨hok, hself, hkw, by rw [hdp]; exact hnodup⟩
    simp only [trigGlobalShadow, Bool.or_eq_false_iff, Bool.and_eq_false_iff] at h13
    have hgql : gqlName ∉ docParams sn vars := contains_false h13.1.1
    have hretp : ret ∉ docParams sn vars := contains_false h13.1.2
    have hser : (serFlags vars).any id = false ∨ serName ∉ docParams sn vars := by
      rcases h13.2 with h | h
      · exact Or.inl h
      · exact Or.inr (contains_false h)
    have hq : L.q ∉ docParams sn vars := by
      rcases rename_cases (argNames sn vars) queryLocal with ⟨hin, e⟩ | ⟨hout, e⟩
      · have e' : L.q = '_' :: queryLocal := by simp [hL, getVariableNames, e]
        rw [e']
        intro hm
        have hq1 : queryLocal ∈ docParams sn vars := by
          rcases (mem_argNames sn vars _).mp hin with h | h
          · exact absurd h (by decide)
          · exact h
        have : trigQueryCapture sn vars = true := by
          simp [trigQueryCapture, hq1, hm]
        rw [h12] at this; exact absurd this (by simp)
      · have e' : L.q = queryLocal := by simp [hL, getVariableNames, e]
        rw [e']
        exact fun hm => hout ((mem_argNames sn vars _).mpr (Or.inr hm))
    unfold MethodLawful runMethod
    rw [hc]
    simp only [if_true]
    have hreads : dictReads sn vars = docParams sn vars := rfl
    rw [← hL, hreads, runBody_ok sub L ret _ _ _ hq hqs hself (by rw [hdp]; exact hnodup) hvq hgql hretp hr1 hr2 hrq hrv hrr hrd hser hsq]
    simp [specSent, docParams]

/-- with snake-casing on no parameter begins with an underscore: the capture region C18-F12 is empty
    there (`$query` + `$_query` is then the duplicate parameter of C18-F1 instead) -/
theorem capture_needs_snake_off (vars : List Var) (hg : ∀ v ∈ vars, GName v.name) :
    trigQueryCapture true vars = false := by
  have key : ('_' :: queryLocal) ∉ docParams true vars := by
    intro hm
    simp only [docParams, paramOf, List.mem_map] at hm
    obtain ⟨v, hv, e⟩ := hm
    have hgv := hg v hv
    have e' : processName (variableCfg true) v.name = '_' :: queryLocal := e
    cases hu : allUnderscore v.name
    · rw [processName_snake _ v.name rfl hu] at e'
      rcases snake_head v.name with ⟨_, h2⟩ | ⟨a, as, r, h1, h2⟩
      · rw [h2, suffix_nil] at e'; exact absurd e' (by simp)
      · have haO : cls a ≠ .O := by
          have : a ∈ alnum v.name := by rw [h1]; simp
          simpa [alnum] using (List.mem_filter.mp this).2
        have hne : lowerChar a ≠ '_' := ne_underscore_of_cls (cls_lowerChar_ne_O haO)
        obtain ⟨r', hr'⟩ := suffix_head (variableCfg true) (lowerChar a) r
        rw [h2, hr'] at e'
        injection e' with e1 _
        exact hne e1
    · rw [processName_snake_allU _ v.name rfl hu] at e'
      revert e'
      decide +kernel
  cases h : trigQueryCapture true vars
  · rfl
  · simp only [trigQueryCapture, Bool.and_eq_true, List.contains_iff_mem] at h
    exact absurd h.2 key

/-- `method_reads_bound`: every name the emitted method body READS is bound when it is read - a parameter, a
    helper local assigned earlier, or a module global - for EVERY variable list, flag combination and method
    kind, inside the finding regions too: the dict values read the parameters (`dictReads = docParams`:
    `_get_dict_value` is given the processed name, with and without a serialize call), the helper locals are
    read after their assignment.  So a call never raises NameError. -/
theorem method_reads_bound (sn sub : Bool) (ret : Name) (vars : List Var) (n : Name) :
    dictReads sn vars = docParams sn vars ∧ runMethod sn sub ret vars ≠ .error (.nameError n) := by
  refine ⟨rfl, ?_⟩
  unfold runMethod
  split
  · exact runBody_no_nameError sub _ ret _ _ _ _ (fun p hp => hp) n
  · intro h; exact absurd h (by simp)

/-- the partial theorem in its usual form -/
theorem method_partial (sn sub : Bool) (ret : Name) (vars : List Var)
    (hg : ∀ v ∈ vars, GName v.name) (hnd : (vars.map (·.name)).Nodup) (hret : ret ∉ fixedMethodNames)
    (hs : Supported_18m sn ret vars) : MethodLawful sn sub ret vars :=
  (method_exact sn sub ret vars hg hnd hret).mpr hs

/-- the method scope at full strength: every operation with distinct GraphQL variable names gets a lawful method -/
def Method_full : Prop :=
  ∀ (sn sub : Bool) (opName : Name) (vars : List Var),
    (∀ v ∈ vars, GName v.name) → (vars.map (·.name)).Nodup → MethodLawful sn sub (pascal opName) vars

/-- `Method_full_false`: nothing refuses `$self`, and the method does not compile -/
theorem Method_full_false : ¬ Method_full := by
  intro h
  have hl := h false false "Q".toList [⟨"self".toList, false, false⟩] (by decide +kernel) (by decide +kernel)
  have := (method_exact false false _ _ (by decide +kernel) (by decide +kernel) (pascal_not_fixed _)).mp hl
  revert this
  decide +kernel

/-- the four method-scope findings on the model, evaluated: what the generated method does -/
theorem method_witnesses :
    -- C18-F10: `$self` / (snake) `$Self`: duplicate argument
    runMethod false false "Q".toList [⟨"self".toList, false, false⟩] = .error .syntaxError ∧
    runMethod true false "Q".toList [⟨"x".toList, true, false⟩, ⟨"Self".toList, false, false⟩] = .error .syntaxError ∧
    -- C18-F11: `$kwargs` / (snake) `$_kwargs`
    runMethod false false "Q".toList [⟨"kwargs".toList, false, false⟩] = .error .syntaxError ∧
    runMethod true true "Q".toList [⟨"_kwargs".toList, false, false⟩, ⟨"x".toList, false, false⟩] = .error .syntaxError ∧
    -- C18-F12: `$query` + `$_query`, snake off: the operation text is sent as the value of `$_query`
    runMethod false false "Q".toList [⟨"query".toList, false, false⟩, ⟨"_query".toList, false, false⟩] =
      .ok ⟨.text, .dict ["query".toList, "_query".toList] [.arg 0, .text],
           .parsed (.data (.resp .text (.dict ["query".toList, "_query".toList] [.arg 0, .text])))⟩ ∧
    -- C18-F13: `$gql` (snake: `$Gql`) is called instead of the module function; `$Q` in `query Q` (snake off) hides the result class
    runMethod true true "Q".toList [⟨"Gql".toList, true, false⟩] = .error (.notCallable gqlName) ∧
    runMethod false false "Q".toList [⟨"Q".toList, true, false⟩] = .error (.noAttribute "Q".toList) ∧
    runMethod false false "Q".toList [⟨"serialize_dt".toList, true, true⟩] = .error (.notCallable serName) ∧
    -- a renamed variable of a custom scalar with a serialize function: the PARAMETER is what gets serialized
    runMethod true false "Q".toList [⟨"createdAfter".toList, true, true⟩, ⟨"class".toList, false, true⟩] =
      .ok ⟨.text, .dict ["createdAfter".toList, "class".toList] [.ser (.arg 0), .ser (.arg 1)],
           .parsed (.data (.resp .text (.dict ["createdAfter".toList, "class".toList] [.ser (.arg 0), .ser (.arg 1)])))⟩ :=
  ⟨rfl, rfl, rfl, rfl, rfl, rfl, rfl, rfl, rfl⟩

/-- the neighbours that work: `$query` alone is renamed around; `$response`+`$_response` is harmless
    (the helper is bound only after the dict was built); with snake-casing `$_query` alone is just `query` -/
theorem method_neighbours :
    Supported_18m false "Q".toList [⟨"query".toList, false, false⟩, ⟨"variables".toList, true, false⟩] ∧
    Supported_18m false "Q".toList [⟨"response".toList, false, false⟩, ⟨"_response".toList, false, false⟩, ⟨"data".toList, false, false⟩, ⟨"_data".toList, false, false⟩] ∧
    Supported_18m true "Q".toList [⟨"_query".toList, false, false⟩, ⟨"Data".toList, false, false⟩] ∧
    Supported_18m false "Q".toList [⟨"Self".toList, false, false⟩, ⟨"_kwargs".toList, false, false⟩, ⟨"Gql".toList, false, false⟩] := by
  decide +kernel

/-- non-vacuity of `method_exact` / `method_partial` -/
example : (∀ v ∈ ([⟨"query".toList, false, false⟩, ⟨"userId".toList, true, false⟩] : List Var), GName v.name) ∧
    (([⟨"query".toList, false, false⟩, ⟨"userId".toList, true, false⟩] : List Var).map (·.name)).Nodup ∧
    pascal "getUser".toList ∉ fixedMethodNames ∧
    Supported_18m true (pascal "getUser".toList) [⟨"query".toList, false, false⟩, ⟨"userId".toList, true, false⟩] := by
  decide +kernel

end MethodScope

/-! ## 12. The scope of a result class fed by several selection sources

  One class gets its fields from the selection set itself, from inline fragments and from unpacked
  fragment spreads (`_resolve_selection_set`); fragments used as base classes contribute by inheritance. -/

section ClassScope
open Ariadne.NameScopes

/-- `class_rows`: the class declares one attribute per resolved field node, in order, nothing
    de-duplicated - whatever source the node came from - and the fragments not unpacked become bases. -/
theorem class_rows (sn : Bool) (e : TypeEnv) (root : Name) (addT : Bool) (sels : List Sel) (items : List Item)
    (h : resolveSels e root sels = .ok items) :
    classOf sn e root addT sels =
      .ok ⟨(classKeys addT items).map (emit sn .resultField), (itemBases items).eraseDups.map pascal⟩ := by
  simp [classOf, h]

/-- every attribute of the class travels under the response key of its field node -/
theorem class_wire_kept (sn : Bool) (keys : List Name) :
    (keys.map (emit sn .resultField)).map (·.wire) = keys := by
  induction keys with
  | nil => rfl
  | cons k ks ih => simp only [List.map_cons, wire_name_kept, ih]

/-- `class_rows_distinct`: two different response keys of one class get different attributes ⇔
    the pair lies in no merge region (C18-F1, F2, F3, F7, F8) - for keys from any mix of sources. -/
theorem class_rows_distinct (sn : Bool) (a b : Name) (ha : GName a) (hb : GName b) (hab : a ≠ b) :
    (emit sn .resultField a).py ≠ (emit sn .resultField b).py ↔ trigScopeMerge sn .resultField a b = false := by
  have h := scope_collision_iff sn .resultField a b ha hb
  have ea : (emit sn .resultField a).py = pyName sn .resultField a := rfl
  have eb : (emit sn .resultField b).py = pyName sn .resultField b := rfl
  rw [ea, eb]
  constructor
  · intro hne
    cases ht : trigScopeMerge sn .resultField a b
    · rfl
    · exact absurd (h.mpr (Or.inr ht)) hne
  · intro ht heq
    rcases h.mp heq with h1 | h1
    · exact hab h1
    · rw [ht] at h1; exact absurd h1 (by simp)

/-- `class_keys_eq_collect`: where the generator's type tests agree with GraphQL (`noDropSels`), the class
    together with the fragments it inherits from carries exactly the response keys GraphQL's
    CollectFields yields for an object of runtime type `T` - same keys, same order, same multiplicity. -/
theorem class_keys_eq_collect (e : TypeEnv) (T root : Name) (sels : List Sel)
    (h : noDropSels e T root sels = true) : effectiveSels e root sels = .ok (collectSels e T sels) :=
  effectiveSels_eq_collect e T root sels h

/-- `class_nothing_lost`: a class without base classes declares every collected key itself -/
theorem class_nothing_lost (e : TypeEnv) (T root : Name) (sels : List Sel) (items : List Item)
    (hres : resolveSels e root sels = .ok items) (hb : itemBases items = [])
    (h : noDropSels e T root sels = true) : itemKeys items = collectSels e T sels := by
  have h1 := effectiveSels_of_no_bases e root sels items hres hb
  have h2 := effectiveSels_eq_collect e T root sels h
  rw [h1] at h2
  exact Except.ok.inj h2

/-- What the property demands of a result class, for an object of runtime type `T`: every response key
    GraphQL collects has an attribute that travels under it; attributes of different keys are different
    Python names; every attribute is a usable name. -/
def ClassLawful (sn : Bool) (e : TypeEnv) (T : Name) (sels : List Sel) (out : ClassOut) : Prop :=
  (∀ k ∈ collectSels e T sels, ∃ row ∈ out.rows, row.wire = k) ∧
  (∀ r1 ∈ out.rows, ∀ r2 ∈ out.rows, r1.wire ≠ r2.wire → r1.py ≠ r2.py) ∧
  (∀ r ∈ out.rows, OutOK (fieldCfg sn) r.py)

/-- `class_exact`: for selection trees of any shape and depth whose fragments are all unpacked (no
    base class) and in which nothing is dropped, the generated class is lawful ⇔ its response keys
    lie outside every finding region of the response-key scope.  In particular two response keys of
    one class - e.g. two aliases of ONE schema field, one of them inside an inline fragment - always
    get two attributes. -/
theorem class_exact (sn : Bool) (e : TypeEnv) (T root : Name) (sels : List Sel) (items : List Item) (out : ClassOut)
    (hres : resolveSels e root sels = .ok items) (hb : itemBases items = [])
    (hnd : noDropSels e T root sels = true) (hg : ∀ k ∈ itemKeys items, GName k)
    (hout : classOf sn e root false sels = .ok out) :
    ClassLawful sn e T sels out ↔ Supported_18 sn .resultField (itemKeys items) := by
  have hrows : out.rows = (itemKeys items).map (emit sn .resultField) := by
    rw [class_rows sn e root false sels items hres] at hout
    have := Except.ok.inj hout
    rw [← this]; simp [classKeys]
  have hcol := class_nothing_lost e T root sels items hres hb hnd
  have hmem : ∀ r, r ∈ out.rows ↔ ∃ k ∈ itemKeys items, emit sn .resultField k = r := by
    intro r; rw [hrows]; exact List.mem_map
  constructor
  · rintro ⟨_, h2, h3⟩
    refine ⟨fun n hn => ?_, fun a ha b hb' hab => ?_⟩
    · have := h3 _ ((hmem _).mpr ⟨n, hn, rfl⟩)
      exact (scope_valid_iff sn .resultField n (hg n hn)).mp this
    · have hne := h2 _ ((hmem _).mpr ⟨a, ha, rfl⟩) _ ((hmem _).mpr ⟨b, hb', rfl⟩)
        (by rw [wire_name_kept, wire_name_kept]; exact hab)
      exact (class_rows_distinct sn a b (hg a ha) (hg b hb') hab).mp hne
  · rintro ⟨h1, h2⟩
    refine ⟨fun k hk => ?_, fun r1 hr1 r2 hr2 hw => ?_, fun r hr => ?_⟩
    · rw [← hcol] at hk
      exact ⟨_, (hmem _).mpr ⟨k, hk, rfl⟩, wire_name_kept sn .resultField k⟩
    · obtain ⟨a, ha, rfl⟩ := (hmem _).mp hr1
      obtain ⟨b, hb', rfl⟩ := (hmem _).mp hr2
      rw [wire_name_kept, wire_name_kept] at hw
      exact (class_rows_distinct sn a b (hg a ha) (hg b hb') hw).mpr (h2 a ha b hb' hw)
    · obtain ⟨k, hk, rfl⟩ := (hmem _).mp hr
      exact (scope_valid_iff sn .resultField k (hg k hk)).mpr (h1 k hk)

/-- the selection of the seeded change, on the model: `small: avatar  ... on User { large: avatar }`
    gives two attributes; with `fooBar: avatar ... on User { foo_bar: avatar }` the two keys are merged (C18-F1) -/
def userEnv : TypeEnv :=
  ⟨[("User".toList, ["Node".toList]), ("Query".toList, [])], [("Node".toList, ["User".toList])], []⟩

theorem class_witnesses :
    (classOf true userEnv "User".toList false
        [.field (some "small".toList) "avatar".toList,
         .inline "User".toList [.field (some "large".toList) "avatar".toList]]).toOption.map (·.rows.map (·.py))
      = some ["small".toList, "large".toList] ∧
    (classOf true userEnv "User".toList false
        [.field (some "fooBar".toList) "avatar".toList,
         .spread "F".toList "Node".toList [.field (some "foo_bar".toList) "avatar".toList]]).toOption.map (·.rows.map (·.py))
      = some ["foo_bar".toList, "foo_bar".toList] ∧
    noDropSels userEnv "User".toList "User".toList
        [.field (some "small".toList) "avatar".toList,
         .inline "User".toList [.field (some "large".toList) "avatar".toList],
         .spread "F".toList "Node".toList [.field (some "foo_bar".toList) "avatar".toList]] = true := by
  decide +kernel

end ClassScope

/-! ## 13. Determinism: a run is history-free

  "the mapping is deterministic": what a call returns depends on its flags and its name only - not on
  the calls made before it in the same process (other scopes, other flags), nor on their order. -/

/-- `process_history_free`: whatever was called before and after, the call at any position of a run
    returns what it returns alone. -/
theorem process_history_free (before after : List Call) (c : Call) :
    (runCalls (before ++ c :: after))[before.length]? = some (processName c.cfg c.name) := by
  simp [runCalls]

/-- ... in particular a call repeated later in the run (same flags, same name, anything in between) returns the same name -/
theorem process_repeatable (a b c' : List Call) (c : Call) :
    (runCalls (a ++ c :: b ++ c :: c'))[a.length]? = (runCalls (a ++ c :: b ++ c :: c'))[a.length + 1 + b.length]? := by
  have h1 := process_history_free a (b ++ c :: c') c
  have h2 := process_history_free (a ++ c :: b) c' c
  simp only [List.append_assoc, List.cons_append] at h1 h2 ⊢
  rw [h1]
  have : (a ++ c :: b).length = a.length + 1 + b.length := by simp; omega
  rw [this] at h2
  exact h2.symm

/-- `process_order_free`: re-ordering the calls of a run re-orders the answers and changes none -/
theorem process_order_free (l₁ l₂ : List Call) (h : l₁.Perm l₂) : (runCalls l₁).Perm (runCalls l₂) :=
  h.map _

/-- the flags matter (so a result must not be shared between calls that differ in flags only):
    `json` is suffixed for a pydantic field and left alone for a method parameter; `__rank` loses BOTH
    underscores as a field and none as a parameter -/
theorem flags_matter :
    processName ⟨false, true, true⟩ "json".toList = "json_".toList ∧ processName ⟨false, false, false⟩ "json".toList = "json".toList ∧
    processName ⟨false, true, true⟩ "__rank".toList = "rank".toList ∧ processName ⟨false, false, false⟩ "__rank".toList = "__rank".toList := by
  decide +kernel

end Ariadne.C18
