/-
  C18 — GraphQL names map lawfully to Python names.

  Statements (and their final proofs) about the model in Model/Names.lean; helper lemmas are in
  Proofs/Names.lean.  Quantification: every name (list of characters) of the stated domain, of any
  length; every combination of the three flags of `process_name`; every scope; every list of names.
  Tables (`kwlist`, `pydanticReserved`, the fallback literal, `__typename`/`typename__`) are the ones
  regenerated from /repo on every run; facts about them are discharged by `decide +kernel`.
-/
import AriadneModel.Proofs.Names

set_option linter.unusedSimpArgs false
set_option linter.unusedVariables false

namespace Ariadne.C18
open Ariadne Ariadne.Names

/-! ## 1. Table law: appending `_` to a keyword never yields a keyword or a reserved name -/

/-- `suffix_not_keyword`, on the tables as strings. -/
theorem suffix_not_keyword :
    ∀ k ∈ Tables.kwlist, (k ++ "_") ∉ Tables.kwlist ++ Tables.pydanticReserved := by decide +kernel

/-- the same for reserved pydantic names (the second suffix step) -/
theorem suffix_not_reserved :
    ∀ r ∈ Tables.pydanticReserved, (r ++ "_") ∉ Tables.kwlist ++ Tables.pydanticReserved := by decide +kernel

/-- no keyword / reserved name begins with an underscore (so trimming never *creates* the need for
    the check to have run earlier on the untrimmed name) and none is empty -/
theorem tables_shape :
    ∀ k ∈ Tables.kwlist ++ Tables.pydanticReserved, k ≠ "" ∧ k.toList.head? ≠ some '_' := by decide +kernel

/-! ## 2. `str_to_snake_case` -/

/-- `snake_idempotent`: for every name (no hypothesis needed). -/
theorem snake_idempotent (n : Name) : snake (snake n) = snake n := snake_idem n

/-- `alnum_preserved` for `str_to_snake_case`: the letters and digits of the output are those of
    the input, in order, lower-cased. -/
theorem snake_alnum_preserved (n : Name) : alnum (snake n) = lower (alnum n) := alnum_snake n

/-- the output is a word string whose words are separated by single underscores: tokenizing it
    again gives the same words -/
theorem snake_tokens_fixed (n : Name) : tokens (snake n) = (tokens n).map lower :=
  tokens_joinU _ (snakeWords_canon n)

example : snake "fooBarHTTPResponse2x_ABc".toList = "foo_bar_http_response_2_x_a_bc".toList := by decide


/-! ## 3. `process_name`: letters kept -/

/-- `alnum_preserved`, for every name and every flag combination: unless the all-underscore
    fallback fires, the letters and digits of the output are exactly those of the input, in order -
    lower-cased when snake-casing is on, with their case kept when it is off. -/
theorem alnum_preserved (cfg : Cfg) (n : Name) (h : fallbackFires cfg n = false) :
    alnum (processName cfg n) = if cfg.snake then lower (alnum n) else alnum n :=
  alnum_processName cfg n h

/-- ... and when it fires the input had no letter or digit to keep (the output is the literal). -/
theorem alnum_fallback (cfg : Cfg) (n : Name) (h : fallbackFires cfg n = true) :
    alnum n = [] ∧ processName cfg n = fallbackName :=
  fallback_processName cfg n h

example : fallbackFires ⟨true, true, true⟩ "fooBar".toList = false := by decide
example : fallbackFires ⟨false, true, true⟩ "__".toList = true := by decide

/-! ## 4. `process_name`: the output is a usable Python name, exactly outside two trigger regions -/

/-- `valid_identifier_iff`: for every GraphQL name and every flag combination the output is a valid
    identifier, not a keyword, and (when the reserved-names flag is on) not a public attribute of
    pydantic's BaseModel  ⇔  the name lies in neither finding region
    (C18-F4 `trigDigitLead`: `_1` → `1`;  C18-F5 `trigTrimToKeyword`: `_class` → `class`). -/
theorem valid_identifier_iff (cfg : Cfg) (n : Name) (hg : GName n) :
    OutOK cfg (processName cfg n) ↔ (trigDigitLead cfg n = false ∧ trigTrimToKeyword cfg n = false) := by
  have hw := gname_word hg
  cases hs : cfg.snake
  · -- snake-casing off
    cases n with
    | nil => exact absurd hg (by simp [GName])
    | cons c r =>
      by_cases hc : c = '_'
      · subst hc
        cases ht : cfg.trim
        · -- nothing is stripped: the suffixed name
          rw [processName_plain cfg _ hs ht (by simp), outOK_iff, pyIdent_suffix cfg _ (by simp)]
          simp [trigDigitLead, trigTrimToKeyword, hs, ht, suspect_suffix]
          exact hg
        · rw [processName_trim_lead cfg r hs ht]
          have hne : ('_' :: r) ≠ lstripU ('_' :: r) := by
            rw [lstripU_underscore]
            intro e
            have : ('_' : Char) ∈ lstripU r := by rw [← e]; simp
            rcases lstripU_shape r with h | ⟨d, r', h, hd⟩
            · rw [h] at this; simp at this
            · have e' := e; rw [h] at e'; injection e' with e1 _; exact hd e1.symm
          rcases lstripU_shape r with hl | ⟨d, r', hl, hd⟩
          · simp [hl, outOK_fallback, trigDigitLead, trigTrimToKeyword, hs, ht, lstripU_underscore, cls1, suspect_nil]
          · have hwl : Word (d :: r') := by
              rw [← hl]; exact word_lstripU ((word_cons _ _).mp hw).2
            rw [hl]
            simp only [List.cons_ne_nil, if_false, outOK_iff, pyIdent_of_word_ne hwl hd]
            simp only [trigDigitLead, trigTrimToKeyword, hs, ht, lstripU_underscore, hl, cls1]
            have hne' : ('_' :: r != d :: r') = true := by
              simp only [bne_iff_ne, ne_eq]; rw [← hl]; rw [lstripU_underscore] at hne; exact hne
            simp [hne']
      · rw [processName_trim_nolead cfg c r hs hc, outOK_iff, pyIdent_suffix cfg _ (by simp)]
        have hD : cls c ≠ .D := by
          rcases hg.1 with e | e | e
          · simp [e]
          · simp [e]
          · exact absurd e hc
        simp only [suspect_suffix, and_true, trigDigitLead, trigTrimToKeyword, hs, lstripU_of_ne r hc, cls1]
        simp [hD]
        exact hg
  · -- snake-casing on
    have hT : trigTrimToKeyword cfg n = false := by simp [trigTrimToKeyword, hs]
    cases hu : allUnderscore n
    · rw [processName_snake cfg n hs hu]
      have hnu : ¬ ∀ c ∈ n, c = '_' := by
        intro hall
        have : allUnderscore n = true := (allUnderscore_iff n).mpr ⟨by intro e; subst e; simp [GName] at hg, hall⟩
        rw [hu] at this; exact absurd this (by simp)
      rcases snake_head n with ⟨h1, _⟩ | ⟨a, as, r, h1, h2⟩
      · exact absurd h1 (alnum_ne_nil_of_word hw hnu)
      · have haO : cls a ≠ .O := by
          have : a ∈ alnum n := by rw [h1]; simp
          simpa [alnum] using (List.mem_filter.mp this).2
        have hws : Word (lowerChar a :: r) := by rw [← h2]; exact word_snake n
        rw [outOK_iff, h2, pyIdent_suffix cfg _ (by simp), suspect_suffix,
          pyIdent_of_word_ne hws (ne_underscore_of_cls (cls_lowerChar_ne_O haO))]
        simp only [and_true, hT, trigDigitLead, hs, if_true, h1, cls1]
        rw [cls_lowerChar]
        cases hca : cls a <;> simp
    · rw [processName_snake_allU cfg n hs hu]
      simp [outOK_fallback, hT, trigDigitLead, hs, allUnderscore_alnum hu, cls1]

example : GName "_1".toList ∧ trigDigitLead ⟨true, true, true⟩ "_1".toList = true := by decide
example : GName "_class".toList ∧ trigTrimToKeyword ⟨false, true, true⟩ "_class".toList = true := by decide
example : GName "fooBar".toList ∧ trigDigitLead ⟨true, true, true⟩ "fooBar".toList = false
    ∧ trigTrimToKeyword ⟨false, true, true⟩ "fooBar".toList = false := by decide

/-- C18-F4 on the model: `_1` becomes `1`. -/
theorem digit_lead_witness : processName ⟨true, true, true⟩ "_1".toList = "1".toList ∧
    ¬ PyIdent (processName ⟨true, true, true⟩ "_1".toList) := by decide

/-- C18-F5 on the model: with snake-casing off `_class` becomes the keyword, `_copy` shadows `BaseModel.copy`. -/
theorem trim_to_keyword_witness :
    processName ⟨false, true, true⟩ "_class".toList = "class".toList ∧ "class".toList ∈ kwlistC ∧
    processName ⟨false, true, true⟩ "_copy".toList = "copy".toList ∧ "copy".toList ∈ reservedC := by decide


/-! ## 5. `process_name`: idempotence, exactly outside two trigger regions -/

/-- `process_idempotent`, as an equivalence: for every GraphQL name and every flag combination,
    mapping the output again changes nothing  ⇔  the name lies in neither
    C18-F6 `trigFallbackNotFixed` (snake-casing on, all-underscore name: `_` → `underscore_named_field_`
    → `underscore_named_field`) nor C18-F5 `trigTrimToKeyword` (`_class` → `class` → `class_`).
    In particular it holds for all names under (snake off, trim off), for all names with a letter
    or digit under snake on, and fails on the two witnesses below. -/
theorem process_idempotent_iff (cfg : Cfg) (n : Name) (hg : GName n) :
    processName cfg (processName cfg n) = processName cfg n ↔
      (trigFallbackNotFixed cfg n = false ∧ trigTrimToKeyword cfg n = false) := by
  have hw := gname_word hg
  cases hs : cfg.snake
  · have hF : trigFallbackNotFixed cfg n = false := by simp [trigFallbackNotFixed, hs]
    simp only [hF, true_and]
    cases n with
    | nil => exact absurd hg (by simp [GName])
    | cons c r =>
      by_cases hc : c = '_'
      · subst hc
        cases ht : cfg.trim
        · have hT : trigTrimToKeyword cfg ('_' :: r) = false := by simp [trigTrimToKeyword, ht]
          rw [processName_plain cfg ('_' :: r) hs ht (by simp),
            processName_plain cfg (suffix cfg ('_' :: r)) hs ht (suffix_ne_nil cfg (by simp)), suffix_idem]
          simp [hT]
        · rw [processName_trim_lead cfg r hs ht]
          rcases lstripU_shape r with hl | ⟨d, r', hl, hd⟩
          · simp [hl, processName_fallback_plain cfg hs, trigTrimToKeyword, lstripU_underscore, suspect_nil]
          · have hne' : ('_' :: r != d :: r') = true := by
              simp only [bne_iff_ne, ne_eq]
              intro e; injection e with e1 _; exact hd e1.symm
            simp only [hl, List.cons_ne_nil, if_false]
            rw [processName_trim_nolead cfg d r' hs hd, suffix_eq_self_iff]
            simp [trigTrimToKeyword, hs, ht, lstripU_underscore, hl, hne']
      · have hT : trigTrimToKeyword cfg (c :: r) = false := by
          simp [trigTrimToKeyword, lstripU_of_ne r hc]
        rw [processName_trim_nolead cfg c r hs hc]
        obtain ⟨r', hr'⟩ := suffix_head cfg c r
        have h2 := processName_trim_nolead cfg c r' hs hc
        rw [← hr'] at h2
        rw [h2, suffix_idem]
        simp [hT]
  · have hT : trigTrimToKeyword cfg n = false := by simp [trigTrimToKeyword, hs]
    simp only [hT, and_true]
    cases hu : allUnderscore n
    · have hnu : ¬ ∀ c ∈ n, c = '_' := by
        intro hall
        have : allUnderscore n = true := (allUnderscore_iff n).mpr ⟨by intro e; subst e; simp [GName] at hg, hall⟩
        rw [hu] at this; exact absurd this (by simp)
      rw [processName_snake_fixed cfg n hs hu (alnum_ne_nil_of_word hw hnu)]
      simp [trigFallbackNotFixed, hu]
    · rw [processName_snake_allU cfg n hs hu]
      simp [trigFallbackNotFixed, hs, hu, processName_fallback_snake cfg hs]

/-- the usual form: idempotent on every GraphQL name outside the two finding regions -/
theorem process_idempotent (cfg : Cfg) (n : Name) (hg : GName n)
    (h6 : trigFallbackNotFixed cfg n = false) (h5 : trigTrimToKeyword cfg n = false) :
    processName cfg (processName cfg n) = processName cfg n :=
  (process_idempotent_iff cfg n hg).mpr ⟨h6, h5⟩

/-- the flag combinations for which it holds for ALL GraphQL names: snake-casing off and trimming off -/
theorem process_idempotent_plain (cfg : Cfg) (hs : cfg.snake = false) (ht : cfg.trim = false) (n : Name) (hg : GName n) :
    processName cfg (processName cfg n) = processName cfg n :=
  process_idempotent cfg n hg (by simp [trigFallbackNotFixed, hs]) (by simp [trigTrimToKeyword, ht])

/-- ... and it is false for every other flag combination (snake on: `_`; snake off, trim on: `_class`) -/
theorem process_idempotent_false :
    (∀ t r, processName ⟨true, t, r⟩ (processName ⟨true, t, r⟩ "_".toList) ≠ processName ⟨true, t, r⟩ "_".toList) ∧
    (∀ r, processName ⟨false, true, r⟩ (processName ⟨false, true, r⟩ "_class".toList) ≠ processName ⟨false, true, r⟩ "_class".toList) := by
  decide

example : GName "__".toList ∧ trigFallbackNotFixed ⟨true, false, false⟩ "__".toList = true := by decide
example : GName "fooBar".toList ∧ trigFallbackNotFixed ⟨true, true, true⟩ "fooBar".toList = false := by decide

end Ariadne.C18
