import AriadneModel.Spec.BuilderDoc

namespace Ariadne.C14
end Ariadne.C14
