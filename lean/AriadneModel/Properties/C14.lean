/-
  C14 — The custom operation builder emits valid, faithful, history-free documents.

  Models:  Model/CustomGen.lean (schema ↦ generated builder classes), Model/Builder.lean (GraphQLField
  objects, the store of class-level objects, `to_ast`, `get_formatted_variables`, the client's
  assembly), Spec/BuilderDoc.lean (what an expression says, resolved documents, validator, triggers).
  Quantification: every schema IR, every history (list of operations), every operation (list of
  builder expressions of any size and depth), every store — no size bound anywhere.

  The property is FALSE on the pinned tree (four open findings F1, F3, F4, F5; F2 - variables of fields
  nested deeper than two levels were never declared - was repaired by /repo commit dfbc7ef, and its old
  region now belongs to the theorem).  Hence:
    `C14_full`        the property at full strength,
    `C14_full_false`  refuted from one concrete witness per open finding (F1, F3, F4, F5),
    `C14_F2_witness_now_ok`  the old F2 witness satisfies the property (regression theorem);
                      `C14_F2_old_behaviour_violates`: the pre-repair `get_formatted_variables` does not,
    `C14_partial`     the property outside the finding triggers (`Supported_14`), narrowed by the explicitly
                      named `Proved_14` (the operation ITSELF applies no mutator to a class-level object; the
                      HISTORY is constrained by the F4 trigger alone since `history_free_outside_F4`); the region
                      between the two - an operation that applies alias/on to a class-level accessor it uses once -
                      is covered by correspondence and oracle only.
  Objects kept in python variables (Model/BuilderLet.lean): `rendering_changes_only_formatted`,
  `rerender_formatted_irrelevant`, `history_free_owned`, `history_free_owned_calls`, `runProg_conservative`;
  `C14_owned_full` is refuted by finding F6 (`owned_reuse_in_one_operation_undeclared`, `C14_owned_full_false`).
-/
import AriadneModel.Proofs.C14Total
import AriadneModel.Proofs.C14Old
import AriadneModel.Proofs.C14Prog
import AriadneModel.Proofs.C14Frame
import AriadneModel.Spec.BuilderLetDoc

set_option linter.unusedSimpArgs false
set_option linter.unusedVariables false
set_option maxRecDepth 8192

namespace Ariadne.C14
open Ariadne Ariadne.Builder Ariadne.CustomGen Ariadne.BuilderDoc

/-! ## Must-tier theorems about the builder runtime (any package, any store, any tree) -/

/-- `var_names_unique`: whatever the tree (references to mutated class-level objects included), whatever
    the names already taken: the variables `to_ast` writes into the selection of one top-level field are
    pairwise distinct, none of them was taken before, and the used-names set grows by exactly them. -/
theorem var_names_unique (fuel idx : Nat) (st : Store) (used : List String) (n : Node)
    (s : Sel) (n' : Node) (st' : Store) (used' : List String)
    (h : toAst fuel idx st used n = .ok (s, n', st', used')) :
    (selVars s).Nodup ∧ (∀ v ∈ selVars s, v ∉ used) ∧ used' = used ++ selVars s := by
  obtain ⟨e, nd, dj⟩ := toAst_ext idx fuel st used n s n' st' used' h
  exact ⟨nd, dj, e⟩

example : ∃ s n' st' u', toAst 5 0 [] ["n_0"]
    (.obj { cls := "C", fieldName := "f", vars := [{ key := "n", ty := "Int", value := .num 1 0 }] }
      [.obj { cls := "C", fieldName := "g", vars := [{ key := "n", ty := "Int", value := .num 2 0 }] } [] []] [])
    = .ok (s, n', st', u') ∧ selVars s = ["n_0_1", "n_0_2"] := ⟨_, _, _, _, rfl, by decide⟩

/-- `none_omitted`: a generated accessor records exactly the arguments the caller passed a non-None value
    for — under the GraphQL argument name, with the recorded type and the caller's value; an argument left
    as None produces neither an argument nor (there being no entry) a variable. -/
theorem none_omitted (specs : List ArgSpec) (kw : List (String × J)) (vars : List Var)
    (h : bindArgs specs kw = .ok vars) :
    (∀ v ∈ vars, v.value ≠ .null) ∧
    (∀ v ∈ vars, ∃ s ∈ specs, v.key = s.key ∧ v.ty = s.ty ∧ lookupKw s.param kw = some v.value) ∧
    (∀ s ∈ specs, ∀ x, lookupKw s.param kw = some x → x ≠ .null →
        ∃ v ∈ vars, v.key = s.key ∧ v.ty = s.ty ∧ v.value = x) := by
  obtain ⟨a, b, _, d⟩ := bindArgs_none_omitted h
  exact ⟨a, b, d⟩

example : bindArgs [{ key := "first", ty := "Int", param := "first", required := false },
                    { key := "orderBy", ty := "Order!", param := "order_by", required := true }]
    [("order_by", .str "ASC"), ("first", .null)] = .ok [{ key := "orderBy", ty := "Order!", value := .str "ASC" }] := rfl

/-- `history_free` (expressions built from fresh objects only): a history none of whose operations applies
    `alias`/`on`/`fields` to a class-level object leaves no trace — whatever `E` is (even one that does
    mutate class-level objects), it produces after that history exactly what it produces in a fresh process. -/
theorem history_free (p : Package) (H : List Op) (E : Op)
    (hH : ∀ op ∈ H, opMutatesShared op = false) :
    (runOps p (H ++ [E])).getLast? = (runOps p [E]).getLast? := by
  obtain ⟨a, b⟩ := getLast_runOps p H E hH
  rw [a, b]

/-- the `while unique_name in used_names` loop always ends with a free name: `|used| + 1` pairwise distinct
    candidates cannot all be taken (the model's guard branch is unreachable) -/
theorem format_variable_name_total (idx : Nat) (name : String) (used : List String) :
    ∃ u used', formatVarName idx name used = .ok (u, used') := formatVarName_ok idx name used

/-- `fresh_never_raises`: in a process whose class-level objects are untouched, an operation that applies no
    mutator to them and that is well-formed for the generated classes (`Intended` exists) always sends a
    document — no RecursionError (the fuel covers every acyclic tree), no AttributeError/TypeError. -/
theorem fresh_never_raises (p : Package) (H : List Op) (E : Op)
    (hH : ∀ op ∈ H, opMutatesShared op = false) (hE : opMutatesShared E = false)
    (hI : (Intended p E).isSome = true) : ∃ d, (runOps p (H ++ [E])).getLast? = some (.ok d) := by
  obtain ⟨d, hd⟩ := runOp_sends p E hE hI
  exact ⟨d, by rw [(getLast_runOps p H E hH).1, hd]⟩

/-- `declared_once_and_bound` + the recorded type: one client call over a process whose class-level objects
    are untouched, a tree of ANY depth (fields, sub-fields, members of inline fragments, nested without bound)
    with no variable name shared between two top-level fields (¬F5): substituting (declared type, sent value)
    for every variable of the document gives back the tree of field objects — each field's name, alias, its
    non-None arguments with recorded type and the caller's value, its selections; every variable is used exactly
    once; the definitions are exactly the used variables; and the process is left as it was found.
    (Until dfbc7ef this needed "no argument below level 2": finding C14-F2, fixed.) -/
theorem declared_once_and_bound (st : Store) (hp : Pristine st) (ty nm : String) (nodes : List Node) (d : Doc) (st' : Store)
    (h : execOp ty nm st nodes = .ok (d, st')) (hclash : crossClash d.sels = false) :
    resolveDoc d = some (intendedList st nodes) ∧ (docVars d).Nodup ∧ d.varDefs.map (·.1) = docVars d ∧ st' = st := by
  obtain ⟨a, b, c, e, -, -⟩ := execOp_bound hp ty nm nodes d st' h hclash
  exact ⟨b, c, e, a⟩

/-- non-vacuity: an argument at level 4, inside an inline fragment, is declared and bound -/
example : ∃ d st', execOp "query" "Op" []
    [.obj { cls := "Q", fieldName := "search", vars := [{ key := "text", ty := "String", value := .str "a" }] } []
      [.mk "Dog" [.obj { cls := "D", fieldName := "owner" }
        [.obj { cls := "U", fieldName := "posts" }
          [.obj { cls := "P", fieldName := "title", vars := [{ key := "maxLen", ty := "Int", value := .num 3 0 }] } [] []] []] []]]]
    = .ok (d, st') ∧ crossClash d.sels = false ∧ d.varDefs = [("text_0", "String"), ("maxLen_0", "Int")] :=
  ⟨_, _, rfl, by decide, by decide⟩

/-- `sent_name_and_kind`: whatever the process state, whatever the expression - when `client.query(...)` /
    `client.mutation(...)` sends, the document is an operation of THAT kind under THAT name, and `execute` is handed the
    same name as `operation_name` and the collected values as `variables` (`Doc.request`). -/
theorem sent_name_and_kind (p : Package) (E : Op) (st : Store) (d : Doc) (h : (runOp p E st).1 = .ok d) :
    d.opType = E.opType ∧ d.name = E.name ∧ d.request.operationName = E.name ∧ d.request.variables = d.values :=
  runOp_name_kind p E st d h

example : ∃ d, (runOp (genPackage { types := [], query := none, mutation := none })
    { opType := "mutation", name := "M", fields := [] } []).1 = .ok d := ⟨_, rfl⟩

/-! ## The generators -/

/-- a type reference as GraphQL allows it: `!` never directly wraps `!` -/
def TRef.wf : TRef → Bool
  | .named _ => true
  | .list t => TRef.wf t
  | .nonNull (.nonNull _) => false
  | .nonNull t => TRef.wf t

/-- `declared_type_exact`: for an argument type without a list wrapper the string the generator records
    (`final.name` + `!` iff non-null) IS the exact GraphQL type. -/
theorem declared_type_exact (t : TRef) (hwf : TRef.wf t = true) (hl : t.hasList = false) :
    typeString t = t.render := by
  cases t with
  | named n => rfl
  | list t => simp [TRef.hasList] at hl
  | nonNull t =>
    cases t with
    | named n => rfl
    | list t => simp [TRef.hasList] at hl
    | nonNull t => simp [TRef.wf] at hwf

/-- … and for list types it never is (F1 is unavoidable for every list-typed argument): the recorded
    string has no bracket. -/
example : typeString (.nonNull (.list (.nonNull (.named "Order")))) = "Order!" ∧
    (TRef.nonNull (.list (.nonNull (.named "Order")))).render = "[Order!]!" := by decide

theorem argSpec_exact (a : ArgDef) (hwf : TRef.wf a.ty = true) (hl : a.ty.hasList = false) :
    (argSpec a).ty = (argSpec a).exactTy := declared_type_exact a.ty hwf hl

/-- class-level objects always carry the GraphQL name (`generate_constant(org_name)`); only classmethods
    are given the python name. -/
theorem fieldAccessor_shared (s : Schema) (t : String) (f : FieldDef)
    (h : (fieldAccessor s t f).kind = .shared) : (fieldAccessor s t f).fieldName = (fieldAccessor s t f).gqlName := by
  unfold fieldAccessor at h ⊢
  simp only []
  split <;> simp_all <;> split <;> simp_all

theorem fieldAccessor_method (s : Schema) (t : String) (f : FieldDef)
    (h : (fieldAccessor s t f).kind = .method) :
    (fieldAccessor s t f).fieldName = f.py ∧ (fieldAccessor s t f).gqlName = f.name := by
  unfold fieldAccessor at h ⊢
  simp only []
  split <;> simp_all <;> split <;> simp_all

theorem rootAccessor_name (s : Schema) (f : FieldDef) :
    (rootAccessor s f).fieldName = f.name ∧ (rootAccessor s f).gqlName = f.name ∧ (rootAccessor s f).kind = .method := by
  simp [rootAccessor]

theorem genPackage_sharedExact (s : Schema) :
    ∀ ca ∈ (genPackage s).sharedList, ca.2.fieldName = ca.2.gqlName := by
  intro ca hca
  unfold Package.sharedList at hca
  obtain ⟨c, hc, hm⟩ := List.mem_flatMap.mp hca
  obtain ⟨a, ha, rfl⟩ := List.mem_map.mp hm
  obtain ⟨ha1, ha2⟩ := List.mem_filter.mp ha
  have hk : a.kind = .shared := by simpa using ha2
  simp only [genPackage, List.mem_append] at hc
  rcases hc with (((hc | hc) | hc) | hc) | hc
  · obtain ⟨t, _, ht⟩ := List.mem_filterMap.mp hc
    split at ht
    · split at ht
      · simp at ht; subst ht
        obtain ⟨f, _, rfl⟩ := List.mem_map.mp ha1
        exact fieldAccessor_shared s t.name f hk
      · simp at ht; subst ht
        obtain ⟨f, _, rfl⟩ := List.mem_map.mp ha1
        exact fieldAccessor_shared s t.name f hk
      · simp at ht
    · simp at ht
  · obtain ⟨t, _, ht⟩ := List.mem_filterMap.mp hc
    split at ht
    · simp at ht
    · split at ht <;> simp at ht <;> subst ht <;> simp at ha1
  · simp at hc; subst hc; simp at ha1
  · split at hc
    · simp at hc
    · simp at hc; subst hc
      obtain ⟨f, _, rfl⟩ := List.mem_map.mp ha1
      simp [rootAccessor] at hk
  · split at hc
    · simp at hc
    · simp at hc; subst hc
      obtain ⟨f, _, rfl⟩ := List.mem_map.mp ha1
      simp [rootAccessor] at hk

/-! ## "Valid against the schema" -/

/-- the Spec validator accepts the document whenever the document, with variables substituted, is a
    well-typed selection on the schema's root type, every variable is used once and the definitions are
    exactly the used variables. -/
theorem valid_against_schema (s : Schema) (d : Doc) (rs : List RSel) (root : String)
    (hroot : rootType s d.opType = some root) (hres : resolveDoc d = some rs)
    (hne : rs.isEmpty = false) (hv : validRSels s root rs = true)
    (hnd : (docVars d).Nodup) (hdefs : d.varDefs.map (·.1) = docVars d) : validDoc s d = true :=
  valid_of_resolved s d rs root hroot hres hne hv hnd hdefs

/-! ## The property -/

/-- What C14 promises for the operation `E` sent after the history `H` (statement of properties.jsonl):
    a document is sent (no exception); with its variables substituted it is what the expression says —
    fields and arguments under their GraphQL names, every non-None argument present with the argument's exact
    GraphQL type and the caller's value, None arguments omitted; every used variable is declared exactly once
    and used once; the document is valid against the schema; and it is the document the same expression
    produces in a fresh process. -/
structure GoodDoc (s : Schema) (H : List Op) (E : Op) (doc : Doc) : Prop where
  sent : (runOps (genPackage s) (H ++ [E])).getLast? = some (.ok doc)
  faithful : resolveDoc doc = Intended (genPackage s) E
  usedOnce : (docVars doc).Nodup
  declaredOnce : doc.varDefs.map (·.1) = docVars doc
  valid : validDoc s doc = true
  historyFree : (runOps (genPackage s) [E]).getLast? = some (.ok doc)

def GoodAfter (s : Schema) (H : List Op) (E : Op) : Prop := ∃ doc, GoodDoc s H E doc

/-- every operation of the history and the operation itself is a well-typed selection written with the
    generated classes -/
def ValidInput (s : Schema) (H : List Op) (E : Op) : Prop :=
  ∀ op ∈ H ++ [E], ValidExpr s (genPackage s) op = true

def C14_full : Prop := ∀ (s : Schema) (H : List Op) (E : Op), ValidInput s H E → GoodAfter s H E

/-- outside every finding trigger (one decidable predicate per OPEN finding of findings.d/C14.json; the
    trigger of the fixed finding F2, `trigDeepList 1 E.fields`, is gone: its region belongs to the theorem) -/
def Supported_14 (s : Schema) (H : List Op) (E : Op) : Prop :=
  ¬ (trigListArgList (genPackage s) E.fields = true            -- F1 listArg
     ∨ trigPyNameList (genPackage s) E.fields = true            -- F3 pyName
     ∨ trigSharedMut H E = true                                 -- F4 sharedMut
     ∨ trigClash ((runOps (genPackage s) (H ++ [E])).getLast?.getD (.error .recursion)) = true)  -- F5 nameClash

/-- `history_free_outside_F4`: HISTORY-FREEDOM on the whole complement of the F4 trigger (history part).  An operation
    that applies no mutator to a class-level object itself and is well-formed sends, after ANY history that never
    applied `alias`/`fields`/`on` to a class-level accessor the operation names, exactly what it sends in a fresh
    process - whatever that history did to OTHER class-level objects (aliases, inline fragments, cycles), whatever
    it raised.  (`history_free` needed a history without any mutator.) -/
theorem history_free_outside_F4 (p : Package) (H : List Op) (E : Op) (hE : opMutatesShared E = false)
    (hI : (Intended p E).isSome = true) (hT : trigSharedMut H E = false) :
    (runOps p (H ++ [E])).getLast? = (runOps p [E]).getLast? :=
  history_free_unmutated p H E hE hI hT

/-- the narrowing still in force: the operation ITSELF applies no mutator to a class-level object.  (Until this
    round the whole history had to be free of such mutators as well; `history_free_outside_F4` removed that: the
    history is now constrained by the F4 trigger alone.)  What is left between `Supported_14` and the theorem:
    operations that apply `alias`/`on` to a class-level accessor which they use exactly once and which no earlier
    operation mutated - covered by correspondence and oracle only. -/
def Proved_14 (E : Op) : Prop := opMutatesShared E = false

/-- `Proved_14` lies inside the complement of the F4 trigger as far as the operation itself is concerned -/
theorem proved_within_supported (E : Op) (h : Proved_14 E) : trigSharedMut [] E = false :=
  trigSharedMut_of_noMut [] E (by simp) h

theorem C14_partial (s : Schema) (H : List Op) (E : Op)
    (hvalid : ValidExpr s (genPackage s) E = true) (hsup : Supported_14 s H E) (hpr : Proved_14 E) :
    GoodAfter s H E := by
  have hI : (Intended (genPackage s) E).isSome = true := by
    unfold ValidExpr at hvalid
    split at hvalid
    · rename_i root rs hroot hint; simp [hint]
    · simp at hvalid
  unfold Supported_14 at hsup
  simp only [not_or, Bool.not_eq_true] at hsup
  obtain ⟨h1, h3, h4, h5⟩ := hsup
  have hfree := history_free_outside_F4 (genPackage s) H E hpr hI h4
  obtain ⟨d, hd⟩ := fresh_never_raises (genPackage s) [] E (by simp) hpr hI
  simp only [List.nil_append] at hd
  rw [hfree, hd] at h5
  simp only [Option.getD_some, trigClash] at h5
  obtain ⟨g1, g2, g3, g4, g5, g6, g7⟩ :=
    op_good (genPackage s) [] E d (genPackage_sharedExact s) (by simp) hpr h1 h3 (by simpa using hd) h5
  refine ⟨d, by rw [hfree, hd], g1, g3, g4, ?_, g7⟩
  unfold ValidExpr at hvalid
  rw [← g5] at hvalid
  split at hvalid
  · rename_i root rs hroot hint
    simp only [Bool.and_eq_true, Bool.not_eq_true'] at hvalid
    exact valid_of_resolved s d rs root hroot (by rw [g1, hint]) hvalid.1 hvalid.2 g3 g4
  · simp at hvalid

/-! ## Witnesses: one schema, one operation per finding (open or fixed) -/

namespace W

def nn (n : String) : TRef := .nonNull (.named n)
def idF : FieldDef := { name := "id", py := "id", opPy := "id", ty := nn "ID", args := [] }

def schema : Schema :=
  { types := [
      { name := "String", kind := .scalar }, { name := "Int", kind := .scalar }, { name := "ID", kind := .scalar },
      { name := "Order", kind := .enum },
      { name := "User", kind := .object, fields := [
          idF,
          { name := "bestFriend", py := "best_friend", opPy := "best_friend", ty := .named "User", args := [] },
          { name := "posts", py := "posts", opPy := "posts", ty := .list (.named "Post"),
            args := [{ name := "tags", py := "tags", ty := .list (nn "String") }] },
          { name := "pet", py := "pet", opPy := "pet", ty := .named "Pet", args := [] }] },
      { name := "Post", kind := .object, fields := [
          idF, { name := "title", py := "title", opPy := "title", ty := .named "String",
                 args := [{ name := "maxLen", py := "max_len", ty := .named "Int" }] }] },
      { name := "Dog", kind := .object, fields := [
          idF, { name := "name", py := "name", opPy := "name", ty := .named "String", args := [] },
          { name := "owner", py := "owner", opPy := "owner", ty := .named "User", args := [] }] },
      { name := "Cat", kind := .object, fields := [
          idF, { name := "name", py := "name", opPy := "name", ty := .named "String", args := [] }] },
      { name := "Pet", kind := .union, members := ["Dog", "Cat"] },
      { name := "Item", kind := .object, fields := [
          idF, { name := "part", py := "part", opPy := "part", ty := .named "String",
                 args := [{ name := "n", py := "n", ty := .named "Int" }] }] },
      { name := "Query", kind := .object, fields := [
          { name := "me", py := "me", opPy := "me", ty := .named "User", args := [] },
          { name := "users", py := "users", opPy := "users", ty := .nonNull (.list (nn "User")),
            args := [{ name := "orderBy", py := "order_by", ty := .nonNull (.list (nn "Order")) },
                     { name := "tags", py := "tags", ty := .list (nn "String") }] },
          { name := "a", py := "a", opPy := "a", ty := .named "Item", args := [] },
          { name := "b", py := "b", opPy := "b", ty := .named "Item",
            args := [{ name := "n_0", py := "n_0", ty := .named "String" }] },
          { name := "search", py := "search", opPy := "search", ty := .named "Pet",
            args := [{ name := "text", py := "text", ty := .named "String" }] }] }],
    query := some "Query", mutation := none }

def uid : Expr := .attr "UserFields" "id"
def me (cs : List Expr) : Expr := .fields (.call "Query" "me" []) cs
def q (name : String) (fs : List Expr) : Op := { opType := "query", name := name, fields := fs }

/-- F1  `Query.users(order_by=["ASC"], tags=["x"]).fields(UserFields.id)` -/
def opF1 : Op := q "Op" [.fields (.call "Query" "users" [("order_by", .arr [.str "ASC"]), ("tags", .arr [.str "x"])]) [uid]]
/-- F2 (fixed)  `Query.me().fields(UserFields.posts().fields(PostFields.title(max_len=3)))` -/
def opF2 : Op := q "Op" [me [.fields (.call "UserFields" "posts" []) [.call "PostFields" "title" [("max_len", .num 3 0)]]]]
/-- F3  `Query.me().fields(UserFields.best_friend().fields(UserFields.id))` -/
def opF3 : Op := q "Op" [me [.fields (.call "UserFields" "best_friend" []) [uid]]]
/-- F4  history `Query.me().fields(UserFields.id.alias("ident"))`, then `Query.me().fields(UserFields.id)` -/
def opF4h : Op := q "Op0" [me [.alias uid "ident"]]
def opF4 : Op := q "Op1" [me [uid]]
/-- F4' `UserFields.pet.on("Dog", DogFields.owner().fields(UserFields.pet.on("Cat", CatFields.name)))`: RecursionError -/
def opF4r : Op := q "Op" [me [.on (.attr "UserFields" "pet") "Dog"
  [.fields (.call "DogFields" "owner" []) [.on (.attr "UserFields" "pet") "Cat" [.attr "CatFields" "name"]]]]]
/-- F5  `Query.a().fields(part(n=1).alias("p"), part(n=2).alias("q")), Query.b(n_0="s").fields(ItemFields.id)` -/
def opF5 : Op := q "Op" [
  .fields (.call "Query" "a" []) [.alias (.call "ItemFields" "part" [("n", .num 1 0)]) "p",
                                  .alias (.call "ItemFields" "part" [("n", .num 2 0)]) "q"],
  .fields (.call "Query" "b" [("n_0", .str "s")]) [.attr "ItemFields" "id"]]

def lastDoc (rs : List (Except Err Doc)) : Option Doc :=
  match rs.getLast? with
  | some (.ok d) => some d
  | _ => none

theorem lastDoc_of {rs : List (Except Err Doc)} {d : Doc} (h : rs.getLast? = some (.ok d)) : lastDoc rs = some d := by
  simp [lastDoc, h]

def sentText (H : List Op) (E : Op) : Option String := (lastDoc (runOps (genPackage schema) (H ++ [E]))).map showDoc
def resolvedText (H : List Op) (E : Op) : Option String :=
  ((lastDoc (runOps (genPackage schema) (H ++ [E]))).bind resolveDoc).map showRSels
def intendedText (E : Op) : Option String := (Intended (genPackage schema) E).map showRSels

/-- from `GoodAfter`: the resolved text of what was sent is the text of what the expression says -/
theorem texts_agree {H : List Op} {E : Op} (g : GoodAfter schema H E) : resolvedText H E = intendedText E := by
  obtain ⟨d, g⟩ := g
  simp only [resolvedText, intendedText, lastDoc_of g.sent, Option.bind_some, g.faithful]

theorem texts_history {H : List Op} {E : Op} (g : GoodAfter schema H E) : sentText H E = sentText [] E := by
  obtain ⟨d, g⟩ := g
  simp only [sentText, lastDoc_of g.sent, List.nil_append, lastDoc_of g.historyFree]

/-- all witness operations are well-typed selections written with the generated classes -/
theorem witnesses_valid : ∀ op ∈ [opF1, opF2, opF3, opF4h, opF4, opF4r, opF5], ValidExpr schema (genPackage schema) op = true := by
  decide

/-- F1: `$orderBy_0: Order!` for `[Order!]!`, `$tags_0: String` for `[String!]` -/
theorem F1_witness : ¬ GoodAfter schema [] opF1 := fun g => absurd (texts_agree g) (by decide)
example : resolvedText [] opF1 = some "users(orderBy: Order! = [\"ASC\",] tags: String = [\"x\",]) { id() } " := by decide
example : intendedText opF1 = some "users(orderBy: [Order!]! = [\"ASC\",] tags: [String!] = [\"x\",]) { id() } " := by decide
example : trigListArgList (genPackage schema) opF1.fields = true := by decide

/-- F2 (FIXED by dfbc7ef): `$maxLen_0`, used at depth 3, is declared and bound now -/
example : sentText [] opF2 = some "query Op($maxLen_0: Int) { me() { posts() { title(maxLen: $maxLen_0) } } } maxLen_0:3e-0," := by decide
example : resolvedText [] opF2 = intendedText opF2 := by decide
/-- the old trigger predicate still recognises the input (the harness uses it to MEASURE how many generated
    operations lie in the region the theorem gained) -/
example : trigDeepList 1 opF2.fields = true := by decide

/-- … whereas the code before the repair sent a document that uses `$maxLen_0` without declaring it:
    it does not even resolve -/
example : (Old.freshDoc (genPackage schema) opF2).map showDoc
    = some "query Op() { me() { posts() { title(maxLen: $maxLen_0) } } } " := by decide

/-- F3: `best_friend` instead of `bestFriend` -/
theorem F3_witness : ¬ GoodAfter schema [] opF3 := fun g => absurd (texts_agree g) (by decide)
example : resolvedText [] opF3 = some "me() { best_friend() { id() } } " := by decide
example : intendedText opF3 = some "me() { bestFriend() { id() } } " := by decide
example : trigPyNameList (genPackage schema) opF3.fields = true := by decide

/-- F4: the alias given to the class-level `UserFields.id` in an earlier operation is still there -/
theorem F4_witness : ¬ GoodAfter schema [opF4h] opF4 := fun g => absurd (texts_history g) (by decide)
example : sentText [opF4h] opF4 = some "query Op1() { me() { ident: id() } } " := by decide
example : sentText [] opF4 = some "query Op1() { me() { id() } } " := by decide
example : trigSharedMut [opF4h] opF4 = true := by decide

/-- F4': nesting the class-level union accessor inside itself: `to_ast` never returns (RecursionError) -/
theorem F4r_witness : ¬ GoodAfter schema [] opF4r := fun ⟨d, g⟩ => by
  have h := lastDoc_of g.sent
  have hn : lastDoc (runOps (genPackage schema) ([] ++ [opF4r])) = none := by decide
  rw [hn] at h
  simp at h
example : trigSharedMut [] opF4r = true := by decide

/-- F5: `n_0_1` is both the second `n` of field 0 and the `n_0` of field 1: declared once (String), bound once ("s") -/
theorem F5_witness : ¬ GoodAfter schema [] opF5 := fun g => absurd (texts_agree g) (by decide)
example : sentText [] opF5 = some
    "query Op($n_0: Int $n_0_1: String) { a() { p: part(n: $n_0) q: part(n: $n_0_1) } b(n_0: $n_0_1) { id() } } n_0:1e-0,n_0_1:\"s\"," := by
  decide
example : trigClash ((runOps (genPackage schema) [opF5]).getLast?.getD (.error .recursion)) = true := by decide

end W

theorem C14_full_false : ¬ C14_full := by
  intro h
  refine W.F1_witness (h W.schema [] W.opF1 ?_)
  intro op hop
  simp only [List.nil_append, List.mem_singleton] at hop
  subst hop
  exact W.witnesses_valid _ (by simp)

/-- each open finding refutes the property on its own -/
theorem C14_full_false_each :
    (ValidInput W.schema [] W.opF1 ∧ ¬ GoodAfter W.schema [] W.opF1) ∧
    (ValidInput W.schema [] W.opF3 ∧ ¬ GoodAfter W.schema [] W.opF3) ∧
    (ValidInput W.schema [W.opF4h] W.opF4 ∧ ¬ GoodAfter W.schema [W.opF4h] W.opF4) ∧
    (ValidInput W.schema [] W.opF4r ∧ ¬ GoodAfter W.schema [] W.opF4r) ∧
    (ValidInput W.schema [] W.opF5 ∧ ¬ GoodAfter W.schema [] W.opF5) := by
  have v := W.witnesses_valid
  refine ⟨⟨?_, W.F1_witness⟩, ⟨?_, W.F3_witness⟩, ⟨?_, W.F4_witness⟩, ⟨?_, W.F4r_witness⟩, ⟨?_, W.F5_witness⟩⟩
  all_goals
    intro op hop
    simp only [List.nil_append, List.cons_append, List.mem_cons, List.mem_singleton, List.not_mem_nil, or_false] at hop
    rcases hop with rfl | rfl <;> exact v _ (by simp)

/-! ## Regression theorems for the fixed finding F2 -/

/-- the old F2 witness (`Query.me().fields(UserFields.posts().fields(PostFields.title(max_len=3)))`, an argument
    at depth 3) now satisfies the property at full strength: it lies inside the region of `C14_partial` -/
theorem C14_F2_witness_now_ok : ValidInput W.schema [] W.opF2 ∧ GoodAfter W.schema [] W.opF2 := by
  refine ⟨?_, C14_partial W.schema [] W.opF2 (by decide) (by unfold Supported_14; decide) (by unfold Proved_14; decide)⟩
  intro op hop
  simp only [List.nil_append, List.mem_singleton] at hop
  subst hop
  exact W.witnesses_valid _ (by simp)

/-- the behaviour before dfbc7ef (`Proofs/C14Old.lean`: the recursive result of `get_formatted_variables`
    discarded) violates the property on that witness: the document it sends uses a variable that is neither
    declared nor bound, so it cannot be resolved to what the expression says.  A re-introduction of the defect
    therefore cannot go unnoticed by the correspondence (the model no longer produces this document). -/
theorem C14_F2_old_behaviour_violates :
    ∃ d, Old.freshDoc (genPackage W.schema) W.opF2 = some d ∧ (resolveDoc d).isNone = true ∧
      (Intended (genPackage W.schema) W.opF2).isSome = true ∧ "maxLen_0" ∈ docVars d ∧ d.varDefs = [] := by
  refine ⟨_, rfl, by decide, by decide, by decide, by decide⟩

/-! ## Non-vacuity of `C14_partial`: a non-trivial operation satisfying every hypothesis -/

namespace W
/-- `Query.me().fields(UserFields.id, UserFields.posts(tags=None).alias("p").fields(PostFields.id))`,
    `Query.b(n_0="s").alias("other").fields(ItemFields.part(n=1))`  after an unrelated earlier operation -/
def opOK : Op := q "Op" [
  me [uid, .fields (.alias (.call "UserFields" "posts" [("tags", .null)]) "p") [.attr "PostFields" "id"]],
  .fields (.alias (.call "Query" "b" [("n_0", .str "s")]) "other") [.call "ItemFields" "part" [("n", .num 1 0)]]]
def opHist : Op := q "Op0" [me [uid]]
/-- `Query.me().fields(UserFields.posts(tags=None).alias("p").fields(PostFields.id))`, `Query.b(n_0="s").fields(ItemFields.part(n=1))` -/
def opOK2 : Op := q "Op" [
  me [.fields (.alias (.call "UserFields" "posts" [("tags", .null)]) "p") [.attr "PostFields" "id"]],
  .fields (.call "Query" "b" [("n_0", .str "s")]) [.call "ItemFields" "part" [("n", .num 1 0)]]]
/-- inside the region gained by the repair: arguments at levels 3 and 4, below an inline fragment of a fresh
    union-typed object: `Query.search(text="a").on("Dog", DogFields.owner().fields(UserFields.posts()
    .fields(PostFields.title(max_len=3)), UserFields.id)).on("Cat", CatFields.name)`, `Query.me().fields(…title(max_len=4)…)` -/
def opDeep : Op := q "Op" [
  .on (.on (.call "Query" "search" [("text", .str "a")]) "Dog"
    [.fields (.call "DogFields" "owner" [])
      [.fields (.call "UserFields" "posts" []) [.call "PostFields" "title" [("max_len", .num 3 0)]], uid]])
    "Cat" [.attr "CatFields" "name"],
  me [.fields (.call "UserFields" "posts" []) [.alias (.call "PostFields" "title" [("max_len", .num 4 0)]) "t"]]]
end W

example : ValidExpr W.schema (genPackage W.schema) W.opOK = true := by decide
example : Supported_14 W.schema [W.opHist] W.opOK := by unfold Supported_14; decide
example : Proved_14 W.opOK := by unfold Proved_14; decide
example : W.sentText [W.opHist] W.opOK = some
    "query Op($n_0_1: String $n_1: Int) { me() { id() p: posts() { id() } } other: b(n_0: $n_0_1) { part(n: $n_1) } } n_0_1:\"s\",n_1:1e-0," := by
  decide
/-- … so `C14_partial` applies to it: -/
example : GoodAfter W.schema [W.opHist] W.opOK :=
  C14_partial W.schema [W.opHist] W.opOK (by decide) (by unfold Supported_14; decide) (by unfold Proved_14; decide)

/-- … and to an operation of the region the repair added (arguments at depth 3 and 4, inline fragments): -/
example : trigDeepList 1 W.opDeep.fields = true := by decide
example : W.sentText [W.opHist] W.opDeep = some
    "query Op($text_0: String $maxLen_0: Int $maxLen_1: Int) { search(text: $text_0) { ... on Dog { owner() { posts() { title(maxLen: $maxLen_0) } id() } } ... on Cat { name() } } me() { posts() { t: title(maxLen: $maxLen_1) } } } text_0:\"a\",maxLen_0:3e-0,maxLen_1:4e-0," := by
  decide
example : GoodAfter W.schema [W.opHist] W.opDeep :=
  C14_partial W.schema [W.opHist] W.opDeep (by decide) (by unfold Supported_14; decide) (by unfold Proved_14; decide)

/-- … and after a history that DID mutate class-level objects - `UserFields.id.alias("ident")`, and the union accessor
    `UserFields.pet` nested inside itself (RecursionError) - none of which the operation names (it uses
    `PostFields.id`, `ItemFields.part`): the region `history_free_outside_F4` added to the theorem -/
example : opMutatesShared W.opF4h = true ∧ opMutatesShared W.opF4r = true := by decide
example : Supported_14 W.schema [W.opF4h, W.opF4r] W.opOK2 := by unfold Supported_14; decide
example : GoodAfter W.schema [W.opF4h, W.opF4r] W.opOK2 :=
  C14_partial W.schema [W.opF4h, W.opF4r] W.opOK2 (by decide) (by unfold Supported_14; decide) (by unfold Proved_14; decide)

/-! ## Objects kept in python variables (Model/BuilderLet.lean, Spec/BuilderLetDoc.lean)

An object returned by a classmethod may be assigned to a variable and used again: it is then allocated in the
store, rendered once per use, and carries `formatted_variables` from one rendering to the next.
`eraseL` / `eraseN` (Proofs/C14Owned.lean) forget `formatted` in every object of a store / a node; two stores
with `eraseL st1 = eraseL st2` are two processes that agree up to `formatted_variables`. -/

/-- `rendering_changes_only_formatted`: one client call (`to_ast` of every argument, `get_formatted_variables`)
    changes nothing in the process but `formatted_variables` - whatever the store, whatever the arguments. -/
theorem rendering_changes_only_formatted (ty nm : String) (st : Store) (nodes : List Node) (d : Doc) (st' : Store)
    (h : execOp ty nm st nodes = .ok (d, st')) : eraseL st' = eraseL st := execOp_erase h

/-- `rerender_formatted_irrelevant`: one client call never READS the `formatted_variables` it finds
    (`_collect_all_variables` starts from `{}`; `get_formatted_variables` only visits objects the same call has
    just rendered).  Two processes / argument lists that agree up to `formatted` raise the same exception or send
    the SAME document (selections, definitions, values), and agree again up to `formatted` afterwards.
    Every store, every list of argument objects (shared, owned, cyclic ...), no bound. -/
theorem rerender_formatted_irrelevant (ty nm : String) (st1 st2 : Store) (ns1 ns2 : List Node)
    (hs : eraseL st1 = eraseL st2) (hn : eraseL ns1 = eraseL ns2) :
    (∃ e, execOp ty nm st1 ns1 = .error e ∧ execOp ty nm st2 ns2 = .error e) ∨
    (∃ d t1 t2, execOp ty nm st1 ns1 = .ok (d, t1) ∧ execOp ty nm st2 ns2 = .ok (d, t2) ∧ eraseL t1 = eraseL t2) :=
  execOp_formatted_irrelevant ty nm hs hn

namespace W
/-- `ItemFields.part(n=1)` as it sits in the store after having been rendered under top-level field 7 -/
def stalePart : Node :=
  .obj { cls := "ItemFields", fieldName := "part", vars := [{ key := "n", ty := "Int", value := .num 1 0 }],
         formatted := [{ uname := "n_7", key := "n", ty := "Int", value := .num 1 0 }] } [] []
def freshPart : Node :=
  .obj { cls := "ItemFields", fieldName := "part", vars := [{ key := "n", ty := "Int", value := .num 1 0 }] } [] []
def useZero : List Node := [.obj { cls := "ItemFields", fieldName := "a" } [.ref 0] []]
end W

/-- non-vacuity: a stale `$n_7` in the object does not show in the document -/
example : eraseL [W.stalePart] = eraseL [W.freshPart] := rfl
example : (match execOp "query" "Op" [W.stalePart] W.useZero with | .ok (d, _) => some (showDoc d) | .error _ => none)
    = some "query Op($n_0: Int) { a() { part(n: $n_0) } } n_0:1e-0," := by decide
example : (match execOp "query" "Op" [W.freshPart] W.useZero with | .ok (d, _) => some (showDoc d) | .error _ => none)
    = some "query Op($n_0: Int) { a() { part(n: $n_0) } } n_0:1e-0," := by decide

/-- `history_free_owned`: HISTORY-FREEDOM for programs with variables.  Whatever the earlier operations of the
    process SENT - re-using objects kept in variables at any position, any number of times -, as long as the
    ARGUMENTS of those client calls apply no `alias`/`fields`/`on` to an object that outlives the call (a class-level
    object or a variable; assignments may do what they like), the last operation gives exactly what it gives in a
    process that executed only the ASSIGNMENTS of the history and sent nothing.  Every package, every history, every
    operation; exceptions included. -/
theorem history_free_owned (p : Package) (H : List POp) (E : POp)
    (hH : ∀ op ∈ H, pMutatesList op.fields = false) :
    (runProg p (H ++ [E])).getLast? =
      some (runPOp p E (letsOnlyFrom p H [] p.initStore).1 (letsOnlyFrom p H [] p.initStore).2).1 :=
  runProgFrom_last p E H [] p.initStore p.initStore rfl hH

/-- … hence two histories with the same assignments are indistinguishable, whatever they sent -/
theorem history_free_owned_calls (p : Package) (H1 H2 : List POp) (E : POp)
    (h1 : ∀ op ∈ H1, pMutatesList op.fields = false) (h2 : ∀ op ∈ H2, pMutatesList op.fields = false)
    (hl : H1.map (·.lets) = H2.map (·.lets)) :
    (runProg p (H1 ++ [E])).getLast? = (runProg p (H2 ++ [E])).getLast? := by
  rw [history_free_owned p H1 E h1, history_free_owned p H2 E h2, letsOnlyFrom_congr p H1 H2 hl]

namespace W
def partCall : PExpr := .call "ItemFields" "part" [("n", .num 1 0)]
def pq (lets : List (String × PExpr)) (name : String) (fs : List PExpr) : POp :=
  { lets := lets, opType := "query", name := name, fields := fs }
/-- `part = ItemFields.part(n=1); client.query(Query.me().fields(UserFields.id), Query.a().fields(part))` ($n_1) -/
def popH : POp := pq [("part", partCall)] "Op0"
  [.fields (.call "Query" "me" []) [.attr "UserFields" "id"], .fields (.call "Query" "a" []) [.var "part"]]
/-- the same assignment, nothing rendered before: `client.query(Query.me().fields(UserFields.id))` -/
def popH' : POp := pq [("part", partCall)] "Op0" [.fields (.call "Query" "me" []) [.attr "UserFields" "id"]]
/-- `client.query(Query.a().fields(part))`: the same OBJECT, now under top-level field 0 ($n_0) -/
def popE : POp := pq [] "Op1" [.fields (.call "Query" "a" []) [.var "part"]]
def progText (P : List POp) : Option String := (lastDoc (runProg (genPackage schema) P)).map showDoc
/-- `part = ItemFields.part(n=1); client.query(Query.a().fields(part.alias("z")))` -/
def popMut : POp := pq [("part", partCall)] "Op0" [.fields (.call "Query" "a" []) [.alias (.var "part") "z"]]
/-- `part = ItemFields.part(n=1); z = part.alias("z"); client.query(Query.a().fields(part))` -/
def popLetMut : POp := pq [("part", partCall), ("z", .alias (.var "part") "z")] "Op0"
  [.fields (.call "Query" "a" []) [.var "part"]]
end W

/-- non-vacuity of `history_free_owned`: an object with an argument rendered as `$n_1` in the history, as `$n_0` after -/
example : ∀ op ∈ [W.popH], pMutatesList op.fields = false := by decide
example : W.progText [W.popH] = some
    "query Op0($n_1: Int) { me() { id() } a() { part(n: $n_1) } } n_1:1e-0," := by decide
example : W.progText ([W.popH] ++ [W.popE]) = some "query Op1($n_0: Int) { a() { part(n: $n_0) } } n_0:1e-0," := by decide
example : (runProg (genPackage W.schema) ([W.popH] ++ [W.popE])).getLast? =
    (runProg (genPackage W.schema) ([W.popH'] ++ [W.popE])).getLast? :=
  history_free_owned_calls _ _ _ _ (by decide) (by decide) rfl

/-- the hypothesis of `history_free_owned` is needed, and it is the only thing that is: a mutator applied through a
    variable INSIDE THE ARGUMENTS of a client call (`client.query(Query.a().fields(part.alias("z")))`) stays on the
    object, as on any python object; two histories with the same assignments then differ for the next operation.
    (Not a finding: the caller mutated an object it holds.  The same mutator written in an ASSIGNMENT -
    `part = ItemFields.part(n=1).alias("z")` - is covered by the theorem.) -/
example : pMutatesList W.popMut.fields = true ∧ W.popMut.lets = W.popH'.lets := ⟨by decide, rfl⟩
example : W.progText ([W.popMut] ++ [W.popE]) = some "query Op1($n_0: Int) { a() { z: part(n: $n_0) } } n_0:1e-0," := by decide
example : W.progText ([W.popH'] ++ [W.popE]) = some "query Op1($n_0: Int) { a() { part(n: $n_0) } } n_0:1e-0," := by decide
/-- … whereas in an assignment it is part of what the theorem keeps: -/
example : ∀ op ∈ [W.popLetMut], pMutatesList op.fields = false := by decide
example : W.progText ([W.popLetMut] ++ [W.popE]) = some "query Op1($n_0: Int) { a() { z: part(n: $n_0) } } n_0:1e-0," := by decide

/-- `runProg_conservative`: on programs without variables the model with variables IS the tree model
    (`Expr.toP` / `Op.toP`: a tree expression read as a program) -/
theorem runProg_conservative (p : Package) (ops : List Op) : runProg p (ops.map Op.toP) = runOps p ops :=
  runProgFrom_toP p ops [] p.initStore

/-- What C14 promises for the LAST operation of a program with variables, `E` being that operation written out with
    fresh objects (`inlineProg`): the program sends a document, and that document is good for `E` in a fresh process -
    in particular it IS the document `E` sends there ("depends only on the expression that built it"). -/
def GoodProg (s : Schema) (P : List POp) (E : Op) : Prop :=
  ∃ doc, (runProg (genPackage s) P).getLast? = some (.ok doc) ∧ GoodDoc s [] E doc

/-- the property for programs that keep objects in variables and use them again UNCHANGED (no `alias`/`fields`/`on`
    applied to a class-level object - that is F4, `C14_full` - or through a variable), every written-out operation
    being a well-typed selection -/
def C14_owned_full : Prop :=
  ∀ (s : Schema) (P : List POp) (ops : List Op) (E : Op),
    inlineProg P = some ops → ops.getLast? = some E →
    (∀ op ∈ ops, ValidExpr s (genPackage s) op = true) → (∀ op ∈ P, op.mutates = false) → GoodProg s P E

namespace W
/-- F6  `part = ItemFields.part(n=1); client.query(Query.a().alias("x").fields(part), Query.a().alias("y").fields(part))` -/
def progF6 : List POp := [pq [("part", partCall)] "Op"
  [.fields (.alias (.call "Query" "a" []) "x") [.var "part"], .fields (.alias (.call "Query" "a" []) "y") [.var "part"]]]
/-- … written out -/
def opF6 : Op := q "Op" [
  .fields (.alias (.call "Query" "a" []) "x") [.call "ItemFields" "part" [("n", .num 1 0)]],
  .fields (.alias (.call "Query" "a" []) "y") [.call "ItemFields" "part" [("n", .num 1 0)]]]
end W

example : inlineProg W.progF6 = some [W.opF6] := rfl
example : ValidExpr W.schema (genPackage W.schema) W.opF6 = true := by decide
example : ∀ op ∈ W.progF6, op.mutates = false := by decide
example : ∀ op ∈ W.progF6, trigOwnedReuse [] op = true := by decide

/-- `owned_reuse_in_one_operation_undeclared` (finding C14-F6): the object of a variable, carrying an argument, used
    twice in ONE operation is rendered twice (`$n_0`, `$n_1`) but remembers only its last rendering: `$n_0` is used
    and neither declared nor sent - the document cannot be resolved (and is invalid: NoUndefinedVariables), whereas
    the written-out expression declares both. -/
theorem owned_reuse_in_one_operation_undeclared :
    ∃ d, (runProg (genPackage W.schema) W.progF6).getLast? = some (.ok d) ∧
      docVars d = ["n_0", "n_1"] ∧ d.varDefs = [("n_1", "Int")] ∧ (resolveDoc d).isNone = true ∧
      validDoc W.schema d = false ∧
      W.sentText [] W.opF6 = some
        "query Op($n_0: Int $n_1: Int) { x: a() { part(n: $n_0) } y: a() { part(n: $n_1) } } n_0:1e-0,n_1:1e-0," := by
  refine ⟨_, rfl, by decide, by decide, by decide, by decide, by decide⟩

example : W.progText W.progF6 = some
    "query Op($n_1: Int) { x: a() { part(n: $n_0) } y: a() { part(n: $n_1) } } n_1:1e-0," := by decide

theorem C14_owned_full_false : ¬ C14_owned_full := by
  intro h
  obtain ⟨doc, hsent, g⟩ := h W.schema W.progF6 [W.opF6] W.opF6 rfl rfl (by decide) (by decide)
  have h1 : W.progText W.progF6 = some (showDoc doc) := by simp only [W.progText, W.lastDoc_of hsent, Option.map_some]
  have h2 : W.sentText [] W.opF6 = some (showDoc doc) := by
    simp only [W.sentText, List.nil_append, W.lastDoc_of g.historyFree, Option.map_some]
  have h3 : W.progText W.progF6 = W.sentText [] W.opF6 := h1.trans h2.symm
  exact absurd h3 (by decide)

end Ariadne.C14
