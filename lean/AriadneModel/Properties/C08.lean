/-
  C08 — Fragments and mixins are honoured as reusable base types.

  "Whenever a selection set directly spreads a named fragment that has no inline fragments and is defined on
   exactly the type that selection set is evaluated for, the object returned for it is an instance of the class
   generated for the fragment, that class alone validates the same payload, and it exists in the fragments module
   no matter how other operations use the same fragment.  Fragment classes are defined before their dependants
   whatever the definition order in the queries file, so the module always loads.  Every class named by a
   @mixin(from:, import:) directive on a field or fragment definition is imported and appears as an additional
   base of exactly the class generated for that field or fragment."

  Models: Model/ResultTypes.lean (`resolve` = `_resolve_selection_set`, `unpackFragment`, `parseTypeDefinition`,
  `parseFieldSelectionSetTypes`, `mixinBases`, `generate`), Model/Fragments.lean (`addOperations`,
  `generateFragments`, `fragmentsModule`, the two finding triggers), Model/Order.lean (the topological sort, with
  the enumeration oracle `e` for CPython's set iteration), Spec/Py.lean (subclass closure, load order, C3
  linearisation; validated against CPython, not verified).

  Result on the pinned tree: the full statement is FALSE (`C08_full_false`):
    * C08-F1 a fragment that some operation unpacks is excluded from the fragments module for everybody, also
      for the classes that inherit from it (`fragment_always_emitted_false`);
    * C08-F3 the fragment bases are written in alphabetical order, which CPython cannot linearise when one of
      them derives from another that sorts earlier (`modules_always_load_false`).
    * C08-F4 at an interface position that also gets sub-type classes only the interface class inherits from a
      fragment the selection set spreads; the sub-type classes unpack it (`siblings_inherit_alike_false`).
  Outside those three decidable triggers the package-level clauses hold (`C08_partial`).  The clauses about a single
  class — the mixin criterion, the exact extra bases from @mixin, the order of the fragments module — hold
  unconditionally, for every fuel, state, history and enumeration oracle.

  Section 1c states WHICH fragments a class inherits from, exactly, for every selection set and type: the relation
  `Inherits` (Proofs/C08Inherits.lean: a kept direct spread; through a fragment that is unpacked and applies to the type;
  through an inline fragment that `_get_inline_fragment_root_type` accepts — the type itself, or an interface the OBJECT
  type implements, and then the selections are evaluated for the INTERFACE) is what `_resolve_selection_set` returns
  (`resolve_fragments_exact`, sound and complete, each name once), and the bases of every class are exactly those
  fragments' classes in strictly increasing order of the fragment names, or `BaseModel`, followed by exactly the
  `@mixin` bases (`class_bases_exact`).  `mixin_criterion_inline` / `interface_fragment_inside_inline_is_a_base` are the
  mixin criterion for spreads written inside inline fragments; `inline_fragment_root_type_cases` is
  `_get_inline_fragment_root_type` case by case.

  Not covered here (evidence: oracle-only): "that class alone validates the same payload" needs the pydantic
  reference semantics of C01 (`fragment_class_validates`, should-tier); it is judged on the real packages.
-/
import AriadneModel.Proofs.C08Package
import AriadneModel.Proofs.C08NoKeyError
import AriadneModel.Proofs.C08Acyclic
import AriadneModel.Proofs.C08Inherits
import AriadneModel.Proofs.OpText

set_option linter.unusedVariables false

namespace Ariadne.C08
open Ariadne Ariadne.Gql Ariadne.Util Ariadne.ResultTypes Ariadne.Fragments Ariadne.Spec.Py

/-! ## 1. The mixin criterion -/

/-- the spread the property speaks about: the fragment is defined, has no inline fragment among its top-level
    selections, and is defined on exactly the type `T` the selection set is evaluated for, which is no union -/
structure Qualifies (env : Env) (f : Fragment) (T : String) : Prop where
  defined : findFragment? env.frags f.name = some f
  onT : f.on = T
  notUnion : (env.schema.kindOf? f.on == some .union) = false
  noInline : (f.sel.any fun s => match s with | .inline .. => true | _ => false) = false

theorem Qualifies.not_unpacked {env : Env} {f : Fragment} {T : String} (q : Qualifies env f T) :
    unpackFragment env f (some T) = false := by
  unfold unpackFragment
  rw [q.notUnion]
  simp only [Bool.false_or, Bool.or_eq_false_iff]
  constructor
  · simp [q.onT]
  · rw [List.any_eq_false]
    intro s hs
    have := List.any_eq_false.mp q.noInline s hs
    cases s <;> simp_all

/-- (must) **mixin criterion on `_resolve_selection_set`**: a qualifying direct spread is returned among the
    fragments to inherit from and recorded in `_fragments_used_as_mixins` — any fuel, any state. -/
theorem mixin_criterion_resolve (env : Env) (fuel : Nat) (sel : List Selection) (T : String) (st : St) (r : Acc) (st' : St)
    (f : Fragment) (dirs : List Directive) (q : Qualifies env f T) (hmem : Selection.spread f.name dirs ∈ sel)
    (h : resolve env fuel sel T st = .ok (r, st')) : f.name ∈ r.2 ∧ f.name ∈ st'.mixins :=
  resolve_spread_mem env fuel sel T st r st' f.name dirs f hmem q.defined q.not_unpacked h

/-- (must) **mixin criterion**: whenever a class is generated for a selection set `sel` evaluated for type `T`
    (`_parse_type_definition(class_name, T, sel, …)`, the only producer of classes) and `sel` directly spreads a
    qualifying fragment `F`, the class has `pascal F` among its bases, hence is a subclass of it
    (`Spec.Py.IsSubclass`) in every module that holds this class statement. -/
theorem mixin_criterion (env : Env) (fuel : Nat) (cn T : String) (sid : Nat) (sel : List Selection) (a : Bool)
    (eb tv : List String) (st : St) (cs : List ClassDecl) (st' : St)
    (f : Fragment) (dirs : List Directive) (q : Qualifies env f T) (hmem : Selection.spread f.name dirs ∈ sel)
    (hfresh : st.publicNames.contains cn = false)
    (h : parseTypeDefinition env fuel cn T sid sel a eb tv st = .ok (cs, st')) :
    ∃ c rest, cs = c :: rest ∧ c.name = cn ∧ pascal f.name ∈ c.bases ∧
      ∀ t : ClassTable, basesOf t cn = some c.bases → IsSubclass t cn (pascal f.name) := by
  obtain ⟨x, st1, resolved, acc, fuel', _, hres, _, hcs, _⟩ := parseTypeDefinition_unfold _ _ _ _ _ _ _ _ _ _ _ _ h hfresh
  have hm := (resolve_spread_mem env fuel sel T _ x st1 f.name dirs f hmem q.defined q.not_unpacked hres).1
  refine ⟨_, _, hcs, rfl, pascal_mem_classBases hm, fun t ht => IsSubclass.of_base ht (pascal_mem_classBases hm)⟩

/-- the criterion for the root class of an operation / of a fragment definition -/
theorem mixin_criterion_operation (env : Env) (fuel : Nat) (o : Operation) (marks : List Nat) (out : ModuleOut)
    (T : String) (hT : operationTypeName env (.op o) = .ok T)
    (f : Fragment) (dirs : List Directive) (q : Qualifies env f T) (hmem : Selection.spread f.name dirs ∈ o.sel)
    (h : generate env fuel (.op o) marks = .ok out) :
    ∃ c rest, out.classes = c :: rest ∧ pascal f.name ∈ c.bases ∧ f.name ∈ out.st.mixins := by
  obtain ⟨cs, st, hr, hc, hs⟩ := generate_ok env fuel _ marks out h
  obtain ⟨n, tn, _, htn, hp⟩ := genRun_op env fuel o _ cs st hr
  rw [hT] at htn
  injection htn with htn
  subst htn
  obtain ⟨x, st1, fields, rest, hres, hcs, hmix, _⟩ := root_class env fuel _ _ _ _ _ marks cs st hp
  have hm := (resolve_spread_mem env fuel o.sel T _ x st1 f.name dirs f hmem q.defined q.not_unpacked hres).1
  exact ⟨_, rest, by rw [hc, hcs], pascal_mem_classBases hm, by rw [hs]; exact hmix _ hm⟩

theorem mixin_criterion_fragment (env : Env) (fuel : Nat) (g : Fragment) (marks : List Nat) (out : ModuleOut)
    (hg : unpackFragment env g none = false)
    (f : Fragment) (dirs : List Directive) (q : Qualifies env f g.on) (hmem : Selection.spread f.name dirs ∈ g.sel)
    (h : generate env fuel (.frag g) marks = .ok out) :
    ∃ c rest, out.classes = c :: rest ∧ c.name = pascal g.name ∧ pascal f.name ∈ c.bases ∧ f.name ∈ out.st.mixins := by
  obtain ⟨cs, st, hr, hc, hs⟩ := generate_ok env fuel _ marks out h
  have hp := genRun_frag env fuel g _ cs st hr hg
  obtain ⟨x, st1, fields, rest, hres, hcs, hmix, _⟩ := root_class env fuel _ _ _ _ _ marks cs st hp
  have hm := (resolve_spread_mem env fuel g.sel g.on _ x st1 f.name dirs f hmem q.defined q.not_unpacked hres).1
  exact ⟨_, rest, by rw [hc, hcs], rfl, pascal_mem_classBases hm, by rw [hs]; exact hmix _ hm⟩

/-- only fragments that get a class of their own in the fragments module are ever inherited, and every base of every
    class a generator emits is `BaseModel`, the class of such a fragment, or an imported `@mixin` class -/
theorem inherited_fragments_have_a_class (env : Env) (fuel : Nat) (d : Definition) (marks : List Nat) (out : ModuleOut)
    (h : generate env fuel d marks = .ok out) :
    (∀ n ∈ out.st.mixins, ∃ f, findFragment? env.frags n = some f ∧ unpackFragment env f none = false) ∧
    (∀ c ∈ out.classes, ∀ b ∈ c.bases,
      b = "BaseModel" ∨ (∃ n ∈ out.st.mixins, b = pascal n) ∨ (∃ p ∈ out.st.mixinImports, b = p.2)) :=
  generate_spec env fuel d marks out h

/-! ## 1b. The decision looks at the fragment's own top-level selections only

  "a named fragment that has no inline fragments": `_unpack_fragment` inspects the selections written directly in the
  fragment definition.  What the fragment SPREADS (other named fragments, which may contain inline fragments at any
  depth — "carriers") plays no part: a fragment that merely re-uses a carrier stays a base class, the carrier is
  unpacked into it.  (A change that lets the decision follow spreads, e.g. by re-using
  `get_inline_fragments_from_selection_set`, contradicts every theorem of this section.) -/

/-- is this selection an inline fragment? -/
def isInlineSel : Selection → Bool
  | .inline .. => true
  | _ => false

theorem unpackFragment_eq (env : Env) (f : Fragment) (root : Option String) :
    unpackFragment env f root =
      ((env.schema.kindOf? f.on == some .union) || (match root with | some r => f.on != r | none => false)
        || f.sel.any isInlineSel) := by
  unfold unpackFragment
  congr 1

/-- (must) **the unpack decision is a function of the fragment's type condition, the kind of that type, the root type
    and the KINDS of the fragment's top-level selections** — for every two fragment tables (whatever the spread
    fragments contain, wherever they are defined) and every two fragments that agree on those. -/
theorem unpack_decision_top_level_only (env env' : Env) (f f' : Fragment) (root : Option String)
    (hs : env.schema = env'.schema) (hon : f.on = f'.on)
    (hk : f.sel.map isInlineSel = f'.sel.map isInlineSel) :
    unpackFragment env f root = unpackFragment env' f' root := by
  rw [unpackFragment_eq, unpackFragment_eq, hs, hon]
  have h : ∀ l : List Selection, l.any isInlineSel = (l.map isInlineSel).any id := by
    intro l
    induction l with
    | nil => rfl
    | cons a l ih => rw [List.map_cons, List.any_cons, List.any_cons, ih]; rfl
  rw [h f.sel, h f'.sel, hk]

/-- in particular the fragment table is irrelevant: replacing the definitions of the fragments a fragment spreads
    (by ones with inline fragments, say) never changes whether it is unpacked -/
theorem unpack_ignores_fragment_table (schema : Schema) (frags frags' : List Fragment) (f : Fragment) (root : Option String) :
    unpackFragment { schema := schema, frags := frags } f root = unpackFragment { schema := schema, frags := frags' } f root :=
  unpack_decision_top_level_only _ _ f f root rfl rfl rfl

/-- (must) a defined fragment on a non-union type whose top-level selections are fields and spreads — of ANY
    fragments — qualifies as a base class for its own type -/
theorem qualifies_whatever_it_spreads (env : Env) (f : Fragment)
    (hdef : findFragment? env.frags f.name = some f)
    (hnu : (env.schema.kindOf? f.on == some .union) = false)
    (htop : ∀ s ∈ f.sel, (∃ a n d i sub, s = .field a n d i sub) ∨ (∃ n d, s = .spread n d)) :
    Qualifies env f f.on := by
  refine ⟨hdef, rfl, hnu, ?_⟩
  rw [List.any_eq_false]
  intro s hs
  rcases htop s hs with ⟨a, n, d, i, sub, rfl⟩ | ⟨n, d, rfl⟩ <;> simp

/-- (must) **a base that spreads a carrier stays a base**: `f` (fields and spreads at its top level, defined on the
    non-union type `T`) spreads `g`, and `g` contains inline fragments; a class generated for a selection set that is
    evaluated for `T` and directly spreads `f` still has `pascal f` among its bases, hence is a subclass of it. -/
theorem base_spreading_a_carrier_stays_a_base (env : Env) (fuel : Nat) (cn T : String) (sid : Nat) (sel : List Selection)
    (a : Bool) (eb tv : List String) (st : St) (cs : List ClassDecl) (st' : St)
    (f g : Fragment) (dirs gdirs : List Directive)
    (hdef : findFragment? env.frags f.name = some f) (hon : f.on = T)
    (hnu : (env.schema.kindOf? f.on == some .union) = false)
    (htop : ∀ s ∈ f.sel, (∃ a n d i sub, s = .field a n d i sub) ∨ (∃ n d, s = .spread n d))
    (hspreads : Selection.spread g.name gdirs ∈ f.sel) (hcarrier : g.sel.any isInlineSel = true)
    (hmem : Selection.spread f.name dirs ∈ sel)
    (hfresh : st.publicNames.contains cn = false)
    (h : parseTypeDefinition env fuel cn T sid sel a eb tv st = .ok (cs, st')) :
    ∃ c rest, cs = c :: rest ∧ c.name = cn ∧ pascal f.name ∈ c.bases ∧
      ∀ t : ClassTable, basesOf t cn = some c.bases → IsSubclass t cn (pascal f.name) :=
  mixin_criterion env fuel cn T sid sel a eb tv st cs st' f dirs
    (hon ▸ qualifies_whatever_it_spreads env f hdef hnu htop) hmem hfresh h

/-- (must) **a carrier is unpacked whatever the root type** (also when it is defined on exactly that type) … -/
theorem carrier_always_unpacked (env : Env) (g : Fragment) (root : Option String) (hc : g.sel.any isInlineSel = true) :
    unpackFragment env g root = true := by
  rw [unpackFragment_eq, hc, Bool.or_true]

/-- … so no generator ever inherits from it: a defined fragment with an inline fragment among its top-level
    selections is never recorded in `_fragments_used_as_mixins`, and its class name is no fragment base -/
theorem carrier_never_inherited (env : Env) (fuel : Nat) (d : Definition) (marks : List Nat) (out : ModuleOut)
    (g : Fragment) (hdef : findFragment? env.frags g.name = some g) (hc : g.sel.any isInlineSel = true)
    (h : generate env fuel d marks = .ok out) : g.name ∉ out.st.mixins := by
  intro hm
  obtain ⟨f, hf, hu⟩ := (inherited_fragments_have_a_class env fuel d marks out h).1 g.name hm
  rw [hdef] at hf
  injection hf with hf
  subst hf
  rw [carrier_always_unpacked env g none hc] at hu
  cases hu

/-! ## 1c. Which fragments a class inherits from, EXACTLY — inline fragments and unpacked fragments included

  "the type that selection set is evaluated for": `_resolve_selection_set(selection_set, root_type)` carries the type
  along.  A directly spread fragment that `_unpack_fragment` keeps is inherited; one that is unpacked and applies to the
  type has its selections evaluated for the SAME type in its place; an inline fragment has its selections evaluated for
  what `_get_inline_fragment_root_type` answers — the type itself for `... on <the type>`, the INTERFACE for
  `... on <an interface the object type implements>` (so `account { ... on Node { ...NodeId } }` makes `NodeId`, defined on
  `Node`, a base of the class generated for `account`), nothing otherwise (the inline fragment is ignored).
  `Inherits env n sel T` (Proofs/C08Inherits.lean) is that description as an inductive relation, without fuel, state or
  accumulators; the theorems below say the code computes exactly it, and that the fragment bases of every class are
  exactly those names, without repetition, in increasing order of the fragment names, before the `@mixin` bases.
  (A change to any of the three routes, to the order, or to what is appended contradicts a theorem of this section.) -/

/-- (must) **`_resolve_selection_set` returns exactly the inherited fragments, each once** — every fuel, every state -/
theorem resolve_fragments_exact (env : Env) (fuel : Nat) (sel : List Selection) (T : String) (st : St) (r : Acc) (st' : St)
    (h : resolve env fuel sel T st = .ok (r, st')) :
    (∀ n, n ∈ r.2 ↔ Inherits env n sel T) ∧ r.2.Nodup :=
  ⟨resolve_inherits_iff env fuel sel T st r st' h, resolve_nodup env fuel sel T st r st' h⟩

/-- (must) **the bases of every generated class, exactly**: `BaseModel` when nothing is inherited, otherwise the classes of
    exactly the inherited fragments (`Inherits`), each once, in strictly increasing order of the fragment names — followed
    by exactly the extra (`@mixin`) bases the call was given, in the order given. -/
theorem class_bases_exact (env : Env) (fuel : Nat) (cn T : String) (sid : Nat) (sel : List Selection) (a : Bool)
    (eb tv : List String) (st : St) (cs : List ClassDecl) (st' : St)
    (hfresh : st.publicNames.contains cn = false)
    (h : parseTypeDefinition env fuel cn T sid sel a eb tv st = .ok (cs, st')) :
    ∃ (c : ClassDecl) (rest : List ClassDecl) (frs : List String), cs = c :: rest ∧ c.name = cn ∧
      c.bases = (if frs.isEmpty then ["BaseModel"] else frs.map pascal) ++ eb ∧
      frs.Pairwise (· < ·) ∧ ∀ n, n ∈ frs ↔ Inherits env n sel T := by
  obtain ⟨x, st1, resolved, acc, fuel', _, hres, _, hcs, _⟩ := parseTypeDefinition_unfold _ _ _ _ _ _ _ _ _ _ _ _ h hfresh
  have hx := resolve_fragments_exact env fuel sel T _ x st1 hres
  refine ⟨_, _, sortStr x.2, hcs, rfl, ?_, Ariadne.OpTextProofs.pairwise_sortStr x.2 hx.2, ?_⟩
  · show classBases x.2 eb = _
    unfold classBases
    have he : (sortStr x.2).isEmpty = x.2.isEmpty := by
      cases hx2 : x.2 with
      | nil => rfl
      | cons y ys =>
        have : y ∈ sortStr (y :: ys) := (mem_sortStr y _).mpr List.mem_cons_self
        cases hs : sortStr (y :: ys) with
        | nil => rw [hs] at this; cases this
        | cons _ _ => rfl
    rw [he]
  · intro n
    rw [mem_sortStr]
    exact hx.1 n

/-- (must) **a spread inside an inline fragment**: the selection set of `... on C { ...F }`, met while a class is generated
    for type `T`, is evaluated for the type `_get_inline_fragment_root_type(C, T)` accepts; when `F` qualifies for that type
    the class generated for `T` has `pascal F` among its bases, hence is a subclass of it. -/
theorem mixin_criterion_inline (env : Env) (fuel : Nat) (cn T : String) (sid : Nat) (sel : List Selection) (a : Bool)
    (eb tv : List String) (st : St) (cs : List ClassDecl) (st' : St)
    (cond rt : String) (idirs : List Directive) (isid : Nat) (sub : List Selection)
    (hin : Selection.inline (some cond) idirs isid sub ∈ sel) (hrt : inlineFragmentRootType env cond T = some rt)
    (f : Fragment) (dirs : List Directive) (q : Qualifies env f rt) (hmem : Selection.spread f.name dirs ∈ sub)
    (hfresh : st.publicNames.contains cn = false)
    (h : parseTypeDefinition env fuel cn T sid sel a eb tv st = .ok (cs, st')) :
    ∃ c rest, cs = c :: rest ∧ c.name = cn ∧ pascal f.name ∈ c.bases ∧
      ∀ t : ClassTable, basesOf t cn = some c.bases → IsSubclass t cn (pascal f.name) := by
  obtain ⟨x, st1, resolved, acc, fuel', _, hres, _, hcs, _⟩ := parseTypeDefinition_unfold _ _ _ _ _ _ _ _ _ _ _ _ h hfresh
  have hi : Inherits env f.name sel T := Inherits.throughInline hin hrt (Inherits.direct hmem q.defined q.not_unpacked)
  have hm : f.name ∈ x.2 := (resolve_inherits_iff env fuel sel T _ x st1 hres f.name).mpr hi
  exact ⟨_, _, hcs, rfl, pascal_mem_classBases hm, fun t ht => IsSubclass.of_base ht (pascal_mem_classBases hm)⟩

/-- (must) in particular **an inline fragment on an interface the object type implements is evaluated for the interface**:
    a fragment defined on exactly that interface (no inline fragments of its own) and spread inside it is a base of the class
    generated for the object type … -/
theorem interface_fragment_inside_inline_is_a_base (env : Env) (fuel : Nat) (cn T I : String) (t : TypeDef) (sid : Nat)
    (sel : List Selection) (a : Bool) (eb tv : List String) (st : St) (cs : List ClassDecl) (st' : St)
    (ht : env.schema.get? T = some t) (hobj : t.kind = .object) (himpl : I ∈ t.interfaces)
    (idirs : List Directive) (isid : Nat) (sub : List Selection) (hin : Selection.inline (some I) idirs isid sub ∈ sel)
    (f : Fragment) (dirs : List Directive) (q : Qualifies env f I) (hmem : Selection.spread f.name dirs ∈ sub)
    (hfresh : st.publicNames.contains cn = false)
    (h : parseTypeDefinition env fuel cn T sid sel a eb tv st = .ok (cs, st')) :
    ∃ c rest, cs = c :: rest ∧ c.name = cn ∧ pascal f.name ∈ c.bases ∧
      ∀ tb : ClassTable, basesOf tb cn = some c.bases → IsSubclass tb cn (pascal f.name) :=
  mixin_criterion_inline env fuel cn T sid sel a eb tv st cs st' I I idirs isid sub hin
    (inlineRoot_interface env I T t ht hobj himpl) f dirs q hmem hfresh h

/-- (must) **`_get_inline_fragment_root_type`, case by case, for every schema**: `... on <the type itself>` is evaluated for the
    type; `... on <an interface the OBJECT type implements>` for the interface; every other inline fragment is ignored; and an
    accepted inline fragment is never evaluated for anything but its own type condition. -/
theorem inline_fragment_root_type_cases (env : Env) (cond T : String) :
    (∀ t, env.schema.get? T = some t → cond = T → inlineFragmentRootType env cond T = some T) ∧
    (∀ t, env.schema.get? T = some t → t.kind = .object → cond ∈ t.interfaces → inlineFragmentRootType env cond T = some cond) ∧
    ((∀ t, env.schema.get? T = some t → ¬ (t.kind = .object ∧ cond ∈ t.interfaces) ∧ cond ≠ T) →
      inlineFragmentRootType env cond T = none) ∧
    (∀ rt, inlineFragmentRootType env cond T = some rt → rt = cond) :=
  ⟨fun t ht he => he ▸ inlineRoot_own env cond t (he ▸ ht), fun t ht ho hi => inlineRoot_interface env cond T t ht ho hi,
   inlineRoot_none env cond T, fun rt h => inlineRoot_eq_cond env cond T rt h⟩

/-- (must) **inheriting is not unpacking**: the iteration of `_resolve_selection_set` that meets a spread of a fragment it keeps
    as a base leaves the whole generator state alone — in particular it does not record the fragment in `_unpacked_fragments`,
    which is what would remove its class from the fragments module. -/
theorem inherit_routes_do_not_unpack (env : Env) (fuel : Nat) (root : String) (n : String) (dirs : List Directive) (f : Fragment)
    (hf : findFragment? env.frags n = some f) (hun : unpackFragment env f (some root) = false)
    (b : Acc) (s : St) (r : ForInStep Acc) (s' : St)
    (h : resolveBody env fuel root (.spread n dirs) b s = .ok (r, s')) : s' = s := by
  simp only [resolveBody, hf] at h
  split at h
  · exact ((ok_err _ _ _).mp h).elim
  split at h
  · exact ((ok_err _ _ _).mp h).elim
  simp only [hun, Bool.not_false, if_true] at h
  exact ((ok_pure _ _ _ _).mp h).2.symm

/-! ## 2. Fragment classes are defined before their dependants -/

/-- the dependency dict has no cycle.  GraphQL validation (NoFragmentCycles, run by `get_graphql_queries`) rejects
    spread cycles and a fragment inherits only from fragments it spreads; the harness checks this hypothesis on
    every observed dependency dict (it is not derived from the document in Lean). -/
def Acyclic (d : Order.Deps) : Prop := ∃ rk : String → Nat, ∀ n ds m, Order.lookup d n = some ds → m ∈ ds → rk m < rk n

/-- (must) **topological order**: in the emitted fragments module every fragment comes after all fragments its
    classes inherit from, every class statement finds all its bases bound (`BaseModel`, an imported `@mixin`
    class, or a class defined earlier in the module), and every fragment handed to the generator that gets a class
    of its own is there — for EVERY enumeration oracle (whatever order CPython iterates the sets in, hence
    whatever the definition order in the queries file). -/
theorem topo_respects_deps (e : Order.EnumOracle) (he : Order.EnumOK e) (env : Env) (fuel : Nat) (names : List String)
    (marks : List Nat) (fo : FragmentsOut) (hac : Acyclic fo.deps)
    (h : generateFragments e env fuel names marks = .ok fo) :
    (∀ pre n post, fo.order = pre ++ n :: post → ∀ m, m ∈ Order.depsOf fo.deps n → m ∈ pre) ∧
    Loads (external fo) (classTable fo.classes) ∧
    (∀ n ∈ names, (∃ f, findFragment? env.frags n = some f ∧ unpackFragment env f none = false) →
      pascal n ∈ fo.classes.map (·.name)) := by
  obtain ⟨rk, hrk⟩ := hac
  obtain ⟨gens, hg, hd, hs, hc, hi⟩ := generateFragments_unfold e env fuel names marks fo h
  exact ⟨Order.dfs_topo (fun ds x => by rw [Order.mem_pySorted]; exact (he ds).mem_iff) rk hrk hs,
    fragments_load e he env fuel names marks fo h rk hrk,
    fun n hn hgood => fragments_emitted e he env fuel names marks fo h n hn hgood⟩

/-- the input-level hypothesis behind `Acyclic`: the document's fragment spreads admit a rank that strictly
    decreases from a fragment to every fragment spread inside its selection set.  This is graphql-core's validation
    rule NoFragmentCycles, which `get_graphql_queries` runs before any generator sees the document. -/
def NoFragmentCycles (env : Env) : Prop := ∃ rk : String → Nat, SpreadRank env rk

/-- (must) a fragment's generator records only fragments that are spread — directly or through other fragments —
    from its own selection set: the dependency dict of the fragments module inherits acyclicity from the document. -/
theorem deps_acyclic_of_valid (e : Order.EnumOracle) (env : Env) (hv : NoFragmentCycles env) (fuel : Nat) (names : List String)
    (marks : List Nat) (fo : FragmentsOut) (h : generateFragments e env fuel names marks = .ok fo) : Acyclic fo.deps := by
  obtain ⟨rk, hrk⟩ := hv
  exact ⟨rk, deps_acyclic e env rk hrk fuel names marks fo h⟩

/-- `topo_respects_deps` from the input-level hypothesis alone -/
theorem topo_respects_deps_valid (e : Order.EnumOracle) (he : Order.EnumOK e) (env : Env) (hv : NoFragmentCycles env)
    (fuel : Nat) (names : List String) (marks : List Nat) (fo : FragmentsOut)
    (h : generateFragments e env fuel names marks = .ok fo) :
    (∀ pre n post, fo.order = pre ++ n :: post → ∀ m, m ∈ Order.depsOf fo.deps n → m ∈ pre) ∧
    Loads (external fo) (classTable fo.classes) :=
  let t := topo_respects_deps e he env fuel names marks fo (deps_acyclic_of_valid e env hv fuel names marks fo h) h
  ⟨t.1, t.2.1⟩

/-! ## 3. `@mixin(from:, import:)` -/

/-- (must) **`_get_extra_bases_from_mixin_directives`, exactly**: the extra bases of a node are the `import`
    arguments of its `@mixin` directives, in order, and exactly their `(from, import)` pairs are appended to the
    generator's imports (nothing else of the state changes). -/
theorem mixin_directive_bases (dirs : List Directive) (st : St) (bs : List String) (st' : St)
    (h : mixinBases dirs st = .ok (bs, st')) :
    bs = (mixinPairs dirs).map (·.2) ∧ st' = { st with mixinImports := st.mixinImports ++ mixinPairs dirs } :=
  mixinBases_spec dirs st bs st' h

/-- (must) the class a `_parse_type_definition` call creates has bases = fragment bases ++ exactly the extra bases
    the call was given (in that order): nothing is dropped, nothing else is added. -/
theorem extra_bases_appended (env : Env) (fuel : Nat) (cn T : String) (sid : Nat) (sel : List Selection) (a : Bool)
    (eb tv : List String) (st : St) (cs : List ClassDecl) (st' : St)
    (hfresh : st.publicNames.contains cn = false)
    (h : parseTypeDefinition env fuel cn T sid sel a eb tv st = .ok (cs, st')) :
    ∃ c rest fragPart frs, cs = c :: rest ∧ c.name = cn ∧ c.bases = fragPart ++ eb ∧
      (fragPart = ["BaseModel"] ∨ fragPart = (sortStr frs).map pascal) := by
  obtain ⟨x, st1, resolved, acc, fuel', _, hres, _, hcs, _⟩ := parseTypeDefinition_unfold _ _ _ _ _ _ _ _ _ _ _ _ h hfresh
  obtain ⟨fp, hfp, hor⟩ := classBases_suffix x.2 eb
  exact ⟨_, _, fp, x.2, hcs, rfl, hfp, hor⟩

/-- (must) **@mixin on a fragment definition / on an operation**: the root class of the definition's generator has
    the classes named by the definition's `@mixin` directives as its additional bases, exactly and in order, and
    each `(from, import)` pair is among the generator's imports. -/
theorem mixin_on_definition (env : Env) (fuel : Nat) (d : Definition) (marks : List Nat) (out : ModuleOut)
    (hd : match d with | .op _ => True | .frag f => unpackFragment env f none = false)
    (h : generate env fuel d marks = .ok out) :
    ∃ c rest fragPart frs, out.classes = c :: rest ∧
      c.bases = fragPart ++ (mixinPairs (match d with | .op o => o.dirs | .frag f => f.dirs)).map (·.2) ∧
      (fragPart = ["BaseModel"] ∨ fragPart = (sortStr frs).map pascal) ∧
      ∀ p ∈ mixinPairs (match d with | .op o => o.dirs | .frag f => f.dirs), p ∈ out.st.mixinImports := by
  obtain ⟨cs, st, hr, hc, hs⟩ := generate_ok env fuel _ marks out h
  cases d with
  | op o =>
    obtain ⟨n, tn, _, _, hp⟩ := genRun_op env fuel o _ cs st hr
    obtain ⟨x, st1, fields, rest, _, hcs, _, himp⟩ := root_class env fuel _ _ _ _ _ marks cs st hp
    obtain ⟨fp, hfp, hor⟩ := classBases_suffix x.2 ((mixinPairs o.dirs).map (·.2))
    exact ⟨_, rest, fp, x.2, by rw [hc, hcs], hfp, hor, fun p hp' => by rw [hs]; exact himp p hp'⟩
  | frag f =>
    have hp := genRun_frag env fuel f _ cs st hr hd
    obtain ⟨x, st1, fields, rest, _, hcs, _, himp⟩ := root_class env fuel _ _ _ _ _ marks cs st hp
    obtain ⟨fp, hfp, hor⟩ := classBases_suffix x.2 ((mixinPairs f.dirs).map (·.2))
    exact ⟨_, rest, fp, x.2, by rw [hc, hcs], hfp, hor, fun p hp' => by rw [hs]; exact himp p hp'⟩

/-- (must) **@mixin on a field**: while a class is generated, the classes for a field's selection set are generated by
    `_parse_field_selection_set_types` with exactly the classes named by THAT field's `@mixin` directives as extra
    bases (so a directive never reaches the classes of other fields, nor nested ones), after importing them. -/
theorem mixin_on_field (env : Env) (fuel : Nat) (cn tn : String) (tv : List String) (f : RField) (acc : FAcc) (s : St)
    (r : ForInStep FAcc) (s' : St) (h : fieldBody env fuel cn tn tv f acc s = .ok (r, s')) :
    ∃ ctx more s1 fd, parseFieldSelectionSetTypes env fuel f.sid f.sub ctx ((mixinPairs f.dirs).map (·.2))
        { s with mixinImports := s.mixinImports ++ mixinPairs f.dirs } = .ok (more, s1) ∧
      r = .yield (acc.1 ++ [fd], acc.2 ++ more) := by
  unfold fieldBody at h
  obtain ⟨t, s1, h1, hA⟩ := (ok_bind _ _ _ _ _).mp h
  obtain ⟨_, e1⟩ := (ok_liftExcept _ _ _ _).mp h1
  subst e1
  obtain ⟨x, s2, h2, hB⟩ := (ok_bind _ _ _ _ _).mp hA
  obtain ⟨_, e2⟩ := (ok_liftExcept _ _ _ _).mp h2
  subst e2
  obtain ⟨fb, s3, h3, hC⟩ := (ok_bind _ _ _ _ _).mp hB
  obtain ⟨hfb, hs3⟩ := mixinBases_spec _ _ _ _ h3
  obtain ⟨more, s4, h4, hD⟩ := (ok_bind _ _ _ _ _).mp hC
  obtain ⟨u, s5, h5, hE⟩ := (ok_bind _ _ _ _ _).mp hD
  obtain ⟨e3, e4⟩ := (ok_pure _ _ _ _).mp hE
  subst hfb hs3
  exact ⟨_, more, s4, _, h4, e3.symm⟩

/-- … and `_parse_field_selection_set_types` hands those extra bases, unchanged, to the `_parse_type_definition`
    call of EVERY related class of the field (at an abstract position: the interface class and every sub-type
    class).  "The class generated for that field" is, on the real code, that whole family. -/
theorem field_extra_bases_reach_every_related_class (env : Env) (fuel : Nat) (sid : Nat) (sel : List Selection) (ctx : Ctx)
    (eb : List String) :
    parseFieldSelectionSetTypes env (fuel + 1) sid sel ctx eb =
      (if sel.isEmpty then pure []
       else forIn ctx.related [] (fun (rc : String × String) (acc : List ClassDecl) => do
          let cs ← parseTypeDefinition env fuel rc.1 rc.2 sid sel ctx.abstract eb
            (((typenameValues env ctx.related).find? (·.1 == rc.2)).map (·.2) |>.getD [])
          pure (ForInStep.yield (acc ++ cs))) >>= fun s => pure s) := rfl

/-- the two lists have the same length and are related position by position -/
inductive ForAll2 {α β : Type} (R : α → β → Prop) : List α → List β → Prop
  | nil : ForAll2 R [] []
  | cons {a : α} {b : β} {l₁ : List α} {l₂ : List β} : R a b → ForAll2 R l₁ l₂ → ForAll2 R (a :: l₁) (b :: l₂)

/-- what one related class of a field contributes: nothing (a class of that name exists already) or a class list
    headed by the class of that name whose bases are its fragment bases followed by exactly `eb` -/
def RelatedSegment (eb : List String) (rc : String × String) (seg : List ClassDecl) : Prop :=
  seg = [] ∨ ∃ c rest fragPart frs, seg = c :: rest ∧ c.name = rc.1 ∧ c.bases = fragPart ++ eb ∧
    (fragPart = ["BaseModel"] ∨ fragPart = (sortStr frs).map pascal)

theorem related_loop (env : Env) (fuel : Nat) (sid : Nat) (sel : List Selection) (ctx : Ctx) (eb : List String) :
    ∀ (l : List (String × String)) (acc : List ClassDecl) (s : St) (acc' : List ClassDecl) (s' : St),
      forIn l acc (relatedBody env fuel sid sel ctx eb) s = .ok (acc', s') →
      ∃ segs : List (List ClassDecl), acc' = acc ++ segs.flatten ∧ ForAll2 (RelatedSegment eb) l segs
  | [], acc, s, acc', s', h => by
    rw [List.forIn_nil] at h
    obtain ⟨e1, _⟩ := (ok_pure _ _ _ _).mp h
    exact ⟨[], by simp [e1], ForAll2.nil⟩
  | rc :: l, acc, s, acc', s', h => by
    rw [List.forIn_cons] at h
    obtain ⟨r, s1, h1, h2⟩ := (ok_bind _ _ _ _ _).mp h
    unfold relatedBody at h1
    obtain ⟨cs1, s2, h3, h4⟩ := (ok_bind _ _ _ _ _).mp h1
    obtain ⟨e3, e4⟩ := (ok_pure _ _ _ _).mp h4
    subst e3 e4
    obtain ⟨segs, hacc, hall⟩ := related_loop env fuel sid sel ctx eb l _ _ acc' s' h2
    have hseg : RelatedSegment eb rc cs1 := by
      cases hseen : s.publicNames.contains rc.1 with
      | true => exact Or.inl (parseTypeDefinition_seen _ _ _ _ _ _ _ _ _ _ _ _ h3 hseen).1
      | false =>
        obtain ⟨c, rest, fp, frs, hcs, hn, hb, hor⟩ := extra_bases_appended _ _ _ _ _ _ _ _ _ _ _ _ hseen h3
        exact Or.inr ⟨c, rest, fp, frs, hcs, hn, hb, hor⟩
    exact ⟨cs1 :: segs, by rw [hacc]; simp [List.append_assoc], ForAll2.cons hseg hall⟩

/-- (must) **the extra bases of a field reach EVERY related class, exactly**: the classes generated for a field's
    selection set split into one segment per related class (in order); each segment is empty (the class name was
    generated before) or starts with the class of that name, whose bases are its fragment bases followed by
    exactly the field's extra bases. -/
theorem mixin_on_field_every_related_class (env : Env) (fuel : Nat) (sid : Nat) (sel : List Selection) (ctx : Ctx)
    (eb : List String) (st : St) (cs : List ClassDecl) (st' : St) (hsel : sel.isEmpty = false)
    (h : parseFieldSelectionSetTypes env fuel sid sel ctx eb st = .ok (cs, st')) :
    ∃ segs : List (List ClassDecl), cs = segs.flatten ∧ ForAll2 (RelatedSegment eb) ctx.related segs := by
  cases fuel with
  | zero =>
    rw [parseFieldSelectionSetTypes_zero] at h
    exact ((ok_err _ _ _).mp h).elim
  | succ fuel =>
    rw [parseFieldSelectionSetTypes_succ, hsel] at h
    simp only [Bool.false_eq_true, if_false] at h
    obtain ⟨acc, s1, h1, h2⟩ := (ok_bind _ _ _ _ _).mp h
    obtain ⟨e1, e2⟩ := (ok_pure _ _ _ _).mp h2
    subst e1 e2
    obtain ⟨segs, hacc, hall⟩ := related_loop env fuel sid sel ctx eb ctx.related [] st acc s1 h1
    exact ⟨segs, by simpa using hacc, hall⟩

/-! ## 4. The package-level clauses: full statement, findings, partial theorem -/

/-- "it exists in the fragments module no matter how other operations use the same fragment": every fragment some
    operation class inherits from has its class in the emitted fragments module, and generation does not die in
    `FragmentsGenerator` -/
def FragmentAlwaysEmitted : Prop :=
  ∀ (e : Order.EnumOracle), Order.EnumOK e → ∀ (env : Env) (fuel : Nat) (ops : List Operation),
    match fragmentsModule e env fuel ops with
    | .ok out => ∀ g ∈ out.ops, ∀ n ∈ g.out.st.mixins, ∃ fo, out.fragments = some fo ∧ pascal n ∈ fo.classes.map (·.name)
    | .error (.order _) => False
    | .error (.gen _) => True

/-- "so the module always loads": CPython can execute every class statement of every emitted module -/
def ModulesAlwaysLoad : Prop :=
  ∀ (e : Order.EnumOracle), Order.EnumOK e → ∀ (env : Env) (fuel : Nat) (ops : List Operation) (out : PackageOut),
    fragmentsModule e env fuel ops = .ok out → ∀ t ∈ moduleTables out, mroOK t = true

/-- "the object returned for it is an instance of the class generated for the fragment", whatever the runtime type
    of the object: all classes generated for one selection set (the members of the `Union[…]` of an interface
    position) inherit the fragments the interface class inherits -/
def InstanceAtEveryRuntimeType : Prop :=
  ∀ (e : Order.EnumOracle), Order.EnumOK e → ∀ (env : Env) (fuel : Nat) (ops : List Operation) (out : PackageOut),
    fragmentsModule e env fuel ops = .ok out →
      (∀ g ∈ out.ops, siblingsInheritAlike env g.out.classes g.out.st.mixins = true) ∧
      (∀ fo, out.fragments = some fo → siblingsInheritAlike env fo.classes (fo.deps.flatMap (·.2)) = true)

/-- the package-level part of the property at full strength -/
def C08_full : Prop := FragmentAlwaysEmitted ∧ ModulesAlwaysLoad ∧ InstanceAtEveryRuntimeType

/-! ### witnesses -/

def tAnimal : TypeDef := { name := "Animal", kind := .interface, fields := [FieldDef.mk "id" (.named "ID") []] }
def tDog : TypeDef := { name := "Dog", kind := .object, interfaces := ["Animal"], fields := [FieldDef.mk "id" (.named "ID") []] }
def tQuery : TypeDef := { name := "Query", kind := .object, fields := [FieldDef.mk "dog" (.named "Dog") [], FieldDef.mk "animal" (.named "Animal") []] }
def wSchema : Schema := { types := [tAnimal, tDog, tQuery], query := some "Query" }

/-- `fragment AF on Animal { id }` -/
def wAF : Fragment := { name := "AF", on := "Animal", sid := 5, sel := [.field none "id" [] 0 []] }
def wEnv : Env := { schema := wSchema, frags := [wAF] }
/-- `query A { dog { ...AF } }` unpacks AF (Dog ≠ Animal) -/
def wA : Operation := { kind := .query, name := some "A", sid := 1, sel := [.field none "dog" [] 2 [.spread "AF" []]] }
/-- `query B { animal { ...AF } }` inherits from AF -/
def wB : Operation := { kind := .query, name := some "B", sid := 3, sel := [.field none "animal" [] 4 [.spread "AF" []]] }

theorem enumOK_id : Order.EnumOK id := fun _ => List.Perm.refl _

/-- finding C08-F1: B's class inherits from `AF`, no fragments module is written at all -/
theorem fragment_always_emitted_false : ¬ FragmentAlwaysEmitted := by
  intro h
  have h1 := h id enumOK_id wEnv 10 [wA, wB]
  have hw : (match fragmentsModule id wEnv 10 [wA, wB] with
      | .ok out => out.fragments.isNone && (out.ops.any fun g => g.out.st.mixins.contains "AF")
      | .error _ => false) = true := by decide
  cases hm : fragmentsModule id wEnv 10 [wA, wB] with
  | error err => rw [hm] at hw; cases hw
  | ok out =>
    rw [hm] at hw h1
    simp only [Bool.and_eq_true, List.any_eq_true] at hw
    obtain ⟨hnone, g, hg, hc⟩ := hw
    obtain ⟨fo, hfo, _⟩ := h1 g hg "AF" (by simpa using hc)
    rw [hfo] at hnone
    cases hnone

example : trigUnpackedAndInherited id wEnv 10 [wA, wB] = true := by decide

def tUser : TypeDef := { name := "User", kind := .object, fields := [FieldDef.mk "id" (.named "ID") [], FieldDef.mk "name" (.named "String") [], FieldDef.mk "email" (.named "String") []] }
def tQueryU : TypeDef := { name := "Query", kind := .object, fields := [FieldDef.mk "user" (.named "User") []] }
def uSchema : Schema := { types := [tUser, tQueryU], query := some "Query" }
/-- `fragment UserBasic on User { id name }`, `fragment UserFull on User { ...UserBasic email }` -/
def uBasic : Fragment := { name := "UserBasic", on := "User", sid := 3, sel := [.field none "id" [] 0 [], .field none "name" [] 0 []] }
def uFull : Fragment := { name := "UserFull", on := "User", sid := 4, sel := [.spread "UserBasic" [], .field none "email" [] 0 []] }
def uEnv : Env := { schema := uSchema, frags := [uBasic, uFull] }
/-- `query A { user { ...UserBasic ...UserFull } }` ⇒ `class AUser(UserBasic, UserFull)` with `class UserFull(UserBasic)` -/
def uA : Operation := { kind := .query, name := some "A", sid := 1, sel := [.field none "user" [] 2 [.spread "UserBasic" [], .spread "UserFull" []]] }

/-- finding C08-F3: CPython cannot linearise `AUser(UserBasic, UserFull)` -/
theorem modules_always_load_false : ¬ ModulesAlwaysLoad := by
  intro h
  have hw : (match fragmentsModule id uEnv 10 [uA] with
      | .ok out => (moduleTables out).any fun t => !mroOK t
      | .error _ => false) = true := by decide
  cases hm : fragmentsModule id uEnv 10 [uA] with
  | error err => rw [hm] at hw; cases hw
  | ok out =>
    rw [hm] at hw
    obtain ⟨t, ht, hb⟩ := List.any_eq_true.mp hw
    have := h id enumOK_id uEnv 10 [uA] out hm t ht
    rw [this] at hb
    cases hb

example : trigMroConflict id uEnv 10 [uA] = true := by decide
example : trigUnpackedAndInherited id uEnv 10 [uA] = false := by decide

def tDogB : TypeDef := { name := "Dog", kind := .object, interfaces := ["Animal"], fields := [FieldDef.mk "id" (.named "ID") [], FieldDef.mk "barks" (.named "Boolean") []] }
def tQueryA : TypeDef := { name := "Query", kind := .object, fields := [FieldDef.mk "animal" (.named "Animal") []] }
/-- `fragment QF on Query { animal { __typename ...AF ... on Dog { barks } } }` -/
def sQF : Fragment := { name := "QF", on := "Query", sid := 2, sel := [.field none "animal" [] 3 [.field none "__typename" [] 0 [], .spread "AF" [], .inline (some "Dog") [] 4 [.field none "barks" [] 0 []]]] }
def sEnv : Env := { schema := { types := [tAnimal, tDogB, tQueryA], query := some "Query" }, frags := [sQF, wAF] }
/-- `query A { ...QF }` -/
def sA : Operation := { kind := .query, name := some "A", sid := 1, sel := [.spread "QF" []] }

/-- finding C08-F4: `QFAnimalAnimal(AF)` but `QFAnimalDog(BaseModel)` for the same selection set -/
theorem siblings_inherit_alike_false : ¬ InstanceAtEveryRuntimeType := by
  intro h
  have hw : (match fragmentsModule id sEnv 10 [sA] with
      | .ok out => (match out.fragments with
          | some fo => !siblingsInheritAlike sEnv fo.classes (fo.deps.flatMap (·.2))
          | none => false)
      | .error _ => false) = true := by decide
  cases hm : fragmentsModule id sEnv 10 [sA] with
  | error err => rw [hm] at hw; cases hw
  | ok out =>
    rw [hm] at hw
    cases hfo : out.fragments with
    | none => simp only [hfo] at hw; cases hw
    | some fo =>
      simp only [hfo] at hw
      have := (h id enumOK_id sEnv 10 [sA] out hm).2 fo hfo
      rw [this] at hw
      cases hw

example : trigSiblingUnpacks id sEnv 10 [sA] = true := by decide
example : trigUnpackedAndInherited id sEnv 10 [sA] = false ∧ trigMroConflict id sEnv 10 [sA] = false := by decide

/-- **the full-strength statement is false on the pinned tree** -/
theorem C08_full_false : ¬ C08_full := fun h => fragment_always_emitted_false h.1

/-! ### the partial theorem -/

/-- the complement of the finding triggers (both decidable, computed by the model) -/
def Supported_08 (e : Order.EnumOracle) (env : Env) (fuel : Nat) (ops : List Operation) : Prop :=
  ¬ (trigUnpackedAndInherited e env fuel ops = true ∨ trigMroConflict e env fuel ops = true ∨
     trigSiblingUnpacks e env fuel ops = true)

theorem addOperations_from (env : Env) (fuel : Nat) (ops : List Operation) (acc : OpsOut)
    (h : addOperations env fuel ops = .ok acc) : ∀ g ∈ acc.ops, FromOperation env fuel g :=
  addOperationsFrom_spec env fuel ops {} acc h (fun g hg => by cases hg)

/-- **C08 outside the finding triggers**: for every enumeration oracle, schema, validated document (no fragment cycles;
    any number of fragments and operations, in any order) for which generation succeeds: every fragment an operation class inherits from has its class in the
    emitted fragments module; that module's class statements all find their bases bound, in the emitted order;
    every base of every operation class is `BaseModel`, an imported `@mixin` class or such a fragment class; and
    CPython can linearise every class of every module. -/
theorem C08_partial (e : Order.EnumOracle) (he : Order.EnumOK e) (env : Env) (fuel : Nat) (ops : List Operation)
    (out : PackageOut) (h : fragmentsModule e env fuel ops = .ok out)
    (hv : NoFragmentCycles env) (hs : Supported_08 e env fuel ops) :
    (∀ g ∈ out.ops, ∀ n ∈ g.out.st.mixins, ∃ fo, out.fragments = some fo ∧ pascal n ∈ fo.classes.map (·.name)) ∧
    (∀ fo, out.fragments = some fo → Loads (external fo) (classTable fo.classes)) ∧
    (∀ g ∈ out.ops, ∀ c ∈ g.out.classes, ∀ b ∈ c.bases,
      b = "BaseModel" ∨ (∃ n ∈ g.out.st.mixins, b = pascal n) ∨ (∃ p ∈ g.out.st.mixinImports, b = p.2)) ∧
    (∀ t ∈ moduleTables out, mroOK t = true) ∧
    ((∀ g ∈ out.ops, siblingsInheritAlike env g.out.classes g.out.st.mixins = true) ∧
     (∀ fo, out.fragments = some fo → siblingsInheritAlike env fo.classes (fo.deps.flatMap (·.2)) = true)) := by
  have hF1 : trigUnpackedAndInherited e env fuel ops = false := by
    cases ht : trigUnpackedAndInherited e env fuel ops with
    | true => exact absurd (Or.inl ht) hs
    | false => rfl
  have hF3 : trigMroConflict e env fuel ops = false := by
    cases ht : trigMroConflict e env fuel ops with
    | true => exact absurd (Or.inr (Or.inl ht)) hs
    | false => rfl
  have hF4 : trigSiblingUnpacks e env fuel ops = false := by
    cases ht : trigSiblingUnpacks e env fuel ops with
    | true => exact absurd (Or.inr (Or.inr ht)) hs
    | false => rfl
  obtain ⟨acc, hacc, hops, _, hcase⟩ := fragmentsModule_ok e env fuel ops out h
  have hfromOps := addOperations_from env fuel ops acc hacc
  have hgoodOps : ∀ g ∈ acc.ops, (∀ n ∈ g.out.st.mixins, GoodMixin env n) ∧ BasesOK g.out.st g.out.classes := by
    intro g hg
    obtain ⟨o, marks, hgen⟩ := hfromOps g hg
    exact generate_spec env fuel _ marks _ hgen
  refine ⟨?_, ?_, ?_, ?_, ?_⟩
  · -- inherited fragments are emitted
    intro g hg n hn
    rw [hops] at hg
    have hgood := (hgoodOps g hg).1 n hn
    have hnotex : acc.unpacked.contains n = false := by
      unfold trigUnpackedAndInherited at hF1
      simp only [hacc] at hF1
      cases hc : acc.unpacked.contains n with
      | false => rfl
      | true =>
        have hmem : n ∈ acc.unpacked := by simpa using hc
        have : (acc.unpacked.any fun n => (inheritedByOps acc).contains n || (inheritedByFragments e env fuel acc).contains n) = true := by
          refine List.any_eq_true.mpr ⟨n, hmem, ?_⟩
          have : n ∈ inheritedByOps acc := List.mem_flatMap.mpr ⟨g, hg, hn⟩
          simp [this]
        rw [this] at hF1
        cases hF1
    have hrem : n ∈ remaining env acc.unpacked := by
      unfold remaining
      refine List.mem_filter.mpr ⟨(mem_dedup n _).mpr (goodMixin_mem_frags hgood), by rw [hnotex]; rfl⟩
    rcases hcase with ⟨hemp, _⟩ | ⟨_, fo, hgf, hfo⟩
    · cases hr : remaining env acc.unpacked with
      | nil => rw [hr] at hrem; cases hrem
      | cons _ _ => rw [hr] at hemp; cases hemp
    · exact ⟨fo, hfo, fragments_emitted e he env fuel _ acc.marks fo hgf n ((he _).mem_iff.mpr hrem) hgood⟩
  · -- the fragments module loads
    intro fo hfo
    rcases hcase with ⟨_, hnone⟩ | ⟨_, fo', hgf, hfo'⟩
    · rw [hnone] at hfo; cases hfo
    · rw [hfo'] at hfo
      injection hfo with hfo
      subst hfo
      obtain ⟨rk, hrk⟩ := deps_acyclic_of_valid e env hv fuel _ acc.marks fo' hgf
      exact fragments_load e he env fuel _ acc.marks fo' hgf rk hrk
  · intro g hg
    rw [hops] at hg
    exact (hgoodOps g hg).2
  · intro t ht
    unfold trigMroConflict at hF3
    rw [h] at hF3
    cases hm : mroOK t with
    | true => rfl
    | false =>
      have : ((moduleTables out).any fun t => !mroOK t) = true := List.any_eq_true.mpr ⟨t, ht, by simp [hm]⟩
      simp only [this] at hF3
      cases hF3
  · unfold trigSiblingUnpacks at hF4
    rw [h] at hF4
    simp only [Bool.or_eq_false_iff] at hF4
    obtain ⟨h1, h2⟩ := hF4
    constructor
    · intro g hg
      cases hsib : siblingsInheritAlike env g.out.classes g.out.st.mixins with
      | true => rfl
      | false =>
        have : (out.ops.any fun g => !siblingsInheritAlike env g.out.classes g.out.st.mixins) = true :=
          List.any_eq_true.mpr ⟨g, hg, by simp [hsib]⟩
        rw [this] at h1
        cases h1
    · intro fo hfo
      rw [hfo] at h2
      cases hsib : siblingsInheritAlike env fo.classes (fo.deps.flatMap (·.2)) with
      | true => rfl
      | false => simp [hsib] at h2

/-- … and outside the trigger of C08-F1 generation never dies with `KeyError` inside `FragmentsGenerator`
    (`dependencies_dict[dep]`, `fragments_definitions[name]`, `class_defs_dict[name]` all find their key): the
    second way finding C08-F1 shows cannot happen there either. -/
theorem C08_partial_no_keyerror (e : Order.EnumOracle) (he : Order.EnumOK e) (env : Env) (fuel : Nat) (ops : List Operation)
    (hs : Supported_08 e env fuel ops) (k : String) :
    fragmentsModule e env fuel ops ≠ .error (.order (.keyError k)) := by
  have hF1 : trigUnpackedAndInherited e env fuel ops = false := by
    cases ht : trigUnpackedAndInherited e env fuel ops with
    | true => exact absurd (Or.inl ht) hs
    | false => rfl
  exact no_keyError_outside_trigger e he env fuel ops hF1 k

/-- the KeyError of finding C08-F1 on its witness (`dog{...AF} animal{...G}`, `G on Animal {name ...AF}`) -/
def wG : Fragment := { name := "G", on := "Animal", sid := 7, sel := [.field none "name" [] 0 [], .spread "AF" []] }
def tAnimalN : TypeDef := { name := "Animal", kind := .interface, fields := [FieldDef.mk "id" (.named "ID") [], FieldDef.mk "name" (.named "String") []] }
def kEnv : Env := { schema := { types := [tAnimalN, tDog, tQuery], query := some "Query" }, frags := [wG, wAF] }
def kA : Operation := { kind := .query, name := some "A", sid := 1, sel := [.field none "dog" [] 2 [.spread "AF" []], .field none "animal" [] 3 [.spread "G" []]] }

example : (match fragmentsModule id kEnv 10 [kA] with
    | .error (.order (.keyError k)) => k == "AF"
    | _ => false) = true := by decide

example : trigUnpackedAndInherited id kEnv 10 [kA] = true := by decide

/-! ### non-vacuity -/

/-- `fragment DF on Dog { id }` -/
def wDF : Fragment := { name := "DF", on := "Dog", sid := 6, sel := [.field none "id" [] 0 []] }
def okEnv : Env := { schema := wSchema, frags := [wAF, wDF] }
/-- `query C { animal { ...AF } dog { ...DF } }` -/
def okC : Operation := { kind := .query, name := some "C", sid := 1, sel := [.field none "animal" [] 2 [.spread "AF" []], .field none "dog" [] 3 [.spread "DF" []]] }

example : Qualifies wEnv wAF "Animal" := ⟨by rfl, rfl, by decide, by decide⟩
example : Qualifies okEnv wDF "Dog" := ⟨by rfl, rfl, by decide, by decide⟩

/-- a supported package that really has a fragments module with inherited classes -/
example : (match fragmentsModule id okEnv 10 [okC, wB] with
    | .ok out => (out.fragments.map fun fo => fo.order) == some ["AF", "DF"] && out.excluded.isEmpty
        && out.ops.all (fun g => !g.out.st.mixins.isEmpty)
    | .error _ => false) = true := by decide

example : trigUnpackedAndInherited id okEnv 10 [okC, wB] = false ∧ trigMroConflict id okEnv 10 [okC, wB] = false
    ∧ trigSiblingUnpacks id okEnv 10 [okC, wB] = false := by decide

example : NoFragmentCycles okEnv := ⟨fun _ => 0, by
  intro n f hf m hm
  unfold findFragment? at hf
  have hmem := List.mem_of_find?_eq_some hf
  simp only [okEnv, List.mem_cons, List.not_mem_nil, or_false] at hmem
  rcases hmem with rfl | rfl <;> simp [wAF, wDF, selsSpreads, selSpreads] at hm⟩

example : Acyclic [("AF", []), ("DF", [])] := ⟨fun _ => 0, by
  intro n ds m hl hm
  simp only [Order.lookup] at hl
  split at hl
  · cases hl; cases hm
  · split at hl
    · cases hl; cases hm
    · cases hl⟩

/-! ### a base that spreads a carrier (regression witness corpus/C08/C08-R1-base-spreads-inline-carrier.json) -/

def tNode : TypeDef := { name := "Node", kind := .interface, fields := [FieldDef.mk "id" (.named "ID") []] }
def tUserN : TypeDef := { name := "User", kind := .object, interfaces := ["Node"], fields := [FieldDef.mk "id" (.named "ID") [], FieldDef.mk "name" (.named "String") [], FieldDef.mk "email" (.named "String") []] }
def tTeam : TypeDef := { name := "Team", kind := .object, interfaces := ["Node"], fields := [FieldDef.mk "id" (.named "ID") [], FieldDef.mk "title" (.named "String") []] }
def tQueryN : TypeDef := { name := "Query", kind := .object, fields := [FieldDef.mk "user" (.named "User") [], FieldDef.mk "node" (.named "Node") []] }
/-- `fragment NodeInfo on Node { id ... on User { name } ... on Team { title } }` — a carrier -/
def rNodeInfo : Fragment := { name := "NodeInfo", on := "Node", sid := 5, sel := [.field none "id" [] 0 [], .inline (some "User") [] 6 [.field none "name" [] 0 []], .inline (some "Team") [] 7 [.field none "title" [] 0 []]] }
/-- `fragment UserCard on User { ...NodeInfo email }` — no inline fragment of its own -/
def rUserCard : Fragment := { name := "UserCard", on := "User", sid := 8, sel := [.spread "NodeInfo" [], .field none "email" [] 0 []] }
def rEnv : Env := { schema := { types := [tNode, tUserN, tTeam, tQueryN], query := some "Query" }, frags := [rUserCard, rNodeInfo] }
/-- `query GetUser { user { ...UserCard } }` -/
def rGetUser : Operation := { kind := .query, name := some "GetUser", sid := 1, sel := [.field none "user" [] 2 [.spread "UserCard" []]] }
/-- `query GetNode { node { ...NodeInfo } }` -/
def rGetNode : Operation := { kind := .query, name := some "GetNode", sid := 3, sel := [.field none "node" [] 4 [.spread "NodeInfo" []]] }

example : Qualifies rEnv rUserCard "User" :=
  qualifies_whatever_it_spreads rEnv rUserCard (by rfl) (by decide) (by
    intro s hs
    simp only [rUserCard, List.mem_cons, List.not_mem_nil, or_false] at hs
    rcases hs with rfl | rfl
    · exact Or.inr ⟨_, _, rfl⟩
    · exact Or.inl ⟨_, _, _, _, _, rfl⟩)
example : rNodeInfo.sel.any isInlineSel = true := by decide
example : unpackFragment rEnv rUserCard (some "User") = false ∧ unpackFragment rEnv rNodeInfo (some "Node") = true := by decide

/-- on the witness: `UserCard` has its class in the fragments module, `GetUserUser(UserCard)` inherits from it, only the
    carrier `NodeInfo` is unpacked, and the package lies outside every finding trigger -/
example : (match fragmentsModule id rEnv 10 [rGetUser, rGetNode] with
    | .ok out => (match out.fragments with
          | some fo => (fo.classes.map (·.name)).contains "UserCard"
          | none => false)
        && out.excluded.contains "NodeInfo" && !out.excluded.contains "UserCard"
        && out.ops.any (fun g => g.out.classes.any fun c => c.name == "GetUserUser" && c.bases == ["UserCard"])
    | .error _ => false) = true := by decide

example : trigUnpackedAndInherited id rEnv 10 [rGetUser, rGetNode] = false ∧ trigMroConflict id rEnv 10 [rGetUser, rGetNode] = false
    ∧ trigSiblingUnpacks id rEnv 10 [rGetUser, rGetNode] = false := by decide

/-! ### a fragment on an interface spread inside `... on <that interface>` at an object position -/

def tAccount : TypeDef := { name := "Account", kind := .object, interfaces := ["Node"], fields := [FieldDef.mk "id" (.named "ID") [], FieldDef.mk "name" (.named "String") []] }
def tQueryAcc : TypeDef := { name := "Query", kind := .object, fields := [FieldDef.mk "account" (.named "Account") [], FieldDef.mk "node" (.named "Node") []] }
/-- `fragment NodeId on Node { id }` -/
def iNodeId : Fragment := { name := "NodeId", on := "Node", sid := 5, sel := [.field none "id" [] 0 []] }
def iEnv : Env := { schema := { types := [tNode, tAccount, tQueryAcc], query := some "Query" }, frags := [iNodeId] }
/-- `query GetAccount { account { name ... on Node { ...NodeId } } }` -/
def iGetAccount : Operation := { kind := .query, name := some "GetAccount", sid := 1, sel := [.field none "account" [] 2 [.field none "name" [] 0 [], .inline (some "Node") [] 3 [.spread "NodeId" []]]] }
/-- `query GetNode { node { ...NodeId } }` -/
def iGetNode : Operation := { kind := .query, name := some "GetNode", sid := 4, sel := [.field none "node" [] 6 [.spread "NodeId" []]] }

example : Qualifies iEnv iNodeId "Node" := ⟨by rfl, rfl, by decide, by decide⟩
example : inlineFragmentRootType iEnv "Node" "Account" = some "Node" := by decide
example : inlineFragmentRootType iEnv "Account" "Node" = none := by decide
example : Inherits iEnv "NodeId" [.field none "name" [] 0 [], .inline (some "Node") [] 3 [.spread "NodeId" []]] "Account" :=
  Inherits.throughInline (cond := "Node") (rt := "Node") (dirs := []) (sid := 3) (sub := [.spread "NodeId" []])
    (List.mem_cons_of_mem _ List.mem_cons_self) (by decide)
    (Inherits.direct (dirs := []) (f := iNodeId) List.mem_cons_self (by rfl) (by decide))

/-- on the witness: `GetAccountAccount(NodeId)` and `GetNodeNode(NodeId)`, nothing is unpacked, `NodeId` has its class in
    the fragments module, and the package lies outside every finding trigger -/
example : (match fragmentsModule id iEnv 10 [iGetAccount, iGetNode] with
    | .ok out => (match out.fragments with
          | some fo => (fo.classes.map (·.name)).contains "NodeId"
          | none => false)
        && out.excluded.isEmpty
        && out.ops.any (fun g => g.out.classes.any fun c => c.name == "GetAccountAccount" && c.bases == ["NodeId"])
        && out.ops.any (fun g => g.out.classes.any fun c => c.name == "GetNodeNode" && c.bases == ["NodeId"])
    | .error _ => false) = true := by decide

example : trigUnpackedAndInherited id iEnv 10 [iGetAccount, iGetNode] = false ∧ trigMroConflict id iEnv 10 [iGetAccount, iGetNode] = false
    ∧ trigSiblingUnpacks id iEnv 10 [iGetAccount, iGetNode] = false := by decide

end Ariadne.C08
