/-
  C04 — Every valid input generates, and what is generated loads.

  "For every valid schema, every set of named operations valid against it and every supported configuration,
   generation succeeds (the only refusals are the documented ones: anonymous operations, subscriptions with a
   synchronous client, colliding file names, malformed @mixin arguments) and never dies with an internal error.
   Every emitted module is valid Python that imports cleanly with all pydantic models fully built and every
   referenced enum, input, fragment, scalar, mixin and base class resolvable; the package __init__ re-exports
   exactly the names in __all__, and the reported file list is the set of files written."

  Model: Model/Package.lean (`runPackage`: main.client's loop + PackageGenerator.generate, composed from the
  component models of C01/C03/C06/C08/C09/C18), Model/PackageTriggers.lean (the finding triggers, `Supported_04`),
  Spec/PyScope.lean (`WellScoped`: what CPython's import needs of the package IR as far as names are concerned —
  *modelled, validated against the real import by harness/c04.py, not verified*).  The formatter
  (`utils.ast_to_str` = unparse → autoflake → isort → black) is a parameter `fmt : FmtOracle`; CPython's grammar,
  the import system and pydantic's class construction are NOT modelled (oracle only).

  What is proved here, for ALL inputs (no bound on the number / size of types, operations, fragments):
    files_reported_eq_written   the reported list is the sorted write log; one module per file on disk; on disk = write
                                log; reported = directory listing iff no file was written twice (and no plugin wrote behind
                                the generator's back)
    init_all_exact              `__all__` = sorted names `__init__` imports, and those are, in order: the exception names,
                                the public names of every operation module, of input_types, of fragments, the base client,
                                BaseModel, Upload, the client class, every emitted enum
    refusal_origin              every exception that escapes a run is raised by add_operation (anonymous operation, the
                                result-type generator, add_method), by the unique-name check, by the formatter, by the input
                                types generator or by the fragments generator — nothing else
    refused_before_write …      the refusals raised while the operations are added or by the unique-name check happen before
                                the directory exists; a malformed @mixin on a FRAGMENT definition is refused after writes
    generate_total_partial      valid input + accepting formatter + the result-type / fragment generators refusing only with
                                documented refusals (C01/C08's models; hypotheses, not proved) ⇒ the run ends in a package or a
                                documented refusal
    ONE THEOREM PER MODULE KIND (Valid ∧ Supported_04, every schema / operation set / fragment set / configuration):
      enums_module_wellscoped      enums.py: all of `residualParts`
      inputs_module_wellscoped     input_types.py: all of `residualParts` (imports resolve; every annotation / default name is
                                   a builtin or imported; forward references name classes the dependency closure keeps)
      client_module_wellscoped     client.py: all of `residualParts` (every result class / input / enum / scalar a method
                                   mentions is imported from a module that defines it)
      init_module_wellscoped       __init__.py: every `from .m import names` names a module that defines the names
      result_module_wellscoped     an operation module: all of `residualParts` (imports resolve: enums, fragment classes,
                                   scalars, @mixin; every base and every annotation name is bound; rebuild calls name classes of
                                   the module: `result_module_parts`; forward references: outside finding region F25)
      fragments_module_wellscoped  fragments.py: the same, and every class is defined before the classes inheriting from it
      forward_refs_resolve         the finding region `forwardRefDangling` (F25) lies outside the decidable region `leafNamesOK`
                                   (no field name selected as a leaf names a composite-typed field of any type of the schema):
                                   there the quoted forward references of operation modules and fragments.py name classes of the
                                   module, whatever the nesting, the fragments, the type a selection set is evaluated for
      copied_modules_verbatim      copied files / custom-operation modules: `WellScoped` asks nothing of them (oracle only)
    generated_wellscoped        Valid ∧ Supported_04 ⇒ WellScoped (no evaluated conjunct): the finding triggers are EXACTLY the
                                parts identsOK / paramsDistinct / enumMembersOK / bindingsUnique / rebuilt / forward references of
                                the result modules; `allOK` for every input; the rest is the per-module theorems
    import_autoflake_safe       pruning unused imports never removes a name the module uses
  `C04_full` is false on the pinned tree (`C04_full_false`, kernel-evaluated witnesses through the whole model);
  `C04_partial` = the property under Valid ∧ Supported_04 ∧ Proved_04.  `Proved_04` (decidable, evaluated by the driver
  on every case, measured in the evidence) is what is still OPEN, and nothing else: when the model's run ends in an
  exception, that it is a documented refusal (totality of the result-type and fragments generator models: the two named
  hypotheses of `generate_total_partial`).  For a run that ends in a package `Proved_04` is `True`.  `model_run_total`
  reduces it to ONE hypothesis: `Valid ∧ Supported_04 ∧ ResultTypesTotal ⇒ Proved_04` — the fragments generator (topological
  sort, class lookup, rebuild calls), the input-types generator, `add_method` and the package-level code raise nothing of
  their own (`C04_partial_of_total`).
  Found by these proofs (each forced a hypothesis, the real generator fails at the excluded point): F23
  `operationModuleOverwritten`, F24 `enumDefaultNotEnum`, F25 `forwardRefDangling` (a VALID document whose package does not
  import: the general statement "forward references resolve" is false, `F25_fails_in_model`); and a repair of the reference
  reading (names inside a `lambda:` body are not evaluated when the class statement runs: `ClassIR.lazy`).
-/
import AriadneModel.Model.Package
import AriadneModel.Model.PackageTriggers
import AriadneModel.Model.PackageValid
import AriadneModel.Spec.PyScope
import AriadneModel.Spec.Validate
import AriadneModel.Proofs.C04Lists
import AriadneModel.Proofs.C04Steps
import AriadneModel.Proofs.C04Init
import AriadneModel.Proofs.C04Errors
import AriadneModel.Proofs.C04Scope
import AriadneModel.Proofs.C04Rebuild
import AriadneModel.Proofs.C04ModEnums
import AriadneModel.Proofs.C04ModInputs3
import AriadneModel.Proofs.C04ModClient
import AriadneModel.Proofs.C04ModResult2
import AriadneModel.Proofs.C04ModInit
import AriadneModel.Proofs.C04Fwd2
import AriadneModel.Proofs.C04Total2
import AriadneModel.Proofs.C04Defs
import AriadneModel.Proofs.C04WitnessA
import AriadneModel.Proofs.C04WitnessB
import AriadneModel.Proofs.C04WitnessC
import AriadneModel.Proofs.C04WitnessD

set_option linter.unusedSimpArgs false
set_option linter.unusedVariables false

namespace Ariadne.C04
open Ariadne Ariadne.Gql Ariadne.Util Ariadne.Package Ariadne.PackageTriggers Ariadne.PackageValid Ariadne.Spec.PyScope Ariadne.C04Proofs
open Ariadne.ResultTypes (GenErr)

/-! ## 0. Vocabulary -/

/-- the formatter accepts every module (true of black on the modules emitted outside the finding regions: validated
    by the correspondence, not proved) -/
def FmtTotal (fmt : FmtOracle) : Prop := ∀ m, fmt m = true

/-- the conjuncts of `Valid` -/
theorem Valid.parts {cfg : Config} {inp : Input} (h : Valid cfg inp) :
    namesOK inp = true ∧ docValid inp = true ∧ varsTyped inp = true ∧ inputFieldsTyped cfg inp = true ∧
    cfgOK cfg = true ∧ mixinsOK cfg inp = true ∧ defsMatch inp = true ∧ fragsAcyclic inp = true := by
  unfold Valid validB at h
  simp only [Bool.and_eq_true] at h
  obtain ⟨⟨⟨⟨⟨⟨⟨h1, h2⟩, h3⟩, h4⟩, h5⟩, h6⟩, h7⟩, h8⟩ := h
  exact ⟨h1, h2, h3, h4, h5, h6, h7, h8⟩

theorem Valid.vars {cfg : Config} {inp : Input} (h : Valid cfg inp) :
    ∀ o ∈ inp.ops, ∀ v ∈ o.vars, isInputKind ((argEnv cfg inp).kind v.type.base) = true := by
  obtain ⟨_, _, h3, _⟩ := h.parts
  intro o ho v hv
  exact List.all_eq_true.mp (List.all_eq_true.mp h3 o ho) v hv

theorem Valid.inputs {cfg : Config} {inp : Input} (h : Valid cfg inp) : InputFieldsTyped cfg inp := by
  obtain ⟨_, _, _, h4, _⟩ := h.parts
  intro d hd n fs hdn f hf
  have := List.all_eq_true.mp h4 d hd
  subst hdn
  exact List.all_eq_true.mp this f hf

/-! ## 1. The reported file list is the set of files written -/

theorem generatePackage_ok {fmt : FmtOracle} {e : Order.EnumOracle} {cfg : Config} {inp : Input} {fl : Nat} {p : PackageIR}
    (h : generatePackage fmt e cfg inp fl = .ok p) :
    ∃ st g, addOperations cfg inp fl {} inp.ops = .ok st ∧ hasDup (checkedFileNames cfg (st.files.map (·.1))) = false ∧
      generateSteps fmt e cfg inp fl st (genSt0 cfg st) = .ok g ∧ p = packageOf cfg g ∧
      (runPackage fmt e cfg inp fl).written = g.log ++ extraWritesOf cfg := by
  unfold generatePackage at h
  rcases runPackage_cases fmt e cfg inp fl with ⟨e1, _, hr⟩ | ⟨st, _, _, hr⟩ | ⟨st, g, e1, _, _, _, hr⟩ | ⟨st, g, ha, hd, hg, hr⟩
  · rw [hr] at h; simp at h
  · rw [hr] at h; simp at h
  · rw [hr] at h; simp at h
  · rw [hr] at h
    simp only [Except.ok.injEq] at h
    exact ⟨st, g, ha, hd, hg, h.symm, by rw [hr]⟩

/-- **files_reported_eq_written**, for every input, formatter, enumeration: when `generate()` returns, the reported list
    is the sorted write log; what was written is the write log (plus what a plugin wrote itself); there is exactly one
    module per file name on disk and the names on disk are the names of the write log; and the reported list IS the
    directory listing exactly when no file was written twice — given that no plugin wrote behind the generator's back,
    which by itself makes the two differ. -/
theorem files_reported_eq_written (fmt : FmtOracle) (e : Order.EnumOracle) (cfg : Config) (inp : Input) (fl : Nat) (p : PackageIR)
    (h : generatePackage fmt e cfg inp fl = .ok p) :
    p.reported = sortStr p.writeLog ∧
    (runPackage fmt e cfg inp fl).written = p.writeLog ++ p.extraWrites ∧
    (p.modules.map (·.file)).Nodup ∧ (∀ f, f ∈ p.modules.map (·.file) ↔ f ∈ p.writeLog) ∧
    (p.extraWrites = [] → (p.reported = p.onDisk ↔ p.writeLog.Nodup)) ∧
    (∀ f ∈ p.extraWrites, f ∉ p.writeLog → p.reported ≠ p.onDisk) := by
  obtain ⟨st, g, _, _, hg, rfl, hw⟩ := generatePackage_ok h
  have inv := (generateSteps_files fmt e cfg inp fl st).1 g hg
  refine ⟨rfl, hw, inv.nodup, inv.mem, ?_, ?_⟩
  · intro hx
    show sortStr g.log = sortedSet (g.log ++ extraWritesOf cfg) ↔ _
    have hx' : extraWritesOf cfg = [] := hx
    rw [hx', List.append_nil]
    constructor
    · intro heq; exact (sortedSet_eq_sortStr_iff g.log).mp heq.symm
    · intro hn; exact ((sortedSet_eq_sortStr_iff g.log).mpr hn).symm
  · intro f hf hnot heq
    have h1 : f ∈ (packageOf cfg g).onDisk := (mem_sortedSet f _).mpr (List.mem_append.mpr (Or.inr hf))
    rw [← heq] at h1
    exact hnot ((OpTextProofs.mem_sortStr f _).mp h1)

/-- outside the triggers `fileWrittenTwice` (F13) and `pluginExtractOperations` (F11) the reported list is the directory listing -/
theorem reported_eq_listing {cfg : Config} {inp : Input} {p : PackageIR} (hp : modelIR cfg inp = some p)
    (hs : Supported_04 cfg inp) : p.reported = p.onDisk := by
  have h1 : trigFileWrittenTwice p = false := onIR_off hp (trigger_off hs (n := "fileWrittenTwice") (by simp [triggerTable]))
  have h2 : cfg.extractOps.isSome = false := trigger_off hs (n := "pluginExtractOperations") (by simp [triggerTable])
  have hgen : generatePackage (fun _ => true) id cfg inp Package.fuel = .ok p := by
    unfold modelIR modelRun at hp
    unfold generatePackage
    cases ho : (runPackage (fun _ => true) id cfg inp).outcome with
    | error e1 => rw [ho] at hp; simp at hp
    | ok q => rw [ho] at hp; simp only [Option.some.injEq] at hp; rw [hp]
  obtain ⟨_, _, _, _, h5, _⟩ := files_reported_eq_written _ _ cfg inp _ p hgen
  obtain ⟨st, g, _, _, _, rfl, _⟩ := generatePackage_ok hgen
  have hx : (packageOf cfg g).extraWrites = [] := by
    show extraWritesOf cfg = []
    unfold extraWritesOf
    cases hc : cfg.extractOps with
    | none => rfl
    | some m => rw [hc] at h2; simp at h2
  exact (h5 hx).mpr ((hasDup_eq_false_iff _).mp h1)

/-! ## 2. `__init__` re-exports exactly the names in `__all__` -/

theorem initAll_spec (is : List Import) : initAll is = if is.isEmpty then none else some (sortStr (importedNames is)) := rfl

/-- **init_all_exact**, for every input, formatter, enumeration: when `generate()` returns, every `__init__` module on disk
    carries `__all__` = the sorted list of the names it imports (`allOK`); the module written last IS `__init__`, it imports
    `finalInit` and nothing else, and the names it imports are, in this order: the exception names (bundled base clients
    only), the public names of the generator of every operation module, of the input types module, of the fragments module
    (when one is written), the base client class, `BaseModel`, `Upload`, the client class, and every emitted enum class. -/
theorem init_all_exact (fmt : FmtOracle) (e : Order.EnumOracle) (cfg : Config) (inp : Input) (fl : Nat) (p : PackageIR)
    (h : generatePackage fmt e cfg inp fl = .ok p) :
    (∀ m ∈ p.modules, allOK m = true) ∧
    ∃ st io fo, addOperations cfg inp fl {} inp.ops = .ok st ∧ inputsModule cfg inp.defs st.argSt.usedInputs = .ok io ∧
      FragmentsRan e cfg inp fl st fo ∧
      initModule (finalInit cfg inp st io fo) ∈ p.modules ∧
      (initModule (finalInit cfg inp st io fo)).all = some (sortStr (importedNames (finalInit cfg inp st io fo))) ∧
      importedNames (finalInit cfg inp st io fo) =
        importedNames st.init ++ (if cfg.defaultBaseClient then Tables.exceptionsNames else []) ++ io.publicNames ++ fragmentNames fo
          ++ [cfg.baseClientName] ++ ["BaseModel", Tables.uploadClassName] ++ [cfg.clientName]
          ++ (enumsModule cfg inp.schema (st.usedEnums ++ io.usedEnums ++ fragmentEnums fo ++ st.argSt.usedEnums)).classes.map (·.name) := by
  obtain ⟨st, g, ha, _, hg, rfl, _⟩ := generatePackage_ok h
  refine ⟨generateSteps_allOK ha hg, ?_⟩
  obtain ⟨io, fo, hio, hfo, _, hmem⟩ := generateSteps_init hg
  refine ⟨st, io, fo, ha, hio, hfo, hmem, ?_, ?_⟩
  · have hne : (finalInit cfg inp st io fo).isEmpty = false := by
      cases hl : finalInit cfg inp st io fo with
      | cons a l => rfl
      | nil =>
        have hn := importedNames_finalInit cfg inp st io fo
        rw [hl] at hn
        simp [importedNames] at hn
    show initAll (finalInit cfg inp st io fo) = _
    rw [initAll_spec, hne]
    rfl
  · rw [importedNames_finalInit, importedNames_init0]

/-- what `add_operation` contributed to `__init__`: one `from .<module> import <public names>` per operation whose
    generator produced a class, in document order -/
def opImports (outs : List Fragments.DefGen) : List Import :=
  outs.foldl (fun is g => initAdd is g.out.st.publicNames (methodName g.name)) []

theorem addOperations_init {cfg : Config} {inp : Input} {fl : Nat} :
    ∀ (ops : List OpIn) (st st' : St), addOperations cfg inp fl st ops = .ok st' →
      ∃ more, st'.outs = st.outs ++ more ∧ st'.init = more.foldl (fun is g => initAdd is g.out.st.publicNames (methodName g.name)) st.init
  | [], st, st', h => by simp [addOperations] at h; subst h; exact ⟨[], by simp, rfl⟩
  | o :: rest, st, st', h => by
    simp only [addOperations] at h
    cases ha : addOperation cfg inp fl st o with
    | error e1 => rw [ha] at h; simp at h
    | ok st1 =>
      rw [ha] at h
      obtain ⟨more, h1, h2⟩ := addOperations_init rest st1 st' h
      unfold addOperation at ha
      cases hn : o.op.name with
      | none => rw [hn] at ha; simp at ha
      | some n =>
        rw [hn] at ha
        simp only at ha
        cases hgen : ResultTypes.generate (rtEnv cfg inp) fl (.op o.op) st.marks with
        | error e1 => rw [hgen] at ha; simp at ha
        | ok out =>
          rw [hgen] at ha
          simp only at ha
          cases hmth : ClientMethod.addMethod (argEnv cfg inp) (opType o.op.kind) (some n) o.vars (methodName n) (ResultTypes.pascal n) o.text cfg.async st.argSt with
          | error e2 => rw [hmth] at ha; simp at ha
          | ok r =>
            rw [hmth] at ha
            obtain ⟨mm, a⟩ := r
            simp only [Except.ok.injEq] at ha
            subst ha
            refine ⟨⟨n, out⟩ :: more, by simpa using h1, ?_⟩
            simpa using h2

/-- the operations' part of `__init__`, in closed form -/
theorem init_operations {cfg : Config} {inp : Input} {fl : Nat} {st : St} (h : addOperations cfg inp fl {} inp.ops = .ok st) :
    st.init = opImports st.outs := by
  obtain ⟨more, h1, h2⟩ := addOperations_init inp.ops {} st h
  have : st.outs = more := by simpa using h1
  rw [h2, this]
  rfl

/-! ## 3. Totality: where exceptions come from, which are documented, what has been written -/

/-- **refusal_origin**, for every input: an exception that escapes a run was raised by `add_operation` (an anonymous
    operation; the result-type generator of an operation; `add_method`), by `_validate_unique_file_names`, or inside
    `generate()` by the formatter, the input types generator or the fragments generator.  There is no other source. -/
theorem refusal_origin (fmt : FmtOracle) (e : Order.EnumOracle) (cfg : Config) (inp : Input) (fl : Nat) (err : GenErr)
    (h : (runPackage fmt e cfg inp fl).outcome = .error err) :
    OpsErr cfg inp fl err ∨ err = .parsing "Duplicated file names" ∨
      ∃ st, addOperations cfg inp fl {} inp.ops = .ok st ∧ StepsErr fmt e cfg inp fl st err :=
  run_error_origin h

/-- **refused_before_write**: an exception raised while the operations are added, or by the unique-name check, leaves
    neither a directory nor a file behind (the code guarantees it: `generate()` has not made the directory yet). -/
theorem refused_before_write (fmt : FmtOracle) (e : Order.EnumOracle) (cfg : Config) (inp : Input) (fl : Nat)
    (h : (∃ err, addOperations cfg inp fl {} inp.ops = .error err) ∨
         (∃ st, addOperations cfg inp fl {} inp.ops = .ok st ∧ hasDup (checkedFileNames cfg (st.files.map (·.1))) = true)) :
    (runPackage fmt e cfg inp fl).mkdir = false ∧ (runPackage fmt e cfg inp fl).written = [] ∧
      ∃ err, (runPackage fmt e cfg inp fl).outcome = .error err :=
  C04Proofs.refused_before_write h

/-- an anonymous operation anywhere in the document: refused, nothing written -/
theorem anonymous_refused_before_write (fmt : FmtOracle) (e : Order.EnumOracle) (cfg : Config) (inp : Input) (fl : Nat)
    (h : ∃ o ∈ inp.ops, o.op.name = none) :
    (runPackage fmt e cfg inp fl).mkdir = false ∧ (runPackage fmt e cfg inp fl).written = [] ∧
      ∃ err, (runPackage fmt e cfg inp fl).outcome = .error err :=
  C04Proofs.refused_before_write (Or.inl (addOperations_anonymous inp.ops {} h))

/-- a subscription with a synchronous client: refused, nothing written -/
theorem sync_subscription_refused_before_write (fmt : FmtOracle) (e : Order.EnumOracle) (cfg : Config) (inp : Input) (fl : Nat)
    (hs : cfg.async = false) (h : ∃ o ∈ inp.ops, o.op.kind = .subscription) :
    (runPackage fmt e cfg inp fl).mkdir = false ∧ (runPackage fmt e cfg inp fl).written = [] ∧
      ∃ err, (runPackage fmt e cfg inp fl).outcome = .error err :=
  C04Proofs.refused_before_write (Or.inl (addOperations_sync_subscription hs inp.ops {} h))

/-- the result-type generator (C01 / C08's model) refuses a definition of this input only with a documented refusal -/
def ResultTypesTotal (cfg : Config) (inp : Input) (fl : Nat) : Prop :=
  ∀ (d : ResultTypes.Definition) (marks : List Nat) (err : GenErr),
    ((∃ o ∈ inp.ops, d = .op o.op) ∨ (∃ f ∈ inp.frags, d = .frag f)) →
    ResultTypes.generate (rtEnv cfg inp) fl d marks = .error err → documentedRefusal err = true

/-- the fragments generator (C08's model) raises nothing of its own (KeyError / ValueError of the sort and of the rebuild
    calls) and passes on only documented refusals of the result-type generator -/
def FragmentsTotal (e : Order.EnumOracle) (cfg : Config) (inp : Input) (fl : Nat) : Prop :=
  ∀ (names : List String) (marks : List Nat) (err : Fragments.Err),
    (Fragments.genFragments (rtEnv cfg inp) fl names marks = .error err ∨
     Fragments.generateFragments e (rtEnv cfg inp) fl names marks = .error err) → documentedRefusal (ofFragErr err) = true

/-- **generate_total_partial**: for a valid input (variables and input fields declared with input types), an accepting
    formatter, and component generators that refuse only with documented refusals, the run ends in a package or in one of
    the documented refusals — never in an internal error.  The package-level code adds no failure of its own: the only
    exceptions it raises itself are "Query without name." and "Duplicated file names"; `add_method` raises only the
    documented subscription refusal; the input types generator raises nothing (its dependency closure terminates on every
    graph). -/
theorem generate_total_partial (fmt : FmtOracle) (e : Order.EnumOracle) (cfg : Config) (inp : Input) (fl : Nat)
    (hv : Valid cfg inp) (hf : FmtTotal fmt) (hr : ResultTypesTotal cfg inp fl) (hfr : FragmentsTotal e cfg inp fl) :
    (∃ p, (runPackage fmt e cfg inp fl).outcome = .ok p) ∨
    (∃ err, (runPackage fmt e cfg inp fl).outcome = .error err ∧ documentedRefusal err = true) := by
  cases ho : (runPackage fmt e cfg inp fl).outcome with
  | ok p => exact Or.inl ⟨p, rfl⟩
  | error err =>
    refine Or.inr ⟨err, rfl, ?_⟩
    rcases run_error_origin ho with h | h | ⟨st, _, h⟩
    · cases h with
      | anonymous o _ _ => rfl
      | resultTypes o marks err ho' hg => exact hr _ marks err (Or.inl ⟨o, ho', rfl⟩) hg
      | method o n ast aerr ho' hn hm =>
        obtain ⟨rfl, _, _⟩ := addMethod_error_documented (hv.vars o ho') hm
        rfl
    · subst h; rfl
    · cases h with
      | formatter m hm => rw [hf m] at hm; cases hm
      | inputs err hi =>
        obtain ⟨io, hio⟩ := inputsModule_ok hv.inputs st.argSt.usedInputs
        rw [hio] at hi; cases hi
      | fragments names ferr hfe => exact hfr names st.marks ferr hfe

/-! ## 4. Well-scopedness -/

theorem modelIR_generate {cfg : Config} {inp : Input} {p : PackageIR} (hp : modelIR cfg inp = some p) :
    generatePackage (fun _ => true) id cfg inp Package.fuel = .ok p := by
  unfold modelIR modelRun at hp
  unfold generatePackage
  cases ho : (runPackage (fun _ => true) id cfg inp).outcome with
  | error e1 => rw [ho] at hp; simp at hp
  | ok q => rw [ho] at hp; simp only [Option.some.injEq] at hp; rw [hp]

/-- the finding regions are exact for the parts they are about: with the trigger off the part holds, for every module
    of the model's package -/
theorem trigger_parts {cfg : Config} {inp : Input} {p : PackageIR} (hp : modelIR cfg inp = some p) (hs : Supported_04 cfg inp)
    {m : ModuleIR} (hm : m ∈ p.modules) (hg : generated m = true) :
    identsOK m = true ∧ paramsDistinct m = true ∧ enumMembersOK m = true ∧ bindingsUnique m = true ∧
      (m.classes.all fun c => c.fwd.isEmpty || m.rebuilds.contains c.name) = true := by
  have off (n : String) (f : PackageIR → Bool) (hmem : (n, onIR cfg inp f) ∈ triggerTable cfg inp) : f p = false :=
    onIR_off hp (trigger_off hs hmem)
  exact ⟨identsOK_of_off hm hg (off "identNotPython" _ (by simp [triggerTable])) (off "identKeyword" _ (by simp [triggerTable])),
    paramsDistinct_of_off hm (off "duplicateParam" _ (by simp [triggerTable])),
    enumMembersOK_of_off hm (off "enumMemberReserved" _ (by simp [triggerTable])) (off "enumMemberDuplicate" _ (by simp [triggerTable])),
    bindingsUnique_of_off hm hg (off "nameBoundTwice" _ (by simp [triggerTable])),
    rebuilt_of_off hm (off "missingRebuild" _ (by simp [triggerTable]))⟩

/-! ### 4a. The run behind the model's package -/

theorem supported_off {cfg : Config} {inp : Input} (hs : Supported_04 cfg inp) {n : String} {b : Bool}
    (hm : (n, b) ∈ triggerTable cfg inp) : b = false := trigger_off hs hm

/-- what a trigger-free, valid input gives every per-module theorem: the operations were added, the unique-name check
    passed, `generate()` returned, and every module it wrote is on disk exactly once -/
theorem facts_of_supported {cfg : Config} {inp : Input} {p : PackageIR} (hp : modelIR cfg inp = some p) (hs : Supported_04 cfg inp) :
    ∃ st io fx, Facts cfg inp p st io fx :=
  facts_of_model hp (onIR_off hp (supported_off hs (n := "fileWrittenTwice") (by simp [triggerTable])))

theorem unpacked_off {cfg : Config} {inp : Input} (hs : Supported_04 cfg inp) :
    Fragments.trigUnpackedAndInherited id (rtEnv cfg inp) Package.fuel (inp.ops.map (·.op)) = false := by
  have h := supported_off hs (n := "unpackedAndInherited")
    (b := Triggers01.trigMixinAndUnpacked (Triggers01.run (t01Input cfg inp)) ||
      Fragments.trigUnpackedAndInherited id (rtEnv cfg inp) Package.fuel (inp.ops.map (·.op))) (by simp [triggerTable])
  simp only [Bool.or_eq_false_iff] at h
  exact h.2

theorem overwritten_off {cfg : Config} {inp : Input} (hs : Supported_04 cfg inp) : trigOperationModuleOverwritten cfg inp = false :=
  supported_off hs (n := "operationModuleOverwritten") (by simp [triggerTable])

theorem enumDefault_off {cfg : Config} {inp : Input} (hs : Supported_04 cfg inp) : trigEnumDefaultNotEnum cfg inp = false :=
  supported_off hs (n := "enumDefaultNotEnum") (by simp [triggerTable])

/-! ### 4b. One theorem per module kind.  `residualParts` = imports resolve ∧ class statements / method signatures find
    every name they evaluate ∧ quoted forward references name something of the module ∧ rebuild calls name classes of the
    module.  For every schema, operation set, fragment set and configuration in `Valid ∧ Supported_04`, no size bound. -/

/-- **enums.py** -/
theorem enums_module_wellscoped (cfg : Config) (inp : Input) (p : PackageIR) (hp : modelIR cfg inp = some p)
    (hs : Supported_04 cfg inp) : ∀ m ∈ p.modules, m.kind = .enums → residualParts p m = true := by
  obtain ⟨st, io, fx, F⟩ := facts_of_supported hp hs
  have I := opsInv_of F.ops
  intro m hm hk
  rcases written_cases (F.only m hm) with rfl | ⟨fm, hfm, rfl⟩ | ⟨fo, gens, _, rfl⟩ | h | h | rfl | rfl | rfl
  · rw [inputsModule_kind F.inputs] at hk; cases hk
  · obtain ⟨g, _, _, hmod⟩ := I.files fm hfm
    rw [hmod] at hk; cases hk
  · cases hk
  · rw [h] at hk; cases hk
  · rw [h] at hk; cases hk
  · cases hk
  · exact enumsModule_residual p cfg inp.schema _
  · cases hk

/-- **input_types.py** -/
theorem inputs_module_wellscoped (cfg : Config) (inp : Input) (p : PackageIR) (hp : modelIR cfg inp = some p)
    (hv : Valid cfg inp) (hs : Supported_04 cfg inp) : ∀ m ∈ p.modules, m.kind = .inputs → residualParts p m = true := by
  obtain ⟨st, io, fx, F⟩ := facts_of_supported hp hs
  obtain ⟨hn, _, _, _, hc, _, hdm, _⟩ := hv.parts
  have I := opsInv_of F.ops
  intro m hm hk
  rcases written_cases (F.only m hm) with rfl | ⟨fm, hfm, rfl⟩ | ⟨fo, gens, _, rfl⟩ | h | h | rfl | rfl | rfl
  · exact inputs_residual F hc hdm hn (enumDefault_off hs)
  · obtain ⟨g, _, _, hmod⟩ := I.files fm hfm
    rw [hmod] at hk; cases hk
  · cases hk
  · rw [h] at hk; cases hk
  · rw [h] at hk; cases hk
  · cases hk
  · cases hk
  · cases hk

/-- **client.py**: every result class / input / enum / scalar a method mentions is imported, every import resolves -/
theorem client_module_wellscoped (cfg : Config) (inp : Input) (p : PackageIR) (hp : modelIR cfg inp = some p)
    (hv : Valid cfg inp) (hs : Supported_04 cfg inp) : ∀ m ∈ p.modules, m.kind = .client → residualParts p m = true := by
  obtain ⟨st, io, fx, F⟩ := facts_of_supported hp hs
  obtain ⟨hn, _, _, _, hc, _, hdm, _⟩ := hv.parts
  have I := opsInv_of F.ops
  intro m hm hk
  rcases written_cases (F.only m hm) with rfl | ⟨fm, hfm, rfl⟩ | ⟨fo, gens, _, rfl⟩ | h | h | rfl | rfl | rfl
  · rw [inputsModule_kind F.inputs] at hk; cases hk
  · obtain ⟨g, _, _, hmod⟩ := I.files fm hfm
    rw [hmod] at hk; cases hk
  · cases hk
  · rw [h] at hk; cases hk
  · rw [h] at hk; cases hk
  · exact client_residual F hc hdm hn (overwritten_off hs)
  · cases hk
  · cases hk

/-- **`__init__.py`** -/
theorem init_module_wellscoped (cfg : Config) (inp : Input) (p : PackageIR) (hp : modelIR cfg inp = some p)
    (hv : Valid cfg inp) (hs : Supported_04 cfg inp) : ∀ m ∈ p.modules, m.kind = .init → residualParts p m = true := by
  obtain ⟨st, io, fx, F⟩ := facts_of_supported hp hs
  obtain ⟨_, _, _, _, hc, _, _, _⟩ := hv.parts
  have I := opsInv_of F.ops
  intro m hm hk
  rcases written_cases (F.only m hm) with rfl | ⟨fm, hfm, rfl⟩ | ⟨fo, gens, _, rfl⟩ | h | h | rfl | rfl | rfl
  · rw [inputsModule_kind F.inputs] at hk; cases hk
  · obtain ⟨g, _, _, hmod⟩ := I.files fm hfm
    rw [hmod] at hk; cases hk
  · cases hk
  · rw [h] at hk; cases hk
  · rw [h] at hk; cases hk
  · cases hk
  · cases hk
  · exact init_residual F hc (overwritten_off hs)

/-- **an operation module** (`<operation>.py`): imports resolve (enums from the enums module, fragment classes from the
    fragments module, scalar and `@mixin` imports), every base class and every name an annotation evaluates is a class
    imported or a `typing` / `pydantic` name or a builtin, rebuild calls name classes of the module.  The quoted forward
    references are `Proved_04`'s business. -/
theorem result_module_parts (cfg : Config) (inp : Input) (p : PackageIR) (hp : modelIR cfg inp = some p)
    (hv : Valid cfg inp) (hs : Supported_04 cfg inp) : ∀ m ∈ p.modules, m.kind = .result →
      importsResolve p m = true ∧ classesLoad m = true ∧ (m.rebuilds.all (m.classes.map (·.name)).contains) = true := by
  obtain ⟨st, io, fx, F⟩ := facts_of_supported hp hs
  obtain ⟨_, _, _, _, hc, hmx, _, _⟩ := hv.parts
  intro m hm hk
  rcases written_cases (F.only m hm) with rfl | ⟨fm, hfm, rfl⟩ | ⟨fo, gens, _, rfl⟩ | h | h | rfl | rfl | rfl
  · rw [inputsModule_kind F.inputs] at hk; cases hk
  · exact result_residual_parts F hc hmx (unpacked_off hs) hfm
  · cases hk
  · rw [h] at hk; cases hk
  · rw [h] at hk; cases hk
  · cases hk
  · cases hk
  · cases hk

/-- **fragments.py**: as for an operation module, and every fragment class is defined before the classes that inherit
    from it (C08's topological order), for every enumeration the model's run uses -/
theorem fragments_module_parts (cfg : Config) (inp : Input) (p : PackageIR) (hp : modelIR cfg inp = some p)
    (hv : Valid cfg inp) (hs : Supported_04 cfg inp) : ∀ m ∈ p.modules, m.kind = .fragments →
      importsResolve p m = true ∧ classesLoad m = true ∧ (m.rebuilds.all (m.classes.map (·.name)).contains) = true := by
  obtain ⟨st, io, fx, F⟩ := facts_of_supported hp hs
  obtain ⟨_, _, _, _, hc, hmx, _, hac⟩ := hv.parts
  have I := opsInv_of F.ops
  intro m hm hk
  rcases written_cases (F.only m hm) with rfl | ⟨fm, hfm, rfl⟩ | ⟨fo, gens, hfx, rfl⟩ | h | h | rfl | rfl | rfl
  · rw [inputsModule_kind F.inputs] at hk; cases hk
  · obtain ⟨g, _, _, hmod⟩ := I.files fm hfm
    rw [hmod] at hk; cases hk
  · exact fragments_residual_parts F hc hmx hac hfx
  · rw [h] at hk; cases hk
  · rw [h] at hk; cases hk
  · cases hk
  · cases hk
  · cases hk

theorem dangling_off {cfg : Config} {inp : Input} {p : PackageIR} (hp : modelIR cfg inp = some p) (hs : Supported_04 cfg inp) :
    trigForwardRefDangling p = false :=
  onIR_off hp (supported_off hs (n := "forwardRefDangling") (by simp [triggerTable]))

/-- the finding region `forwardRefDangling` (F25) is exact for the part it is about: with the trigger off, the quoted forward
    references of every operation module and of `fragments.py` name something the module defines -/
theorem forwardRefs_of_off {p : PackageIR} {m : ModuleIR} (hm : m ∈ p.modules) (hk : m.kind = .result ∨ m.kind = .fragments)
    (h : trigForwardRefDangling p = false) : forwardRefsOK m = true := by
  have a := C04Proofs.of_any_false h hm
  have hkb : (m.kind == .result || m.kind == .fragments) = true := by
    rcases hk with hk | hk <;> simp [hk]
  simp only [hkb, Bool.true_and, Bool.not_eq_false'] at a
  exact a

/-- **the quoted forward references of the operation modules and of `fragments.py` resolve** for every input inside the
    decidable region `leafNamesOK` (no field name the document selects as a leaf names a composite-typed field of any type
    of the schema): every class an annotation quotes is generated by the recursion, whatever the nesting, the fragments,
    the type a selection set is evaluated for — the finding region `forwardRefDangling` (F25) lies outside `leafNamesOK`.
    (Outside it the statement is FALSE: `F25_fails_in_model`.) -/
theorem forward_refs_resolve (cfg : Config) (inp : Input) (p : PackageIR) (hp : modelIR cfg inp = some p)
    (hw : trigFileWrittenTwice p = false) (hl : leafNamesOK inp = true) : trigForwardRefDangling p = false := by
  obtain ⟨st, io, fx, F⟩ := facts_of_model hp hw
  have I := opsInv_of F.ops
  cases ht : trigForwardRefDangling p with
  | false => rfl
  | true =>
    exfalso
    obtain ⟨m, hm, hb⟩ := List.any_eq_true.mp ht
    simp only [Bool.and_eq_true, Bool.or_eq_true, beq_iff_eq, Bool.not_eq_true'] at hb
    obtain ⟨hk, hbad⟩ := hb
    have hgood : forwardRefsOK m = true := by
      rcases written_cases (F.only m hm) with rfl | ⟨fm, hfm, rfl⟩ | ⟨fo, gens, hfx, rfl⟩ | h | h | rfl | rfl | rfl
      · rw [inputsModule_kind F.inputs] at hk; rcases hk with hk | hk <;> cases hk
      · exact result_forwardRefs F hl hfm
      · exact fragments_forwardRefs F hl hfx
      · rw [h] at hk; rcases hk with hk | hk <;> cases hk
      · rw [h] at hk; rcases hk with hk | hk <;> cases hk
      · rcases hk with hk | hk <;> cases hk
      · rcases hk with hk | hk <;> cases hk
      · rcases hk with hk | hk <;> cases hk
    unfold forwardRefsOK at hgood
    rw [hgood] at hbad
    cases hbad

/-- the copied files (base client, `base_model.py`, `exceptions.py`, `files_to_include`) and the four custom-operation
    modules are not the generator's own output: `moduleOK` asks nothing of them (their import is the oracle's business) -/
theorem copied_modules_verbatim (p : PackageIR) (m : ModuleIR) (h : m.kind = .copied ∨ m.kind = .custom) : moduleOK p m = true := by
  unfold moduleOK generated
  rcases h with h | h <;> simp [h]

/-- every generated module of the model's package is of one of the six kinds above -/
theorem generated_kinds (m : ModuleIR) (h : generated m = true) :
    m.kind = .enums ∨ m.kind = .inputs ∨ m.kind = .client ∨ m.kind = .init ∨ m.kind = .result ∨ m.kind = .fragments := by
  unfold generated at h
  cases hk : m.kind <;> simp_all

/-- **an operation module**: all of `residualParts` — imports resolve (`result_module_parts`), class statements load, rebuild
    calls name classes of the module; the quoted forward references name classes of the module because the input lies
    outside the finding region `forwardRefDangling` (inside `leafNamesOK` that is a theorem: `forward_refs_resolve`) -/
theorem result_module_wellscoped (cfg : Config) (inp : Input) (p : PackageIR) (hp : modelIR cfg inp = some p)
    (hv : Valid cfg inp) (hs : Supported_04 cfg inp) : ∀ m ∈ p.modules, m.kind = .result → residualParts p m = true := by
  intro m hm hk
  obtain ⟨a, b, c⟩ := result_module_parts cfg inp p hp hv hs m hm hk
  exact residualParts_of a b (forwardRefs_of_off hm (Or.inl hk) (dangling_off hp hs)) c

/-- **fragments.py**: all of `residualParts` -/
theorem fragments_module_wellscoped (cfg : Config) (inp : Input) (p : PackageIR) (hp : modelIR cfg inp = some p)
    (hv : Valid cfg inp) (hs : Supported_04 cfg inp) : ∀ m ∈ p.modules, m.kind = .fragments → residualParts p m = true := by
  intro m hm hk
  obtain ⟨a, b, c⟩ := fragments_module_parts cfg inp p hp hv hs m hm hk
  exact residualParts_of a b (forwardRefs_of_off hm (Or.inr hk) (dangling_off hp hs)) c

/-- **generated_wellscoped**: for every valid input outside the finding regions the model's package is well scoped.  No
    part of `WellScoped` is left to evaluation: the finding triggers are exactly the parts identsOK / paramsDistinct /
    enumMembersOK / bindingsUnique / rebuilt / forward references of the result modules; `allOK` holds for every input;
    everything else is the per-module theorems above. -/
theorem generated_wellscoped (cfg : Config) (inp : Input) (p : PackageIR) (hp : modelIR cfg inp = some p)
    (hv : Valid cfg inp) (hs : Supported_04 cfg inp) : WellScoped p := by
  unfold WellScoped wellScopedB
  refine List.all_eq_true.mpr ?_
  intro m hm
  refine moduleOK_of_parts ?_
  intro hg
  obtain ⟨i1, i2, i3, i4, i5⟩ := trigger_parts hp hs hm hg
  have hres : residualParts p m = true := by
    rcases generated_kinds m hg with hk | hk | hk | hk | hk | hk
    · exact enums_module_wellscoped cfg inp p hp hs m hm hk
    · exact inputs_module_wellscoped cfg inp p hp hv hs m hm hk
    · exact client_module_wellscoped cfg inp p hp hv hs m hm hk
    · exact init_module_wellscoped cfg inp p hp hv hs m hm hk
    · exact result_module_wellscoped cfg inp p hp hv hs m hm hk
    · exact fragments_module_wellscoped cfg inp p hp hv hs m hm hk
  have hres' := hres
  unfold residualParts at hres'
  simp only [Bool.and_eq_true] at hres'
  obtain ⟨st, g, ha, _, hgs, rfl, _⟩ := generatePackage_ok (modelIR_generate hp)
  exact ⟨hres, rebuildsComplete_of i5 hres'.2, i2, i3, i1, i4, generateSteps_allOK ha hgs m hm⟩

/-- **import_autoflake_safe**: autoflake's pruning (as modelled: an imported name survives iff the module mentions it)
    never removes a name the module uses — every used name that some import statement binds is still bound afterwards. -/
theorem import_autoflake_safe (m : ModuleIR) (n : String) (hu : n ∈ m.usedNames)
    (hi : n ∈ importedNames (m.imports.map normImport)) : n ∈ importedNames m.effectiveImports := by
  unfold ModuleIR.effectiveImports
  simp only
  split
  · unfold importedNames at hi ⊢
    obtain ⟨i, hi1, hi2⟩ := List.mem_flatMap.mp hi
    refine List.mem_flatMap.mpr ⟨{ i with names := i.names.filter (m.usedNames ++ m.classes.map (·.name) ++ m.funcs).contains }, ?_, ?_⟩
    · refine List.mem_filter.mpr ⟨List.mem_map.mpr ⟨i, hi1, rfl⟩, ?_⟩
      have : n ∈ i.names.filter (m.usedNames ++ m.classes.map (·.name) ++ m.funcs).contains :=
        List.mem_filter.mpr ⟨hi2, by simp [hu]⟩
      cases hl : i.names.filter (m.usedNames ++ m.classes.map (·.name) ++ m.funcs).contains with
      | nil => rw [hl] at this; cases this
      | cons a l => simp
    · exact List.mem_filter.mpr ⟨hi2, by simp [hu]⟩
  · exact hi

/-- the `model_rebuild()` calls of an operation module are placed by ONE predicate: the package model's (kernel-evaluable)
    `classHasFwd` is the result-type model's `classHasForwardRefs`, so the module IR carries exactly `ModuleOut.rebuild` -/
theorem rebuild_placement_agrees (cfg : Config) (file : String) (env : ResultTypes.Env) (fl : Nat) (d : ResultTypes.Definition)
    (marks : List Nat) (out : ResultTypes.ModuleOut) (h : ResultTypes.generate env fl d marks = .ok out) :
    (resultModule cfg file out).rebuilds = out.rebuild :=
  resultModule_rebuilds cfg file env fl d marks out h

/-! ## 5. The partial theorem -/

theorem initExact_of {p : PackageIR} {is : List Import} (hm : initModule is ∈ p.modules) (hne : is.isEmpty = false) :
    initExactB p = true := by
  unfold initExactB
  refine List.any_eq_true.mpr ⟨initModule is, hm, ?_⟩
  simp [initModule]

/-- **C04 outside the finding triggers, inside the proved region**: for every configuration and every valid input the
    model's run ends in a documented refusal, or in a package that is well scoped, whose `__init__` carries the exact
    `__all__`, and whose reported file list is the directory listing. -/
theorem C04_partial (cfg : Config) (inp : Input) (hv : Valid cfg inp) (hs : Supported_04 cfg inp) (hpr : Proved_04 cfg inp) :
    Holds (modelRun cfg inp) := by
  unfold Holds holdsB
  cases ho : (modelRun cfg inp).outcome with
  | error err =>
    unfold Proved_04 provedB at hpr
    rw [ho] at hpr
    exact hpr
  | ok p =>
    have hp : modelIR cfg inp = some p := by unfold modelIR; rw [ho]
    have h1 := generated_wellscoped cfg inp p hp hv hs
    have h3 := reported_eq_listing hp hs
    obtain ⟨_, st, io, fo, _, _, _, hmem, _, hnames⟩ := init_all_exact _ _ cfg inp _ p (modelIR_generate hp)
    have hne : (finalInit cfg inp st io fo).isEmpty = false := by
      cases hl : finalInit cfg inp st io fo with
      | cons a l => rfl
      | nil => rw [hl] at hnames; simp [importedNames] at hnames
    simp only [Bool.and_eq_true, beq_iff_eq]
    exact ⟨⟨h1, initExact_of hmem hne⟩, h3⟩

/-! ## 5b. `Proved_04` from the totality of the result-type generator alone -/

/-- **model_run_total**: for a valid input outside the finding regions, `Proved_04` follows from ONE hypothesis — the
    result-type generator (C01 / C08's model) refuses the document's operations and fragments only with documented
    refusals.  The fragments generator adds no failure of its own (no KeyError / ValueError / fuel exhaustion in the
    topological sort, in the class lookup, in the rebuild calls), nor do the input-types generator, `add_method` and the
    package-level code. -/
theorem model_run_total (cfg : Config) (inp : Input) (hv : Valid cfg inp) (hs : Supported_04 cfg inp)
    (hr : ResultTypesTotal cfg inp Package.fuel) : Proved_04 cfg inp := by
  unfold Proved_04 provedB
  cases ho : (modelRun cfg inp).outcome with
  | ok p => rfl
  | error err =>
    simp only
    unfold modelRun at ho
    rcases runPackage_cases (fun _ => true) id cfg inp Package.fuel with ⟨e1, ha, hrun⟩ | ⟨st, _, _, hrun⟩ | ⟨st, g, e1, ha, _, hg, hrun⟩ | ⟨st, g, _, _, _, hrun⟩
    · rw [hrun] at ho
      simp only [Except.error.injEq] at ho
      subst ho
      have := addOperations_error inp.ops {} (fun _ h => h) ha
      cases this with
      | anonymous o _ _ => rfl
      | resultTypes o marks _ ho' hg => exact hr _ marks _ (Or.inl ⟨o, ho', rfl⟩) hg
      | method o n ast aerr ho' hn hm =>
        obtain ⟨rfl, _, _⟩ := addMethod_error_documented (hv.vars o ho') hm
        rfl
    · rw [hrun] at ho
      simp only [Except.error.injEq] at ho
      subst ho
      rfl
    · rw [hrun] at ho
      simp only [Except.error.injEq] at ho
      subst ho
      rcases generateSteps_true_error hg with hi | ⟨ferr, rfl, hf⟩
      · obtain ⟨io, hio⟩ := inputsModule_ok hv.inputs st.argSt.usedInputs
        rw [hio] at hi
        cases hi
      · obtain ⟨_, _, _, _, _, _, _, hac⟩ := hv.parts
        exact fragments_step_total hac (unpacked_off hs) ha
          (fun f hf mk e h => hr (.frag f) mk e (Or.inr ⟨f, hf, rfl⟩) h) ferr hf
    · rw [hrun] at ho
      cases ho

/-- **C04 outside the finding triggers, with the result-type generator total**: the evaluated conjunct `Proved_04` of
    `C04_partial` replaced by the one hypothesis it stands for -/
theorem C04_partial_of_total (cfg : Config) (inp : Input) (hv : Valid cfg inp) (hs : Supported_04 cfg inp)
    (hr : ResultTypesTotal cfg inp Package.fuel) : Holds (modelRun cfg inp) :=
  C04_partial cfg inp hv hs (model_run_total cfg inp hv hs hr)

/-! ## 6. The full statement is false on the pinned tree: kernel-evaluated witnesses through the whole model -/

/-- F4 in the model: the enum value `mro` becomes a member of `class E(str, Enum)`; the input is valid, the package is
    emitted, and it is not well scoped (`enums.py:enumMembersOK`) -/
theorem F4_fails_in_model : Valid {} W.enumMro ∧ ¬ Holds (modelRun {} W.enumMro) ∧ ¬ Supported_04 {} W.enumMro :=
  Witness.F4_fails_in_model

/-- F2 in the model: a valid operation with an inline fragment without type condition ends in `.internal "AttributeError"` -/
theorem F2_fails_in_model : Valid {} W.inlineNoType ∧ ¬ Holds (modelRun {} W.inlineNoType) ∧ ¬ Supported_04 {} W.inlineNoType :=
  Witness.F2_fails_in_model

/-- F10 in the model: `$self` becomes a second parameter `self` -/
theorem F10_fails_in_model : Valid {} W.selfParam ∧ ¬ Holds (modelRun {} W.selfParam) ∧ ¬ Supported_04 {} W.selfParam :=
  Witness.F10_fails_in_model

/-- F13 in the model: with custom operations, an operation called `custom_fields` has its module written twice: the
    reported list is not the directory listing -/
theorem F13_fails_in_model : Valid W.customCfg W.customClash ∧ ¬ Holds (modelRun W.customCfg W.customClash) ∧
    ¬ Supported_04 W.customCfg W.customClash :=
  Witness.F13_fails_in_model

/-- F15 in the model: the nested class `UFFriend` of fragments.py carries a forward reference and is not rebuilt -/
theorem F15_fails_in_model : Valid {} W.missingRebuild ∧ ¬ Holds (modelRun {} W.missingRebuild) ∧ ¬ Supported_04 {} W.missingRebuild :=
  Witness.F15_fails_in_model

/-- F12 in the model: a valid operation is refused with the undocumented ParsingError "Field name not found in type Node." -/
theorem F12_fails_in_model : Valid {} W.fieldLookup ∧ ¬ Holds (modelRun {} W.fieldLookup) ∧ ¬ Supported_04 {} W.fieldLookup :=
  Witness.F12_fails_in_model

/-- F14 in the model: an enum called `List` is imported into the operation module next to `typing.List` -/
theorem F14_fails_in_model : Valid {} W.enumList ∧ ¬ Holds (modelRun {} W.enumList) ∧ ¬ Supported_04 {} W.enumList :=
  Witness.F14_fails_in_model

/-- F9 in the model: operation A unpacks fragment AF, operation B inherits it: no fragments module is written, B's
    `from .fragments import AF` does not resolve -/
theorem F9_fails_in_model : Valid {} W.unpackedInherited ∧ ¬ Holds (modelRun {} W.unpackedInherited) ∧ ¬ Supported_04 {} W.unpackedInherited :=
  Witness.F9_fails_in_model

/-- F23 in the model: `fooBar` and `foo_bar` share the module `foo_bar.py`; the later operation's module replaces the earlier
    one, `__init__` still imports `FooBarA` from it -/
theorem F23_fails_in_model : Valid {} W.opsOverwritten ∧ ¬ Holds (modelRun {} W.opsOverwritten) ∧ ¬ Supported_04 {} W.opsOverwritten :=
  Witness.F23_fails_in_model

/-- F24 in the model: the default `FOO` of a scalar-typed input field is written `.FOO`: the class statement of `I`
    evaluates a name nothing binds -/
theorem F24_fails_in_model : Valid {} W.enumDefault ∧ ¬ Holds (modelRun {} W.enumDefault) ∧ ¬ Supported_04 {} W.enumDefault :=
  Witness.F24_fails_in_model

/-- F25 in the model: at the interface position `node` the class for `Team` (brought by the fragment on `Named`, not a sub type
    of `Node`) evaluates the leaf `id` against `Team`, where `id` is composite: `id: Optional["QNodeTeamId"]` quotes a class that
    is never generated.  The input is valid, and outside `leafNamesOK` (the leaf name `id` names the composite `Team.id`). -/
theorem F25_fails_in_model : Valid {} W.danglingRef ∧ ¬ Holds (modelRun {} W.danglingRef) ∧ ¬ Supported_04 {} W.danglingRef ∧
    leafNamesOK W.danglingRef = false :=
  Witness.F25_fails_in_model

/-- a malformed `@mixin` on a fragment definition is one of the documented refusals, but it is raised after writes -/
theorem mixin_on_fragment_refused_after_writes :
    (modelRun {} W.mixinOnFragment).written = ["input_types.py", "q.py"] ∧ (modelRun {} W.mixinOnFragment).mkdir = true ∧
    Holds (modelRun {} W.mixinOnFragment) :=
  Witness.mixin_on_fragment_refused_after_writes

theorem C04_full_false : ¬ C04_full := fun h => F4_fails_in_model.2.1 (h {} W.enumMro F4_fails_in_model.1)

/-- non-vacuity of `C04_partial`: a non-trivial input inside Valid ∧ Supported_04 ∧ Proved_04 (two operations, a shared
    fragment, an enum, a recursive input type), for the default configuration and for sync / no snake case / pruned inputs -/
example : W.okNontrivial :=
  Witness.ex5

/-- non-vacuity of `forward_refs_resolve`: the same input lies inside `leafNamesOK` (its package has a fragments module and
    operation modules with nested classes) -/
example : leafNamesOK W.okInput = true :=
  Witness.ex4

example : leafNamesOK W.leafAmbiguous = false ∧ Valid {} W.leafAmbiguous ∧ Supported_04 {} W.leafAmbiguous ∧ Proved_04 {} W.leafAmbiguous :=
  Witness.ex1

example : Valid W.syncCfg W.okInput ∧ Supported_04 W.syncCfg W.okInput ∧ Proved_04 W.syncCfg W.okInput :=
  Witness.ex2

/-- non-vacuity of `generate_total_partial`'s hypotheses on the documented refusals: an anonymous operation -/
example : W.anonymousRefused :=
  Witness.ex3

end Ariadne.C04
