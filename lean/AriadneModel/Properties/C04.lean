/-
  C04 — Every valid input generates, and what is generated loads.

  "For every valid schema, every set of named operations valid against it and every supported configuration,
   generation succeeds (the only refusals are the documented ones: anonymous operations, subscriptions with a
   synchronous client, colliding file names, malformed @mixin arguments) and never dies with an internal error.
   Every emitted module is valid Python that imports cleanly with all pydantic models fully built and every
   referenced enum, input, fragment, scalar, mixin and base class resolvable; the package __init__ re-exports
   exactly the names in __all__, and the reported file list is the set of files written."

  Model: Model/Package.lean (`runPackage`: main.client's loop + PackageGenerator.generate, composed from the
  component models of C01/C03/C06/C08/C09/C18), Model/PackageTriggers.lean (the finding triggers, `Supported_04`),
  Spec/PyScope.lean (`WellScoped`: what CPython's import needs of the package IR as far as names are concerned —
  *modelled, validated against the real import by harness/c04.py, not verified*).  The formatter
  (`utils.ast_to_str` = unparse → autoflake → isort → black) is a parameter `fmt : FmtOracle`; CPython's grammar,
  the import system and pydantic's class construction are NOT modelled (oracle only).

  What is proved here, for ALL inputs (no bound on the number / size of types, operations, fragments):
    files_reported_eq_written   the reported list is the sorted write log; one module per file on disk; on disk = write
                                log; reported = directory listing iff no file was written twice (and no plugin wrote behind
                                the generator's back)
    init_all_exact              `__all__` = sorted names `__init__` imports, and those are, in order: the exception names,
                                the public names of every operation module, of input_types, of fragments, the base client,
                                BaseModel, Upload, the client class, every emitted enum
    refusal_origin              every exception that escapes a run is raised by add_operation (anonymous operation, the
                                result-type generator, add_method), by the unique-name check, by the formatter, by the input
                                types generator or by the fragments generator — nothing else
    refused_before_write …      the refusals raised while the operations are added or by the unique-name check happen before
                                the directory exists; a malformed @mixin on a FRAGMENT definition is refused after writes
    generate_total_partial      valid input + accepting formatter + the result-type / fragment generators refusing only with
                                documented refusals (C01/C08's models) ⇒ the run ends in a package or a documented refusal
    generated_wellscoped        Supported_04 ∧ Proved_04 ⇒ WellScoped; the finding triggers are EXACTLY the parts
                                identsOK / paramsDistinct / enumMembersOK / bindingsUnique / rebuilt; `allOK` for every input
    import_autoflake_safe       pruning unused imports never removes a name the module uses
  `C04_full` is false on the pinned tree (`C04_full_false`, kernel-evaluated witnesses through the whole model);
  `C04_partial` = the property under Valid ∧ Supported_04 ∧ Proved_04.  `Proved_04` (decidable, evaluated by the driver
  on every case, measured in the evidence) is the unproved region: the model's own run ends in a package whose
  generated modules pass `Spec.PyScope.residualParts` (imports resolve, names bound before use, forward references and
  rebuild targets defined) or in a documented refusal.
-/
import AriadneModel.Model.Package
import AriadneModel.Model.PackageTriggers
import AriadneModel.Model.PackageValid
import AriadneModel.Spec.PyScope
import AriadneModel.Spec.Validate
import AriadneModel.Proofs.C04Lists
import AriadneModel.Proofs.C04Steps
import AriadneModel.Proofs.C04Init
import AriadneModel.Proofs.C04Errors
import AriadneModel.Proofs.C04Scope
import AriadneModel.Proofs.C04Rebuild

set_option linter.unusedSimpArgs false
set_option linter.unusedVariables false

namespace Ariadne.C04
open Ariadne Ariadne.Gql Ariadne.Util Ariadne.Package Ariadne.PackageTriggers Ariadne.PackageValid Ariadne.Spec.PyScope Ariadne.C04Proofs
open Ariadne.ResultTypes (GenErr)

/-! ## 0. Vocabulary -/

/-- the formatter accepts every module (true of black on the modules emitted outside the finding regions: validated
    by the correspondence, not proved) -/
def FmtTotal (fmt : FmtOracle) : Prop := ∀ m, fmt m = true

/-- a valid input: schema and document valid as `Spec/Validate` decides, names GraphQL names, variables and input fields
    declared with input types -/
def Valid (cfg : Config) (inp : Input) : Prop := validB cfg inp = true

instance (cfg : Config) (inp : Input) : Decidable (Valid cfg inp) := by unfold Valid; infer_instance

theorem Valid.vars {cfg : Config} {inp : Input} (h : Valid cfg inp) :
    ∀ o ∈ inp.ops, ∀ v ∈ o.vars, isInputKind ((argEnv cfg inp).kind v.type.base) = true := by
  unfold Valid validB at h
  simp only [Bool.and_eq_true] at h
  intro o ho v hv
  exact List.all_eq_true.mp (List.all_eq_true.mp h.1.2 o ho) v hv

theorem Valid.inputs {cfg : Config} {inp : Input} (h : Valid cfg inp) : InputFieldsTyped cfg inp := by
  unfold Valid validB at h
  simp only [Bool.and_eq_true] at h
  intro d hd n fs hdn f hf
  have := List.all_eq_true.mp h.2 d hd
  subst hdn
  exact List.all_eq_true.mp this f hf

/-- `__init__`: there is one, it is the module on disk under `__init__.py`, and its `__all__` is the sorted list of the
    names it imports -/
def initExactB (p : PackageIR) : Bool :=
  p.modules.any fun m => m.kind == .init && m.file == "__init__.py" && m.all == initAll m.imports

/-- what the property promises about one run -/
def holdsB (r : Run) : Bool :=
  match r.outcome with
  | .error err => documentedRefusal err
  | .ok p => wellScopedB p && initExactB p && p.reported == p.onDisk

def Holds (r : Run) : Prop := holdsB r = true

instance (r : Run) : Decidable (Holds r) := by unfold Holds; infer_instance

/-- **C04 at full strength** (the formatter accepting, sets enumerated as listed: independence of the enumeration is
    C10's theorem) -/
def C04_full : Prop := ∀ cfg inp, Valid cfg inp → Holds (modelRun cfg inp)

/-- the unproved region, explicitly: see the header -/
def Proved_04 (cfg : Config) (inp : Input) : Prop := provedB cfg inp = true

instance (cfg : Config) (inp : Input) : Decidable (Proved_04 cfg inp) := by unfold Proved_04; infer_instance

/-! ## 1. The reported file list is the set of files written -/

theorem generatePackage_ok {fmt : FmtOracle} {e : Order.EnumOracle} {cfg : Config} {inp : Input} {fl : Nat} {p : PackageIR}
    (h : generatePackage fmt e cfg inp fl = .ok p) :
    ∃ st g, addOperations cfg inp fl {} inp.ops = .ok st ∧ hasDup (checkedFileNames cfg (st.files.map (·.1))) = false ∧
      generateSteps fmt e cfg inp fl st (genSt0 cfg st) = .ok g ∧ p = packageOf cfg g ∧
      (runPackage fmt e cfg inp fl).written = g.log ++ extraWritesOf cfg := by
  unfold generatePackage at h
  rcases runPackage_cases fmt e cfg inp fl with ⟨e1, _, hr⟩ | ⟨st, _, _, hr⟩ | ⟨st, g, e1, _, _, _, hr⟩ | ⟨st, g, ha, hd, hg, hr⟩
  · rw [hr] at h; simp at h
  · rw [hr] at h; simp at h
  · rw [hr] at h; simp at h
  · rw [hr] at h
    simp only [Except.ok.injEq] at h
    exact ⟨st, g, ha, hd, hg, h.symm, by rw [hr]⟩

/-- **files_reported_eq_written**, for every input, formatter, enumeration: when `generate()` returns, the reported list
    is the sorted write log; what was written is the write log (plus what a plugin wrote itself); there is exactly one
    module per file name on disk and the names on disk are the names of the write log; and the reported list IS the
    directory listing exactly when no file was written twice — given that no plugin wrote behind the generator's back,
    which by itself makes the two differ. -/
theorem files_reported_eq_written (fmt : FmtOracle) (e : Order.EnumOracle) (cfg : Config) (inp : Input) (fl : Nat) (p : PackageIR)
    (h : generatePackage fmt e cfg inp fl = .ok p) :
    p.reported = sortStr p.writeLog ∧
    (runPackage fmt e cfg inp fl).written = p.writeLog ++ p.extraWrites ∧
    (p.modules.map (·.file)).Nodup ∧ (∀ f, f ∈ p.modules.map (·.file) ↔ f ∈ p.writeLog) ∧
    (p.extraWrites = [] → (p.reported = p.onDisk ↔ p.writeLog.Nodup)) ∧
    (∀ f ∈ p.extraWrites, f ∉ p.writeLog → p.reported ≠ p.onDisk) := by
  obtain ⟨st, g, _, _, hg, rfl, hw⟩ := generatePackage_ok h
  have inv := (generateSteps_files fmt e cfg inp fl st).1 g hg
  refine ⟨rfl, hw, inv.nodup, inv.mem, ?_, ?_⟩
  · intro hx
    show sortStr g.log = sortedSet (g.log ++ extraWritesOf cfg) ↔ _
    have hx' : extraWritesOf cfg = [] := hx
    rw [hx', List.append_nil]
    constructor
    · intro heq; exact (sortedSet_eq_sortStr_iff g.log).mp heq.symm
    · intro hn; exact ((sortedSet_eq_sortStr_iff g.log).mpr hn).symm
  · intro f hf hnot heq
    have h1 : f ∈ (packageOf cfg g).onDisk := (mem_sortedSet f _).mpr (List.mem_append.mpr (Or.inr hf))
    rw [← heq] at h1
    exact hnot ((OpTextProofs.mem_sortStr f _).mp h1)

/-- outside the triggers `fileWrittenTwice` (F13) and `pluginExtractOperations` (F11) the reported list is the directory listing -/
theorem reported_eq_listing {cfg : Config} {inp : Input} {p : PackageIR} (hp : modelIR cfg inp = some p)
    (hs : Supported_04 cfg inp) : p.reported = p.onDisk := by
  have h1 : trigFileWrittenTwice p = false := onIR_off hp (trigger_off hs (n := "fileWrittenTwice") (by simp [triggerTable]))
  have h2 : cfg.extractOps.isSome = false := trigger_off hs (n := "pluginExtractOperations") (by simp [triggerTable])
  have hgen : generatePackage (fun _ => true) id cfg inp Package.fuel = .ok p := by
    unfold modelIR modelRun at hp
    unfold generatePackage
    cases ho : (runPackage (fun _ => true) id cfg inp).outcome with
    | error e1 => rw [ho] at hp; simp at hp
    | ok q => rw [ho] at hp; simp only [Option.some.injEq] at hp; rw [hp]
  obtain ⟨_, _, _, _, h5, _⟩ := files_reported_eq_written _ _ cfg inp _ p hgen
  obtain ⟨st, g, _, _, _, rfl, _⟩ := generatePackage_ok hgen
  have hx : (packageOf cfg g).extraWrites = [] := by
    show extraWritesOf cfg = []
    unfold extraWritesOf
    cases hc : cfg.extractOps with
    | none => rfl
    | some m => rw [hc] at h2; simp at h2
  exact (h5 hx).mpr ((hasDup_eq_false_iff _).mp h1)

/-! ## 2. `__init__` re-exports exactly the names in `__all__` -/

theorem initAll_spec (is : List Import) : initAll is = if is.isEmpty then none else some (sortStr (importedNames is)) := rfl

/-- **init_all_exact**, for every input, formatter, enumeration: when `generate()` returns, every `__init__` module on disk
    carries `__all__` = the sorted list of the names it imports (`allOK`); the module written last IS `__init__`, it imports
    `finalInit` and nothing else, and the names it imports are, in this order: the exception names (bundled base clients
    only), the public names of the generator of every operation module, of the input types module, of the fragments module
    (when one is written), the base client class, `BaseModel`, `Upload`, the client class, and every emitted enum class. -/
theorem init_all_exact (fmt : FmtOracle) (e : Order.EnumOracle) (cfg : Config) (inp : Input) (fl : Nat) (p : PackageIR)
    (h : generatePackage fmt e cfg inp fl = .ok p) :
    (∀ m ∈ p.modules, allOK m = true) ∧
    ∃ st io fo, addOperations cfg inp fl {} inp.ops = .ok st ∧ inputsModule cfg inp.defs st.argSt.usedInputs = .ok io ∧
      FragmentsRan e cfg inp fl st fo ∧
      initModule (finalInit cfg inp st io fo) ∈ p.modules ∧
      (initModule (finalInit cfg inp st io fo)).all = some (sortStr (importedNames (finalInit cfg inp st io fo))) ∧
      importedNames (finalInit cfg inp st io fo) =
        importedNames st.init ++ (if cfg.defaultBaseClient then Tables.exceptionsNames else []) ++ io.publicNames ++ fragmentNames fo
          ++ [cfg.baseClientName] ++ ["BaseModel", Tables.uploadClassName] ++ [cfg.clientName]
          ++ (enumsModule cfg inp.schema (st.usedEnums ++ io.usedEnums ++ fragmentEnums fo ++ st.argSt.usedEnums)).classes.map (·.name) := by
  obtain ⟨st, g, ha, _, hg, rfl, _⟩ := generatePackage_ok h
  refine ⟨generateSteps_allOK ha hg, ?_⟩
  obtain ⟨io, fo, hio, hfo, _, hmem⟩ := generateSteps_init hg
  refine ⟨st, io, fo, ha, hio, hfo, hmem, ?_, ?_⟩
  · have hne : (finalInit cfg inp st io fo).isEmpty = false := by
      cases hl : finalInit cfg inp st io fo with
      | cons a l => rfl
      | nil =>
        have hn := importedNames_finalInit cfg inp st io fo
        rw [hl] at hn
        simp [importedNames] at hn
    show initAll (finalInit cfg inp st io fo) = _
    rw [initAll_spec, hne]
    rfl
  · rw [importedNames_finalInit, importedNames_init0]

/-- what `add_operation` contributed to `__init__`: one `from .<module> import <public names>` per operation whose
    generator produced a class, in document order -/
def opImports (outs : List Fragments.DefGen) : List Import :=
  outs.foldl (fun is g => initAdd is g.out.st.publicNames (methodName g.name)) []

theorem addOperations_init {cfg : Config} {inp : Input} {fl : Nat} :
    ∀ (ops : List OpIn) (st st' : St), addOperations cfg inp fl st ops = .ok st' →
      ∃ more, st'.outs = st.outs ++ more ∧ st'.init = more.foldl (fun is g => initAdd is g.out.st.publicNames (methodName g.name)) st.init
  | [], st, st', h => by simp [addOperations] at h; subst h; exact ⟨[], by simp, rfl⟩
  | o :: rest, st, st', h => by
    simp only [addOperations] at h
    cases ha : addOperation cfg inp fl st o with
    | error e1 => rw [ha] at h; simp at h
    | ok st1 =>
      rw [ha] at h
      obtain ⟨more, h1, h2⟩ := addOperations_init rest st1 st' h
      unfold addOperation at ha
      cases hn : o.op.name with
      | none => rw [hn] at ha; simp at ha
      | some n =>
        rw [hn] at ha
        simp only at ha
        cases hgen : ResultTypes.generate (rtEnv cfg inp) fl (.op o.op) st.marks with
        | error e1 => rw [hgen] at ha; simp at ha
        | ok out =>
          rw [hgen] at ha
          simp only at ha
          cases hmth : ClientMethod.addMethod (argEnv cfg inp) (opType o.op.kind) (some n) o.vars (methodName n) (ResultTypes.pascal n) o.text cfg.async st.argSt with
          | error e2 => rw [hmth] at ha; simp at ha
          | ok r =>
            rw [hmth] at ha
            obtain ⟨mm, a⟩ := r
            simp only [Except.ok.injEq] at ha
            subst ha
            refine ⟨⟨n, out⟩ :: more, by simpa using h1, ?_⟩
            simpa using h2

/-- the operations' part of `__init__`, in closed form -/
theorem init_operations {cfg : Config} {inp : Input} {fl : Nat} {st : St} (h : addOperations cfg inp fl {} inp.ops = .ok st) :
    st.init = opImports st.outs := by
  obtain ⟨more, h1, h2⟩ := addOperations_init inp.ops {} st h
  have : st.outs = more := by simpa using h1
  rw [h2, this]
  rfl

/-! ## 3. Totality: where exceptions come from, which are documented, what has been written -/

/-- **refusal_origin**, for every input: an exception that escapes a run was raised by `add_operation` (an anonymous
    operation; the result-type generator of an operation; `add_method`), by `_validate_unique_file_names`, or inside
    `generate()` by the formatter, the input types generator or the fragments generator.  There is no other source. -/
theorem refusal_origin (fmt : FmtOracle) (e : Order.EnumOracle) (cfg : Config) (inp : Input) (fl : Nat) (err : GenErr)
    (h : (runPackage fmt e cfg inp fl).outcome = .error err) :
    OpsErr cfg inp fl err ∨ err = .parsing "Duplicated file names" ∨
      ∃ st, addOperations cfg inp fl {} inp.ops = .ok st ∧ StepsErr fmt e cfg inp fl st err :=
  run_error_origin h

/-- **refused_before_write**: an exception raised while the operations are added, or by the unique-name check, leaves
    neither a directory nor a file behind (the code guarantees it: `generate()` has not made the directory yet). -/
theorem refused_before_write (fmt : FmtOracle) (e : Order.EnumOracle) (cfg : Config) (inp : Input) (fl : Nat)
    (h : (∃ err, addOperations cfg inp fl {} inp.ops = .error err) ∨
         (∃ st, addOperations cfg inp fl {} inp.ops = .ok st ∧ hasDup (checkedFileNames cfg (st.files.map (·.1))) = true)) :
    (runPackage fmt e cfg inp fl).mkdir = false ∧ (runPackage fmt e cfg inp fl).written = [] ∧
      ∃ err, (runPackage fmt e cfg inp fl).outcome = .error err :=
  C04Proofs.refused_before_write h

/-- an anonymous operation anywhere in the document: refused, nothing written -/
theorem anonymous_refused_before_write (fmt : FmtOracle) (e : Order.EnumOracle) (cfg : Config) (inp : Input) (fl : Nat)
    (h : ∃ o ∈ inp.ops, o.op.name = none) :
    (runPackage fmt e cfg inp fl).mkdir = false ∧ (runPackage fmt e cfg inp fl).written = [] ∧
      ∃ err, (runPackage fmt e cfg inp fl).outcome = .error err :=
  C04Proofs.refused_before_write (Or.inl (addOperations_anonymous inp.ops {} h))

/-- a subscription with a synchronous client: refused, nothing written -/
theorem sync_subscription_refused_before_write (fmt : FmtOracle) (e : Order.EnumOracle) (cfg : Config) (inp : Input) (fl : Nat)
    (hs : cfg.async = false) (h : ∃ o ∈ inp.ops, o.op.kind = .subscription) :
    (runPackage fmt e cfg inp fl).mkdir = false ∧ (runPackage fmt e cfg inp fl).written = [] ∧
      ∃ err, (runPackage fmt e cfg inp fl).outcome = .error err :=
  C04Proofs.refused_before_write (Or.inl (addOperations_sync_subscription hs inp.ops {} h))

/-- the result-type generator (C01 / C08's model) refuses a definition of this input only with a documented refusal -/
def ResultTypesTotal (cfg : Config) (inp : Input) (fl : Nat) : Prop :=
  ∀ (d : ResultTypes.Definition) (marks : List Nat) (err : GenErr),
    ((∃ o ∈ inp.ops, d = .op o.op) ∨ (∃ f ∈ inp.frags, d = .frag f)) →
    ResultTypes.generate (rtEnv cfg inp) fl d marks = .error err → documentedRefusal err = true

/-- the fragments generator (C08's model) raises nothing of its own (KeyError / ValueError of the sort and of the rebuild
    calls) and passes on only documented refusals of the result-type generator -/
def FragmentsTotal (e : Order.EnumOracle) (cfg : Config) (inp : Input) (fl : Nat) : Prop :=
  ∀ (names : List String) (marks : List Nat) (err : Fragments.Err),
    (Fragments.genFragments (rtEnv cfg inp) fl names marks = .error err ∨
     Fragments.generateFragments e (rtEnv cfg inp) fl names marks = .error err) → documentedRefusal (ofFragErr err) = true

/-- **generate_total_partial**: for a valid input (variables and input fields declared with input types), an accepting
    formatter, and component generators that refuse only with documented refusals, the run ends in a package or in one of
    the documented refusals — never in an internal error.  The package-level code adds no failure of its own: the only
    exceptions it raises itself are "Query without name." and "Duplicated file names"; `add_method` raises only the
    documented subscription refusal; the input types generator raises nothing (its dependency closure terminates on every
    graph). -/
theorem generate_total_partial (fmt : FmtOracle) (e : Order.EnumOracle) (cfg : Config) (inp : Input) (fl : Nat)
    (hv : Valid cfg inp) (hf : FmtTotal fmt) (hr : ResultTypesTotal cfg inp fl) (hfr : FragmentsTotal e cfg inp fl) :
    (∃ p, (runPackage fmt e cfg inp fl).outcome = .ok p) ∨
    (∃ err, (runPackage fmt e cfg inp fl).outcome = .error err ∧ documentedRefusal err = true) := by
  cases ho : (runPackage fmt e cfg inp fl).outcome with
  | ok p => exact Or.inl ⟨p, rfl⟩
  | error err =>
    refine Or.inr ⟨err, rfl, ?_⟩
    rcases run_error_origin ho with h | h | ⟨st, _, h⟩
    · cases h with
      | anonymous o _ _ => rfl
      | resultTypes o marks err ho' hg => exact hr _ marks err (Or.inl ⟨o, ho', rfl⟩) hg
      | method o n ast aerr ho' hn hm =>
        obtain ⟨rfl, _, _⟩ := addMethod_error_documented (hv.vars o ho') hm
        rfl
    · subst h; rfl
    · cases h with
      | formatter m hm => rw [hf m] at hm; cases hm
      | inputs err hi =>
        obtain ⟨io, hio⟩ := inputsModule_ok hv.inputs st.argSt.usedInputs
        rw [hio] at hi; cases hi
      | fragments names ferr hfe => exact hfr names st.marks ferr hfe

/-! ## 4. Well-scopedness -/

theorem modelIR_generate {cfg : Config} {inp : Input} {p : PackageIR} (hp : modelIR cfg inp = some p) :
    generatePackage (fun _ => true) id cfg inp Package.fuel = .ok p := by
  unfold modelIR modelRun at hp
  unfold generatePackage
  cases ho : (runPackage (fun _ => true) id cfg inp).outcome with
  | error e1 => rw [ho] at hp; simp at hp
  | ok q => rw [ho] at hp; simp only [Option.some.injEq] at hp; rw [hp]

/-- the finding regions are exact for the parts they are about: with the trigger off the part holds, for every module
    of the model's package -/
theorem trigger_parts {cfg : Config} {inp : Input} {p : PackageIR} (hp : modelIR cfg inp = some p) (hs : Supported_04 cfg inp)
    {m : ModuleIR} (hm : m ∈ p.modules) (hg : generated m = true) :
    identsOK m = true ∧ paramsDistinct m = true ∧ enumMembersOK m = true ∧ bindingsUnique m = true ∧
      (m.classes.all fun c => c.fwd.isEmpty || m.rebuilds.contains c.name) = true := by
  have off (n : String) (f : PackageIR → Bool) (hmem : (n, onIR cfg inp f) ∈ triggerTable cfg inp) : f p = false :=
    onIR_off hp (trigger_off hs hmem)
  exact ⟨identsOK_of_off hm hg (off "identNotPython" _ (by simp [triggerTable])) (off "identKeyword" _ (by simp [triggerTable])),
    paramsDistinct_of_off hm (off "duplicateParam" _ (by simp [triggerTable])),
    enumMembersOK_of_off hm (off "enumMemberReserved" _ (by simp [triggerTable])) (off "enumMemberDuplicate" _ (by simp [triggerTable])),
    bindingsUnique_of_off hm hg (off "nameBoundTwice" _ (by simp [triggerTable])),
    rebuilt_of_off hm (off "missingRebuild" _ (by simp [triggerTable]))⟩

/-- **generated_wellscoped**: outside the finding regions, and where the residual parts hold (`Proved_04`: imports resolve,
    names are bound before use, forward references and rebuild targets are defined — evaluated by the driver on every
    case), the model's package is well scoped. -/
theorem generated_wellscoped (cfg : Config) (inp : Input) (p : PackageIR) (hp : modelIR cfg inp = some p)
    (hs : Supported_04 cfg inp) (hpr : Proved_04 cfg inp) : WellScoped p := by
  unfold WellScoped wellScopedB
  refine List.all_eq_true.mpr ?_
  intro m hm
  refine moduleOK_of_parts ?_
  intro hg
  obtain ⟨i1, i2, i3, i4, i5⟩ := trigger_parts hp hs hm hg
  have hres : residualParts p m = true := by
    unfold Proved_04 provedB at hpr
    unfold modelIR at hp
    cases ho : (modelRun cfg inp).outcome with
    | error e1 => rw [ho] at hp; simp at hp
    | ok q =>
      rw [ho] at hp hpr
      simp only [Option.some.injEq] at hp
      subst hp
      have := List.all_eq_true.mp hpr m hm
      simpa [hg] using this
  have hres' := hres
  unfold residualParts at hres'
  simp only [Bool.and_eq_true] at hres'
  obtain ⟨st, g, ha, _, hgs, rfl, _⟩ := generatePackage_ok (modelIR_generate hp)
  exact ⟨hres, rebuildsComplete_of i5 hres'.2, i2, i3, i1, i4, generateSteps_allOK ha hgs m hm⟩

/-- **import_autoflake_safe**: autoflake's pruning (as modelled: an imported name survives iff the module mentions it)
    never removes a name the module uses — every used name that some import statement binds is still bound afterwards. -/
theorem import_autoflake_safe (m : ModuleIR) (n : String) (hu : n ∈ m.usedNames)
    (hi : n ∈ importedNames (m.imports.map normImport)) : n ∈ importedNames m.effectiveImports := by
  unfold ModuleIR.effectiveImports
  simp only
  split
  · unfold importedNames at hi ⊢
    obtain ⟨i, hi1, hi2⟩ := List.mem_flatMap.mp hi
    refine List.mem_flatMap.mpr ⟨{ i with names := i.names.filter (m.usedNames ++ m.classes.map (·.name) ++ m.funcs).contains }, ?_, ?_⟩
    · refine List.mem_filter.mpr ⟨List.mem_map.mpr ⟨i, hi1, rfl⟩, ?_⟩
      have : n ∈ i.names.filter (m.usedNames ++ m.classes.map (·.name) ++ m.funcs).contains :=
        List.mem_filter.mpr ⟨hi2, by simp [hu]⟩
      cases hl : i.names.filter (m.usedNames ++ m.classes.map (·.name) ++ m.funcs).contains with
      | nil => rw [hl] at this; cases this
      | cons a l => simp
    · exact List.mem_filter.mpr ⟨hi2, by simp [hu]⟩
  · exact hi

/-- the `model_rebuild()` calls of an operation module are placed by ONE predicate: the package model's (kernel-evaluable)
    `classHasFwd` is the result-type model's `classHasForwardRefs`, so the module IR carries exactly `ModuleOut.rebuild` -/
theorem rebuild_placement_agrees (cfg : Config) (file : String) (env : ResultTypes.Env) (fl : Nat) (d : ResultTypes.Definition)
    (marks : List Nat) (out : ResultTypes.ModuleOut) (h : ResultTypes.generate env fl d marks = .ok out) :
    (resultModule cfg file out).rebuilds = out.rebuild :=
  resultModule_rebuilds cfg file env fl d marks out h

/-! ## 5. The partial theorem -/

theorem initExact_of {p : PackageIR} {is : List Import} (hm : initModule is ∈ p.modules) (hne : is.isEmpty = false) :
    initExactB p = true := by
  unfold initExactB
  refine List.any_eq_true.mpr ⟨initModule is, hm, ?_⟩
  simp [initModule]

/-- **C04 outside the finding triggers, inside the proved region**: for every configuration and every valid input the
    model's run ends in a documented refusal, or in a package that is well scoped, whose `__init__` carries the exact
    `__all__`, and whose reported file list is the directory listing. -/
theorem C04_partial (cfg : Config) (inp : Input) (hv : Valid cfg inp) (hs : Supported_04 cfg inp) (hpr : Proved_04 cfg inp) :
    Holds (modelRun cfg inp) := by
  unfold Holds holdsB
  cases ho : (modelRun cfg inp).outcome with
  | error err =>
    unfold Proved_04 provedB at hpr
    rw [ho] at hpr
    exact hpr
  | ok p =>
    have hp : modelIR cfg inp = some p := by unfold modelIR; rw [ho]
    have h1 := generated_wellscoped cfg inp p hp hs hpr
    have h3 := reported_eq_listing hp hs
    obtain ⟨_, st, io, fo, _, _, _, hmem, _, hnames⟩ := init_all_exact _ _ cfg inp _ p (modelIR_generate hp)
    have hne : (finalInit cfg inp st io fo).isEmpty = false := by
      cases hl : finalInit cfg inp st io fo with
      | cons a l => rfl
      | nil => rw [hl] at hnames; simp [importedNames] at hnames
    simp only [Bool.and_eq_true, beq_iff_eq]
    exact ⟨⟨h1, initExact_of hmem hne⟩, h3⟩

/-! ## 6. The full statement is false on the pinned tree: kernel-evaluated witnesses through the whole model -/

namespace W

def tQuery (fs : List FieldDef) : TypeDef := { name := "Query", kind := .object, fields := fs }
def str : TypeDef := { name := "String", kind := .scalar }
def int : TypeDef := { name := "Int", kind := .scalar }
def idT : TypeDef := { name := "ID", kind := .scalar }
def bool : TypeDef := { name := "Boolean", kind := .scalar }

def mkInput (types : List TypeDef) (frags : List Fragment) (ops : List OpIn) (defs : List InputGen.TypeDef := []) : Input :=
  { schema := { types := types ++ [str, bool], query := some "Query" }, frags := frags, ops := ops,
    defs := defs ++ [.composite "Query", .scalar "String", .scalar "Boolean"] }

def leaf (n : String) : Selection := .field none n [] 0 []

/-- F4: `enum E { mro OK }  type Query { e: E }   query Q { e }` -/
def enumMro : Input :=
  mkInput [tQuery [⟨"e", .named "E", []⟩], { name := "E", kind := .enum, values := ["mro", "OK"] }] []
    [{ op := { kind := .query, name := some "Q", sid := 1, sel := [leaf "e"] } }] [.enum "E" ["mro", "OK"]]

/-- F2: `type Query { me: User }  type User { id: ID! name: String }   query Q { me { id ... { name } } }` -/
def inlineNoType : Input :=
  mkInput [tQuery [⟨"me", .named "User", []⟩], { name := "User", kind := .object, fields := [⟨"id", .nonNull (.named "ID"), []⟩, ⟨"name", .named "String", []⟩] }, idT] []
    [{ op := { kind := .query, name := some "Q", sid := 1, sel := [.field none "me" [] 2 [leaf "id", .inline none [] 3 [leaf "name"]]] } }]
    [.composite "User", .scalar "ID"]

/-- F10: `type Query { f(a: Int): Int }   query Q($self: Int) { f(a: $self) }` -/
def selfParam : Input :=
  mkInput [tQuery [⟨"f", .named "Int", [⟨"a", .named "Int", false⟩]⟩], int] []
    [{ op := { kind := .query, name := some "Q", sid := 1, sel := [leaf "f"] }, vars := [⟨"self", .named "Int"⟩] }] [.scalar "Int"]

/-- F13: `type Query { f: Int }   query custom_fields { f }` with enable_custom_operations -/
def customClash : Input :=
  mkInput [tQuery [⟨"f", .named "Int", []⟩], int] []
    [{ op := { kind := .query, name := some "custom_fields", sid := 1, sel := [leaf "f"] } }] [.scalar "Int"]

def customCfg : Config := { customOps := true }

/-- F15: `query Q { me { ...UF } }  fragment UF on User { id friend { id friend { id } } }` -/
def userT : TypeDef := { name := "User", kind := .object, fields := [⟨"id", .nonNull (.named "ID"), []⟩, ⟨"friend", .named "User", []⟩] }
def missingRebuild : Input :=
  mkInput [tQuery [⟨"me", .named "User", []⟩], userT, idT]
    [{ name := "UF", on := "User", sid := 3, sel := [leaf "id", .field none "friend" [] 4 [leaf "id", .field none "friend" [] 5 [leaf "id"]]] }]
    [{ op := { kind := .query, name := some "Q", sid := 1, sel := [.field none "me" [] 2 [.spread "UF" []]] } }]
    [.composite "User", .scalar "ID"]

/-- C17-F5 seen from C04: `query Q { me { ...UF } }  fragment UF on User @mixin(from: ".x") { id }` — a documented refusal,
    but raised by the fragments generator AFTER the input types and the operation module were written -/
def mixinOnFragment : Input :=
  mkInput [tQuery [⟨"me", .named "User", []⟩], userT, idT]
    [{ name := "UF", on := "User", dirs := [{ name := "mixin", args := [("from", some ".x")] }], sid := 3, sel := [leaf "id"] }]
    [{ op := { kind := .query, name := some "Q", sid := 1, sel := [.field none "me" [] 2 [.spread "UF" []]] } }]
    [.composite "User", .scalar "ID"]

/-- F12: `type Query { n: Node }  interface Node { id: ID }  interface Named { name: String }
    type A implements Node & Named { id: ID name: String }   query Q { n { id ... on Named { name } } }` -/
def fieldLookup : Input :=
  mkInput [tQuery [⟨"n", .named "Node", []⟩], { name := "Node", kind := .interface, fields := [⟨"id", .named "ID", []⟩] },
           { name := "Named", kind := .interface, fields := [⟨"name", .named "String", []⟩] },
           { name := "A", kind := .object, interfaces := ["Node", "Named"], fields := [⟨"id", .named "ID", []⟩, ⟨"name", .named "String", []⟩] }, idT] []
    [{ op := { kind := .query, name := some "Q", sid := 1, sel := [.field none "n" [] 2 [leaf "id", .inline (some "Named") [] 3 [leaf "name"]]] } }]
    [.composite "Node", .composite "Named", .composite "A", .scalar "ID"]

/-- F14: `enum List { A B }  type Query { e: List es: [List] }   query Q { e es }` -/
def enumList : Input :=
  mkInput [tQuery [⟨"e", .named "List", []⟩, ⟨"es", .list (.named "List"), []⟩], { name := "List", kind := .enum, values := ["A", "B"] }] []
    [{ op := { kind := .query, name := some "Q", sid := 1, sel := [leaf "e", leaf "es"] } }] [.enum "List" ["A", "B"]]

/-- F9: `type Query { dog: Dog animal: Animal }  interface Animal { id: ID }  type Dog implements Animal { id: ID }
    query A { dog { ...AF } }  query B { animal { ...AF } }  fragment AF on Animal { id }` -/
def unpackedInherited : Input :=
  mkInput [tQuery [⟨"dog", .named "Dog", []⟩, ⟨"animal", .named "Animal", []⟩], { name := "Animal", kind := .interface, fields := [⟨"id", .named "ID", []⟩] },
           { name := "Dog", kind := .object, interfaces := ["Animal"], fields := [⟨"id", .named "ID", []⟩] }, idT]
    [{ name := "AF", on := "Animal", sid := 5, sel := [leaf "id"] }]
    [{ op := { kind := .query, name := some "A", sid := 1, sel := [.field none "dog" [] 2 [.spread "AF" []]] } },
     { op := { kind := .query, name := some "B", sid := 3, sel := [.field none "animal" [] 4 [.spread "AF" []]] } }]
    [.composite "Animal", .composite "Dog", .scalar "ID"]

/-- a supported, non-trivial input: two operations, a shared fragment, an enum, an input type with a recursive field -/
def okInput : Input :=
  mkInput [tQuery [⟨"me", .named "User", []⟩, ⟨"f", .named "Int", [⟨"i", .named "In", false⟩]⟩, ⟨"c", .named "Color", []⟩], userT, idT, int,
           { name := "Color", kind := .enum, values := ["RED", "GREEN"] },
           { name := "In", kind := .input, inputFields := [⟨"a", .named "Int", false⟩, ⟨"next", .named "In", false⟩, ⟨"c", .named "Color", false⟩] }]
    [{ name := "UF", on := "User", sid := 5, sel := [leaf "id"] }]
    [{ op := { kind := .query, name := some "GetMe", sid := 1, sel := [.field none "me" [] 2 [.spread "UF" [], .field none "friend" [] 3 [leaf "id"]], leaf "c"] } },
     { op := { kind := .query, name := some "calc", sid := 4, sel := [leaf "f"] }, vars := [⟨"i", .named "In"⟩] }]
    [.composite "User", .scalar "ID", .scalar "Int", .enum "Color" ["RED", "GREEN"],
     .input "In" [⟨"a", .named "Int", none, false⟩, ⟨"next", .named "In", none, false⟩, ⟨"c", .named "Color", none, false⟩]]

end W

/-- F4 in the model: the enum value `mro` becomes a member of `class E(str, Enum)`; the input is valid, the package is
    emitted, and it is not well scoped (`enums.py:enumMembersOK`) -/
theorem F4_fails_in_model : Valid {} W.enumMro ∧ ¬ Holds (modelRun {} W.enumMro) ∧ ¬ Supported_04 {} W.enumMro := by
  decide +kernel

/-- F2 in the model: a valid operation with an inline fragment without type condition ends in `.internal "AttributeError"` -/
theorem F2_fails_in_model : Valid {} W.inlineNoType ∧ ¬ Holds (modelRun {} W.inlineNoType) ∧ ¬ Supported_04 {} W.inlineNoType := by
  decide +kernel

/-- F10 in the model: `$self` becomes a second parameter `self` -/
theorem F10_fails_in_model : Valid {} W.selfParam ∧ ¬ Holds (modelRun {} W.selfParam) ∧ ¬ Supported_04 {} W.selfParam := by
  decide +kernel

/-- F13 in the model: with custom operations, an operation called `custom_fields` has its module written twice: the
    reported list is not the directory listing -/
theorem F13_fails_in_model : Valid W.customCfg W.customClash ∧ ¬ Holds (modelRun W.customCfg W.customClash) ∧
    ¬ Supported_04 W.customCfg W.customClash := by
  decide +kernel

/-- F15 in the model: the nested class `UFFriend` of fragments.py carries a forward reference and is not rebuilt -/
theorem F15_fails_in_model : Valid {} W.missingRebuild ∧ ¬ Holds (modelRun {} W.missingRebuild) ∧ ¬ Supported_04 {} W.missingRebuild := by
  decide +kernel

/-- F12 in the model: a valid operation is refused with the undocumented ParsingError "Field name not found in type Node." -/
theorem F12_fails_in_model : Valid {} W.fieldLookup ∧ ¬ Holds (modelRun {} W.fieldLookup) ∧ ¬ Supported_04 {} W.fieldLookup := by
  decide +kernel

/-- F14 in the model: an enum called `List` is imported into the operation module next to `typing.List` -/
theorem F14_fails_in_model : Valid {} W.enumList ∧ ¬ Holds (modelRun {} W.enumList) ∧ ¬ Supported_04 {} W.enumList := by
  decide +kernel

/-- F9 in the model: operation A unpacks fragment AF, operation B inherits it: no fragments module is written, B's
    `from .fragments import AF` does not resolve -/
theorem F9_fails_in_model : Valid {} W.unpackedInherited ∧ ¬ Holds (modelRun {} W.unpackedInherited) ∧ ¬ Supported_04 {} W.unpackedInherited := by
  decide +kernel

/-- a malformed `@mixin` on a fragment definition is one of the documented refusals, but it is raised after writes -/
theorem mixin_on_fragment_refused_after_writes :
    (modelRun {} W.mixinOnFragment).written = ["input_types.py", "q.py"] ∧ (modelRun {} W.mixinOnFragment).mkdir = true ∧
    Holds (modelRun {} W.mixinOnFragment) := by
  decide +kernel

theorem C04_full_false : ¬ C04_full := fun h => F4_fails_in_model.2.1 (h {} W.enumMro F4_fails_in_model.1)

/-- non-vacuity of `C04_partial`: a non-trivial input inside Valid ∧ Supported_04 ∧ Proved_04 (two operations, a shared
    fragment, an enum, a recursive input type), for the default configuration and for sync / no snake case / pruned inputs -/
example : Valid {} W.okInput ∧ Supported_04 {} W.okInput ∧ Proved_04 {} W.okInput ∧
    (match (modelRun {} W.okInput).outcome with | .ok p => decide (p.modules.length ≥ 8) | .error _ => false) = true := by
  decide +kernel

def W.syncCfg : Config :=
  { async := false, baseClientName := "BaseClient", baseClientFile := "base_client.py", snake := false, allInputs := false, allEnums := false }

example : Valid W.syncCfg W.okInput ∧ Supported_04 W.syncCfg W.okInput ∧ Proved_04 W.syncCfg W.okInput := by
  decide +kernel

/-- non-vacuity of `generate_total_partial`'s hypotheses on the documented refusals: an anonymous operation -/
example : (match (modelRun {} (W.mkInput [W.tQuery [⟨"f", .named "Int", []⟩], W.int] []
    [{ op := { kind := .query, name := none, sid := 1, sel := [W.leaf "f"] } }] [.scalar "Int"])).outcome with
      | .error (.parsing m) => m == "Query without name."
      | _ => false) = true := by
  decide +kernel

end Ariadne.C04
